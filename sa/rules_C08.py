"""C08 -- compact never changes the covered region (see sa/compact_rules.py)."""
from . import compact_rules


def run(ctx):
    ctx.explanation = (
        "Structural extraction of compact (sorted duplicate-free copy; pass loop; index scan) followed by abstract interpretation "
        "of ONE generic iteration of the scan body for every resolution of the current cell, which is the generic child "
        "first + stride*A of a generic parent. Every path through the body is summarised as (emitted element, index advance, "
        "flag, path condition). Obligations: every path either copies the cell and advances by one, or emits exactly "
        "cell_to_parent(cell) and advances by the group size, and that merge path is guarded by: cell is sibling position 0, "
        "entries i+1..i+k-1 equal the REAL sibling ids of the layout (from the summarised cell_to_children family), index "
        "window in range; the argument is never mutated. Then each pass preserves the covered region whatever the order of "
        "the list.")
    ctx.trusted_base = ["sa/lin.py, sa/absint.py", "C05/C06 for the meaning of decoded ids and the children family"]
    ctx.assumptions = ["list entries are valid cell ids"]
    compact_rules.analyse(ctx, "C08")
