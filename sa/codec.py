"""Shared helpers of the id-codec rules (C05, C06, C08, C09, C10, C20): module constants,
the origins-table model, generic symbolic cells, the per-resolution layout table."""
from __future__ import annotations

import ast
import itertools
import random
from typing import Any, Dict, List, Optional, Tuple

from . import core
from .absint import (CellV, CondV, ExcV, Interp, ListV, NoneV, OriginV, Outcome, State, Unknown)
from .lin import Atom, DivA, FltDivA, Fn, Lin, ModA, Opaque, OrA, Slice, Sym, compare

SER = "a5/core/serialization.py"
INFO = "a5/core/cell_info.py"
COMPACT = "a5/core/compact.py"
ORIGIN = "a5/core/origin.py"
UTILS = "a5/core/utils.py"


# ---------------------------------------------------------------------------------
# module constants
# ---------------------------------------------------------------------------------

def int_const(interp: Interp, rel: str, name: str) -> int:
    v = interp.module_env(rel).get(name)
    if not (isinstance(v, Lin) and v.is_const()):
        from .absint import _Unmodelled
        raise _Unmodelled(f"module constant {name} of {rel} is not a foldable integer (got {v!r})")
    return v.const


class Consts:
    def __init__(self, interp: Interp):
        self.MAX = int_const(interp, SER, "MAX_RESOLUTION")
        self.FIRST = int_const(interp, SER, "FIRST_HILBERT_RESOLUTION")
        self.WORLD = int_const(interp, SER, "WORLD_CELL")
        self.START = int_const(interp, SER, "HILBERT_START_BIT")
        if not (0 < self.MAX <= 64 and 0 <= self.FIRST <= self.MAX):
            raise core.AnalysisError(f"implausible constants MAX_RESOLUTION={self.MAX} FIRST_HILBERT_RESOLUTION={self.FIRST}")


# ---------------------------------------------------------------------------------
# origins table model (import-time code of a5/core/origin.py)
# ---------------------------------------------------------------------------------

class OriginModel:
    """What the codec needs to know about `origins`: its length, that origins[k].id == k, and the
    range of first_quintant.  Extracted structurally from the import-time code; every expectation
    that is not met is reported as an undecided/violated obligation by `report`."""

    def __init__(self, sources: core.Sources):
        self.sources = sources
        self.length: Optional[int] = None
        self.fq_values: Optional[List[int]] = None
        self.fq_table: Optional[List[int]] = None    # first_quintant by final table index, when derivable
        self.id_is_index: Optional[bool] = None
        self.problems: List[Tuple[str, str, Optional[ast.AST]]] = []   # (rule, text, node)
        self.facts: List[Tuple[str, str, Optional[ast.AST]]] = []
        self._analyse()

    def _analyse(self):
        t = self.sources.tree(ORIGIN)
        funcs = {n.name: n for n in t.body if isinstance(n, ast.FunctionDef)}
        # 1. table creation
        created = [n for n in t.body if isinstance(n, (ast.Assign, ast.AnnAssign)) and
                   any(isinstance(x, ast.Name) and x.id == "origins" for x in ([n.target] if isinstance(n, ast.AnnAssign) else n.targets))]
        if len(created) != 1 or not (isinstance(created[0].value, ast.List) and not created[0].value.elts):
            self.problems.append(("C05.1", "module-level `origins = []` not found exactly once", created[0] if created else None))
            return
        # 2. add_origin: one unconditional append per call
        add = funcs.get("add_origin")
        gen = funcs.get("generate_origins")
        if add is None or gen is None:
            self.problems.append(("C05.1", "add_origin / generate_origins not found", None))
            return
        appends = [n for n in ast.walk(add) if isinstance(n, ast.Call) and isinstance(n.func, ast.Attribute)
                   and n.func.attr == "append" and isinstance(n.func.value, ast.Name) and n.func.value.id == "origins"]
        top_level_appends = [st for st in add.body if isinstance(st, ast.Expr) and st.value in appends]
        if len(appends) != 1 or len(top_level_appends) != 1:
            self.problems.append(("C05.1", "add_origin does not append to origins exactly once, unconditionally", add))
            return
        # 3. count add_origin executions in generate_origins
        count = self._count_calls(gen.body, "add_origin")
        if count is None:
            self.problems.append(("C05.1", "number of add_origin executions in generate_origins is not a constant", gen))
            return
        calls_gen = [n for n in t.body if isinstance(n, ast.Expr) and isinstance(n.value, ast.Call)
                     and isinstance(n.value.func, ast.Name) and n.value.func.id == "generate_origins"]
        other_add = [n for n in ast.walk(t) if isinstance(n, ast.Call) and isinstance(n.func, ast.Name) and n.func.id == "add_origin"
                     and not any(n is x for x in ast.walk(gen))]
        if len(calls_gen) != 1 or other_add:
            self.problems.append(("C05.1", "generate_origins is not called exactly once at import / add_origin called elsewhere", None))
            return
        self.length = count
        self.facts.append(("C05.1", f"origins has {count} entries: generate_origins executes add_origin {count} times "
                                    f"(constant loop bounds), each appending once", gen))
        # 4. other size-changing writes to origins anywhere in the package
        for rel, tree in self.sources.trees.items():
            if not rel.startswith("a5/"):
                continue
            for n in ast.walk(tree):
                if (isinstance(n, ast.Call) and isinstance(n.func, ast.Attribute) and isinstance(n.func.value, ast.Name)
                        and n.func.value.id == "origins"
                        and n.func.attr in ("append", "extend", "insert", "pop", "remove", "clear")):
                    if rel == ORIGIN and n in appends:
                        continue
                    self.problems.append(("C05.1", f"origins.{n.func.attr}(...) changes the table size", n))
                if isinstance(n, ast.Delete):
                    for tg in n.targets:
                        if isinstance(tg, ast.Subscript) and isinstance(tg.value, ast.Name) and tg.value.id == "origins":
                            self.problems.append(("C05.1", "del origins[...] changes the table size", n))
        # 5. re-indexing loop: origins[i] = Origin(id=i, ...)
        self.id_is_index = False
        last_store = None
        for n in t.body:
            if isinstance(n, ast.For) and isinstance(n.iter, ast.Call) and isinstance(n.iter.func, ast.Name) \
                    and n.iter.func.id == "enumerate" and n.iter.args and isinstance(n.iter.args[0], ast.Name) \
                    and n.iter.args[0].id == "origins" and len(n.iter.args) == 1 \
                    and isinstance(n.target, ast.Tuple) and len(n.target.elts) == 2 and isinstance(n.target.elts[0], ast.Name):
                ivar = n.target.elts[0].id
                evar = n.target.elts[1].id if isinstance(n.target.elts[1], ast.Name) else None
                for st in n.body:
                    if (isinstance(st, ast.Assign) and len(st.targets) == 1 and isinstance(st.targets[0], ast.Subscript)
                            and isinstance(st.targets[0].value, ast.Name) and st.targets[0].value.id == "origins"):
                        last_store = st
                        idx = st.targets[0].slice
                        val = st.value
                        ok_idx = isinstance(idx, ast.Name) and idx.id == ivar
                        ok_id = False
                        fq_ok = False
                        if isinstance(val, ast.Call) and isinstance(val.func, ast.Name) and val.func.id == "Origin":
                            for k in val.keywords:
                                if k.arg == "id" and isinstance(k.value, ast.Name) and k.value.id == ivar:
                                    ok_id = True
                                if k.arg == "first_quintant" and isinstance(k.value, ast.Attribute) and k.value.attr == "first_quintant" \
                                        and isinstance(k.value.value, ast.Name) and k.value.value.id == evar:
                                    fq_ok = True
                        if ok_idx and ok_id:
                            self.id_is_index = True
                            self.facts.append(("C05.7", "re-index loop stores Origin(id=i) at origins[i] with i from enumerate(origins)", st))
                        else:
                            self.problems.append(("C05.7", f"re-index store `{core.src(st)[:80]}` does not put id=i at origins[i]", st))
                        if not fq_ok:
                            self.fq_values = None
                            self.problems.append(("C05.7", "re-index loop does not carry first_quintant over unchanged", st))
        if last_store is None:
            # without the loop the ids are those given by add_origin: origin_id counter, appended in order, but sorted afterwards
            sorts = [n for n in ast.walk(t) if isinstance(n, ast.Call) and isinstance(n.func, ast.Attribute) and n.func.attr in ("sort", "reverse")
                     and isinstance(n.func.value, ast.Name) and n.func.value.id == "origins"]
            if sorts:
                self.problems.append(("C05.7", "origins is re-ordered but ids are not re-assigned to the new positions", sorts[0]))
            else:
                self.problems.append(("C05.7", "re-index loop not found; id == index not established", None))
        # 6. first_quintant range from the literal table
        qf = [n for n in t.body if isinstance(n, ast.Assign) and any(isinstance(x, ast.Name) and x.id == "QUINTANT_FIRST" for x in n.targets)]
        if len(qf) == 1 and isinstance(qf[0].value, ast.List) and all(isinstance(e, ast.Constant) and isinstance(e.value, int) for e in qf[0].value.elts):
            vals = [e.value for e in qf[0].value.elts]
            if self.length is not None and len(vals) < self.length:
                self.problems.append(("C05.1", f"QUINTANT_FIRST has {len(vals)} entries for {self.length} origins", qf[0]))
            self.fq_values = vals
            self._derive_fq_table(t, add, vals)
        else:
            self.problems.append(("C05.1", "QUINTANT_FIRST is not a literal list of integers", qf[0] if qf else None))

    def _derive_fq_table(self, t: ast.Module, add: ast.FunctionDef, vals: List[int]) -> None:
        """first_quintant of origins[p] after `origins.sort(key=lambda x: ORIGIN_ORDER.index(x.id))`:
        QUINTANT_FIRST[ORIGIN_ORDER[p]] -- only when exactly that idiom is present."""
        if self.length is None:
            return
        # add_origin passes first_quintant=QUINTANT_FIRST[origin_id]
        ok = False
        for n in ast.walk(add):
            if isinstance(n, ast.keyword) and n.arg == "first_quintant":
                v = n.value
                ok = (isinstance(v, ast.Subscript) and isinstance(v.value, ast.Name) and v.value.id == "QUINTANT_FIRST"
                      and isinstance(v.slice, ast.Name) and v.slice.id == "origin_id")
        if not ok:
            return
        order = [n for n in t.body if isinstance(n, ast.Assign) and any(isinstance(x, ast.Name) and x.id == "ORIGIN_ORDER" for x in n.targets)]
        sorts = [n for n in t.body if isinstance(n, ast.Expr) and isinstance(n.value, ast.Call) and isinstance(n.value.func, ast.Attribute)
                 and n.value.func.attr == "sort" and isinstance(n.value.func.value, ast.Name) and n.value.func.value.id == "origins"]
        if len(order) != 1 or len(sorts) != 1:
            return
        ov = order[0].value
        if not (isinstance(ov, ast.List) and all(isinstance(e, ast.Constant) and isinstance(e.value, int) for e in ov.elts)):
            return
        perm = [e.value for e in ov.elts]
        call = sorts[0].value
        if call.args or len(call.keywords) != 1 or call.keywords[0].arg != "key":
            return
        if core.src(call.keywords[0].value).replace(" ", "") != "lambdax:ORIGIN_ORDER.index(x.id)":
            return
        if sorted(perm) != list(range(self.length)) or len(vals) < self.length:
            return
        self.fq_table = [vals[perm[p]] for p in range(self.length)]

    def _count_calls(self, stmts: List[ast.stmt], fname: str) -> Optional[int]:
        total = 0
        for st in stmts:
            if isinstance(st, ast.Expr) and isinstance(st.value, ast.Constant):
                continue
            if isinstance(st, ast.Expr) and isinstance(st.value, ast.Call) and isinstance(st.value.func, ast.Name) and st.value.func.id == fname:
                total += 1
                continue
            if isinstance(st, ast.For):
                it = st.iter
                if (isinstance(it, ast.Call) and isinstance(it.func, ast.Name) and it.func.id == "range" and len(it.args) == 1
                        and isinstance(it.args[0], ast.Constant) and isinstance(it.args[0].value, int)):
                    inner = self._count_calls(st.body, fname)
                    if inner is None or st.orelse:
                        return None
                    if any(isinstance(n, (ast.Break, ast.Continue, ast.Return)) for b in st.body for n in ast.walk(b)):
                        return None
                    total += it.args[0].value * inner
                    continue
                return None
            if any(isinstance(n, ast.Call) and isinstance(n.func, ast.Name) and n.func.id == fname for n in ast.walk(st)):
                return None
            if isinstance(st, (ast.Return, ast.Raise)):
                break
        return total

    def fq_range(self) -> Tuple[int, int]:
        if self.fq_values:
            return min(self.fq_values), max(self.fq_values)
        return (0, 4)

    def report(self, ctx, rules=("C05.1", "C05.7")):
        for rule, text, node in self.facts:
            if rule in rules:
                ctx.ok(rule, f"a5.core.origin: {text}", core.loc(ORIGIN, node), text)
        for rule, text, node in self.problems:
            if rule in rules:
                ctx.unk(rule, f"a5.core.origin: {text}", core.loc(ORIGIN, node),
                        "import-time construction of the origins table has left the modelled idioms; "
                        "facts about face ids are assumed (12 faces, id == index) and not verified")


# ---------------------------------------------------------------------------------
# symbolic cells and ids
# ---------------------------------------------------------------------------------

def sym_o(n: int, name="o") -> Sym:
    return Sym(name, 0, n - 1)


def generic_cell(r: int, n_origins: int, s_hi: Optional[int] = None, suffix: str = "") -> CellV:
    o = sym_o(n_origins, "o" + suffix)
    seg = Sym("seg" + suffix, 0, 4)
    S = Sym("S" + suffix, 0, s_hi)
    return CellV({"origin": OriginV(Lin.of(o)), "segment": Lin.of(seg), "S": Lin.of(S), "resolution": Lin(r)})


def describe_path(state: State) -> str:
    return " and ".join(f"{'' if t else 'not '}{c}" for c, t, _ in state.path) or "unconditional"


def sym_in(v: Lin, name: str) -> Optional[Sym]:
    for s in v.syms():
        if s.name == name:
            return s
    return None


# ---------------------------------------------------------------------------------
# refutation of an equality of two exact forms by a witness valuation
# ---------------------------------------------------------------------------------

def eval_lin(x: Lin, val: Dict[str, int], fnval) -> int:
    tot = x.const
    for a, c in x.terms:
        tot += c * eval_atom(a, val, fnval)
    return tot


def eval_atom(a: Atom, val: Dict[str, int], fnval) -> int:
    if isinstance(a, Sym):
        return val[a.name]
    if isinstance(a, Slice):
        v = val[a.sym.name] >> a.a
        if a.b is not None:
            v &= (1 << (a.b - a.a)) - 1
        return v
    if isinstance(a, ModA):
        return eval_lin(a.lin, val, fnval) % a.m
    if isinstance(a, DivA):
        return eval_lin(a.lin, val, fnval) // a.m
    if isinstance(a, OrA):
        return eval_lin(a.x, val, fnval) | eval_lin(a.y, val, fnval)
    if isinstance(a, FltDivA):
        import math as _m
        return _m.floor(eval_lin(a.lin, val, fnval) / (1 << a.k))      # int / int: correctly rounded quotient, as in the analysed code
    if isinstance(a, Fn):
        args = tuple(eval_lin(x, val, fnval) for x in a.args)
        return fnval(a, args)
    raise KeyError(a)


TABLES: Dict[str, List[int]] = {}     # concrete literal tables for uninterpreted functions (set by the rule modules)


def refute_equal(a: Lin, b: Lin, seed: int = 0, tries: int = 64) -> Optional[Dict[str, int]]:
    """Looks for a valuation of the base symbols (within their ranges) at which the two exact forms
    differ for EVERY admissible interpretation of the uninterpreted table functions (each Fn value is
    tried over its whole range).  Returns the valuation or None.  Opaque atoms make the attempt fail."""
    syms: Dict[str, Sym] = {}
    fns: Dict[tuple, Fn] = {}

    def collect(l: Lin):
        for at, _ in l.terms:
            if isinstance(at, Sym):
                syms[at.name] = _tightest(syms.get(at.name), at)
            elif isinstance(at, Slice):
                syms[at.sym.name] = _tightest(syms.get(at.sym.name), at.sym)
            elif isinstance(at, (ModA, DivA, FltDivA)):
                collect(at.lin)
            elif isinstance(at, OrA):
                collect(at.x)
                collect(at.y)
            elif isinstance(at, Fn):
                fns[at.key] = at
                for x in at.args:
                    collect(x)
            else:
                raise KeyError(at)
    try:
        collect(a)
        collect(b)
    except KeyError:
        return None
    fns = {k: f for k, f in fns.items() if f.name not in TABLES}
    for f in fns.values():
        if f.lo is None or f.hi is None or f.hi - f.lo > 8:
            return None
    rnd = random.Random(seed)
    names = sorted(syms)

    def candidates(s: Sym) -> List[int]:
        lo = s.lo if s.lo is not None else -(1 << 70)
        hi = s.hi if s.hi is not None else (1 << 70)
        c = {lo, hi, min(hi, lo + 1), max(lo, hi - 1), (lo + hi) // 2}
        k = 1
        while lo + k <= hi and k < (1 << 72):
            c.add(lo + k)
            c.add(hi - k if hi - k >= lo else lo)
            k <<= 1
        return sorted(c)

    cand = {n: candidates(syms[n]) for n in names}
    fn_names = sorted({f.name for f in fns.values()})
    fn_ranges = {}
    for f in fns.values():
        fn_ranges[f.name] = (f.lo, f.hi)
    for t in range(tries):
        val = {n: (cand[n][t % len(cand[n])] if t < 8 else rnd.choice(cand[n]) if rnd.random() < 0.5
                   else rnd.randint(syms[n].lo if syms[n].lo is not None else -(1 << 70),
                                    syms[n].hi if syms[n].hi is not None else (1 << 70))) for n in names}
        differs_for_all = True
        # every interpretation: each Fn name gets one constant value (sufficient: distinct argument
        # tuples could get distinct values, but a constant table is one admissible interpretation
        # per value, and we need the difference for all interpretations -> check all constants AND
        # argument-dependent choices would only matter if the same Fn is applied to different args)
        apps = set()
        try:
            for combo in itertools.product(*[range(fn_ranges[n][0], fn_ranges[n][1] + 1) for n in fn_names]):
                table = dict(zip(fn_names, combo))
                seen_args: Dict[str, set] = {}

                def fnval(atom, args, table=table, seen=seen_args):
                    if atom.name in TABLES:
                        tb = TABLES[atom.name]
                        if len(args) == 1 and 0 <= args[0] < len(tb):
                            return tb[args[0]]
                        raise KeyError(atom)
                    seen.setdefault(atom.name, set()).add(args)
                    return table[atom.name]
                va = eval_lin(a, val, fnval)
                vb = eval_lin(b, val, fnval)
                for n, s in seen_args.items():
                    if len(s) > 1:
                        apps.add(n)
                if va == vb:
                    differs_for_all = False
                    break
        except KeyError:
            return None
        if apps:
            # the same table function applied to two different arguments: constant interpretations do
            # not cover all tables -> do not claim a refutation
            continue
        if differs_for_all:
            return val
    return None


def _tightest(a: Optional[Sym], b: Sym) -> Sym:
    if a is None:
        return b
    lo = b.lo if a.lo is None else (a.lo if b.lo is None else max(a.lo, b.lo))
    hi = b.hi if a.hi is None else (a.hi if b.hi is None else min(a.hi, b.hi))
    return Sym(b.name, lo, hi)


def same_or_refuted(a: Any, b: Any, seed: int = 0) -> Tuple[str, str]:
    """-> (state, text) comparing two abstract integer values for semantic equality"""
    if isinstance(a, bool):
        a = Lin(int(a))
    if isinstance(b, bool):
        b = Lin(int(b))
    if not isinstance(a, Lin) or not isinstance(b, Lin):
        return core.UNDECIDED, f"value not determined ({a!r} vs {b!r})"
    if a == b:
        return core.DISCHARGED, f"{a}"
    d = a - b
    if d.is_const():
        return core.VIOLATED, f"{a}  differs from  {b}  by the constant {d.const}"
    lo, hi = d.rng()
    if (lo is not None and lo > 0) or (hi is not None and hi < 0):
        return core.VIOLATED, f"{a}  is never equal to  {b}"
    w = refute_equal(a, b, seed)
    if w is not None:
        return core.VIOLATED, f"{a}  differs from  {b}  e.g. at {w}"
    return core.UNDECIDED, f"{a}  vs  {b}: forms differ, no witness found"


# ---------------------------------------------------------------------------------
# per-resolution encoding table (the layout model L)
# ---------------------------------------------------------------------------------

class Encoded:
    """Outcomes of serialize on the generic cell of one resolution."""

    def __init__(self, r: int, outs: List[Outcome]):
        self.r = r
        self.outs = outs
        self.returns = [o for o in outs if o.kind == "return"]
        self.raises = [o for o in outs if o.kind == "raise"]

    def good(self) -> Optional[Outcome]:
        """the single return outcome, if there is exactly one and its value is an integer form"""
        if len(self.returns) == 1 and isinstance(self.returns[0].value, Lin):
            return self.returns[0]
        return None


def encode_generic(interp: Interp, r: int, n_origins: int, s_hi: Optional[int] = None, suffix: str = "") -> Encoded:
    cell = generic_cell(r, n_origins, s_hi, suffix)
    return Encoded(r, interp.run_function(SER, "serialize", [cell]))


def valid_s_count(interp: Interp, r: int, n_origins: int) -> Optional[int]:
    """number of curve positions per (face, segment) at resolution r according to get_num_cells"""
    outs = interp.run_function(INFO, "get_num_cells", [Lin(r)])
    if len(outs) != 1 or outs[0].kind != "return" or not (isinstance(outs[0].value, Lin) and outs[0].value.is_const()):
        return None
    n = outs[0].value.const
    if r == 0:
        return 1
    per = n_origins * 5
    if n % per:
        return None
    return n // per


def valid_id(interp: Interp, r: int, n_origins: int, consts: Consts, suffix: str = "") -> Optional[Lin]:
    """id form of the generic VALID cell at resolution r (S restricted to its admissible range),
    or None when serialize does not produce exactly one id form for it."""
    if r < consts.FIRST:
        s_hi: Optional[int] = 0
    else:
        cnt = valid_s_count(interp, r, n_origins)
        if cnt is None:
            return None
        s_hi = cnt - 1
    enc = encode_generic(interp, r, n_origins, s_hi, suffix)
    if enc.raises or enc.good() is None:
        return None
    v = enc.good().value
    return v


def valid_id_from_guard(interp: Interp, r: int, n_origins: int, consts: Consts, suffix: str = "") -> Optional[Lin]:
    """id form of the generic cell that serialize itself accepts at resolution r: S starts unbounded and
    is narrowed by serialize's own fit check (guard refinement).  None if there is not exactly one id form
    or S stays unbounded."""
    enc = encode_generic(interp, r, n_origins, 0 if r < consts.FIRST else None, suffix)
    g = enc.good()
    if g is None:
        return None
    if any(not is_fit_check_raise(o) for o in enc.raises):
        return None
    v = g.value
    if not isinstance(v, Lin) or v.has_opaque():
        return None
    S = sym_in(v, "S" + suffix)
    if S is not None and S.hi is None:
        return None
    return v


def is_fit_check_raise(out: Outcome) -> bool:
    return isinstance(out.value, ExcV) and "negative shift" not in out.value.text and \
        any(t and any(s.name.startswith("S") for s in (c.left - c.right).syms()) for c, t, _ in out.state.path)


def fit_affine(points: List[Tuple[int, int]]) -> Optional[Tuple[int, int]]:
    """(a, b) with y = a*x + b through all points, or None"""
    if len(points) < 2:
        return None
    (x0, y0), (x1, y1) = points[0], points[1]
    if x1 == x0 or (y1 - y0) % (x1 - x0):
        return None
    a = (y1 - y0) // (x1 - x0)
    b = y0 - a * x0
    return (a, b) if all(a * x + b == y for x, y in points) else None


def collision_witness(e: Lin, binders, limit: int = 60000, hints=()) -> Optional[Tuple[Dict[str, int], Dict[str, int], int]]:
    """Two different values of the loop variables (binders: [(Sym, trip count)]) for which the exact element form e
    evaluates to the same integer, at one valuation of the remaining symbols.  Table functions are evaluated through
    their literal tables only (no table -> no witness).  Small domains are enumerated completely; large ones are
    sampled at their ends and at the multiples of the bit positions at which the form slices the variable."""
    if not isinstance(e, Lin) or e.has_opaque():
        return None
    bmap = {b.name: (b, n) for b, n in binders if n > 1}
    if not bmap:
        return None
    cuts: Dict[str, set] = {}

    def collect(l: Lin):
        for at, _ in l.terms:
            if isinstance(at, Slice):
                cuts.setdefault(at.sym.name, set()).add(at.a)
                if at.b is not None:
                    cuts[at.sym.name].add(at.b)
            elif isinstance(at, (ModA, DivA)):
                collect(at.lin)
            elif isinstance(at, Fn):
                for x in at.args:
                    collect(x)
    collect(e)
    for h in hints:       # forms derived from e (its decoded fields) show where e is cut into bit fields
        if isinstance(h, Lin):
            collect(h)
    others = {s.name: s for s in e.syms() if s.name not in bmap}

    def samples(name: str, lo: int, hi: int) -> List[int]:
        if hi - lo < 96:
            return list(range(lo, hi + 1))
        c = {lo, lo + 1, lo + 2, lo + 3, hi, hi - 1, (lo + hi) // 2}
        for a in cuts.get(name, ()):
            for k in range(0, 9):
                for d in (-1, 0, 1):
                    v = (k << a) + d
                    if lo <= v <= hi:
                        c.add(v)
        return sorted(c)
    bdoms = [(nm, samples(nm, 0, n - 1)) for nm, (b, n) in sorted(bmap.items())]
    odoms = []
    for nm, s in sorted(others.items()):
        lo = s.lo if s.lo is not None else 0
        hi = s.hi if s.hi is not None else (1 << 60)
        odoms.append((nm, samples(nm, lo, hi) if hi - lo < 13 else sorted({lo, hi, (lo + hi) // 2})))
    total = 1
    for _, d in bdoms + odoms:
        total *= len(d)
    if total > limit:
        odoms = [(nm, d[:1]) for nm, d in odoms]
        total = 1
        for _, d in bdoms:
            total *= len(d)
        if total > limit:
            return None

    def fnval(atom, args):
        tb = TABLES.get(atom.name)
        if tb is not None and len(args) == 1 and 0 <= args[0] < len(tb):
            return tb[args[0]]
        raise KeyError(atom)
    for ocombo in itertools.product(*[d for _, d in odoms]):
        base = dict(zip([nm for nm, _ in odoms], ocombo))
        seen: Dict[int, Dict[str, int]] = {}
        for bcombo in itertools.product(*[d for _, d in bdoms]):
            bv = dict(zip([nm for nm, _ in bdoms], bcombo))
            try:
                val = eval_lin(e, {**base, **bv}, fnval)
            except KeyError:
                return None
            if val in seen:
                return ({**base, **seen[val]}, {**base, **bv}, val)
            seen[val] = bv
    return None
