"""Abstract interpreter for the integer/bit-twiddling subset of Python used by the id codec,
the hierarchy functions and compact/uncompact (engines E3 + E4 + E5 of DESIGN.md).

* integers are `lin.Lin` forms (exact linear forms over ranged atoms, bit-field aware);
* the *resolution* arguments are concrete in every run (trace partitioning: the rule
  modules run the interpreter once per resolution / resolution pair), everything that
  ranges over an astronomically large set (S, face, segment, list contents) stays symbolic;
* branches whose condition is decided by the forms and ranges are followed one way only;
  a comparison of a bare symbol with a constant splits the symbol's range (guard refinement);
  any other undecided condition forks the path and is recorded in the path condition;
* `for` loops over small concrete sequences are unrolled, loops over large ranges / tables /
  families are summarised with a binder symbol (the body is interpreted once);
* lists are sequences of families  elem(binders) ;  a call of a repository function is
  inlined (the call graph of the analysed modules is acyclic).

No repository code is executed: the interpreter walks the `ast` of the working tree.
"""
from __future__ import annotations

import ast
import copy
import itertools
import re
from dataclasses import dataclass, field
from typing import Any, Callable, Dict, List, Optional, Tuple

from . import core
from .lin import (Atom, DivA, FltDivA, Fn, Lin, OrA, ModA, Opaque, Slice, Sym, band, bor, compare,
                  floordiv, is_pow2, mod, shl, shr)


# ---------------------------------------------------------------------------------
# abstract values
# ---------------------------------------------------------------------------------

class Unknown:
    def __init__(self, why: str):
        self.why = why

    def __repr__(self):
        return f"Unknown({self.why})"


class NoneV:
    _inst = None

    def __new__(cls):
        if cls._inst is None:
            cls._inst = super().__new__(cls)
        return cls._inst

    def __repr__(self):
        return "None"


NONE = NoneV()


@dataclass(frozen=True)
class CondV:
    """an undecided comparison  left op right  (kept as a value, forked on when branched on)"""
    op: str
    left: Lin
    right: Lin

    def __deepcopy__(self, memo):
        return self

    def negate(self) -> "CondV":
        neg = {"==": "!=", "!=": "==", "<": ">=", ">=": "<", ">": "<=", "<=": ">"}[self.op]
        return CondV(neg, self.left, self.right)

    def __repr__(self):
        return f"({self.left} {self.op} {self.right})"


@dataclass(frozen=True)
class StrV:
    text: str = "<str>"


@dataclass(frozen=True)
class FloatV:
    """a float known only as an expression tree (used by cell_area)"""
    expr: Any


@dataclass
class OriginV:
    idx: Lin      # index into the origins table ( == its .id, obligation C05.7)


@dataclass
class TableV:
    name: str
    length: int


@dataclass
class CellV:
    fields: Dict[str, Any]


@dataclass
class TupleV:
    items: List[Any]


@dataclass
class MapV:
    """a dict with concrete keys (memo tables); `name` is set for module-level tables"""
    entries: Dict[Any, Any] = field(default_factory=dict)
    name: Optional[Tuple[str, str]] = None
    unknown: Optional[str] = None
    factory: Optional[str] = None      # collections.defaultdict(list / int / set)


@dataclass
class RangeV:
    lo: Lin
    hi: Lin
    step: int = 1
    count: Optional[int] = None      # number of elements when lo/hi are symbolic but the count is known


@dataclass
class EnumV:
    inner: Any
    start: int = 0


@dataclass
class Seg:
    """a family of list elements: elem(binders) for all binder values, outermost binder first"""
    elem: Any
    binders: Tuple[Tuple[Sym, int], ...] = ()

    def count(self) -> int:
        n = 1
        for _, c in self.binders:
            n *= c
        return n


@dataclass
class ListV:
    segs: List[Seg] = field(default_factory=list)
    unknown: Optional[str] = None       # set when the content can no longer be described
    stores: List[Tuple[Any, Any, tuple]] = field(default_factory=list)   # (index, value, binders) subscript stores
    alloc_len: Optional[Lin] = None     # [x] * n allocation
    alloc_elem: Any = None
    unordered: bool = False             # a set: the elements are known, their iteration order is not

    def length(self) -> Optional[int]:
        if self.unknown:
            return None
        return sum(s.count() for s in self.segs)


@dataclass
class ClosureV:
    """a nested function / lambda together with the frame it was defined in (read access to the enclosing variables)"""
    node: Any                 # ast.FunctionDef | ast.Lambda
    rel: str
    frame: Dict[str, Any]
    raw: bool = False         # the undecorated body of a decorated module-level function (what a decorator receives)

    def __deepcopy__(self, memo):          # the syntax tree is shared: results of calls that forked are remembered by id(node)
        c = ClosureV(self.node, self.rel, {}, self.raw)
        memo[id(self)] = c
        c.frame = copy.deepcopy(self.frame, memo)
        return c


@dataclass
class ClassV:
    """a class defined at module level in the repository (plain classes, @dataclass, NamedTuple)"""
    rel: str
    node: Any                 # ast.ClassDef

    def __deepcopy__(self, memo):          # immutable
        return self


@dataclass
class InstV:
    """an instance of a repository class: its own fields; methods come from the class"""
    cls: ClassV
    fields: Dict[str, Any] = field(default_factory=dict)


@dataclass
class BoundV:
    """a function value with its first argument (self / cls) already supplied"""
    fn: Any                   # ClosureV
    first: Any


@dataclass
class BoundGetV:
    """xs.__getitem__ / d.get / d.__getitem__ taken as a value"""
    obj: Any
    default_none: bool = False


@dataclass
class ItemGetterV:
    """operator.itemgetter(k1, k2, ...) with constant keys"""
    keys: List[Any]


@dataclass
class GenV:
    """a generator object: its first iterable is evaluated when it is created, everything else when it is consumed, and it can be
    consumed once (a second iteration sees nothing)"""
    node: Optional[ast.AST]              # GeneratorExp (None for a materialised generator function result)
    first: Any = None
    rel: str = ""
    items: Any = None                    # ListV for generator functions
    consumed: bool = False


@dataclass
class AllV:
    """conjunction of undecided comparisons (list == list); negated when `neg`"""
    conds: List[Any]
    neg: bool = False


@dataclass
class WindowListV:
    """elements lo..hi-1 of a generic list, as written by a slice: shorter than hi - lo when the list ends before hi"""
    items: List[Any]
    fits: Any            # CondV  hi <= len(list)  (None when the length is unknown)


@dataclass
class GenericList:
    """a list parameter of unknown content; element `at` is a designated generic element"""
    name: str
    at: Optional[Lin] = None
    elem: Any = None
    length: Optional[Lin] = None


@dataclass
class ExcV:
    kind: str
    text: str = ""


@dataclass
class FuncRef:
    module: str
    name: str


# ---------------------------------------------------------------------------------
# state
# ---------------------------------------------------------------------------------

FORKS = [0]            # forks since the last top-level request (reset by Interp.run_function / fresh budgets)
FORK_LIMIT = 300
FORKS_MAX = [0]


def opaque_path(state) -> bool:
    """the state lies on a path whose condition involves a value the interpreter could not model, or that went through a call the
    interpreter did not follow (which may have raised, or changed what follows)"""
    return bool(getattr(state, "unfollowed", None)) or any((c.left.has_opaque() or c.right.has_opaque()) for c, _t, _w in state.path)


def forks_reset() -> None:
    FORKS_MAX[0] = max(FORKS_MAX[0], FORKS[0])
    FORKS[0] = 0


class State:
    def __init__(self):
        self.frames: List[Dict[str, Any]] = [{}]          # call stack of local environments
        self.path: List[Tuple[CondV, bool, str]] = []    # (condition, truth, where)
        self.binders: Tuple[Tuple[Sym, int], ...] = ()    # active summarised loops
        self.notes: List[str] = []
        self.effects: List[Tuple[str, Any]] = []
        self.call_memo: Dict[int, Any] = {}               # results of calls that forked (see with_forks)
        self.yields: List[Any] = []                       # one ListV per generator function being run (what it has yielded so far)
        self.globals: Dict[Tuple[str, str], Any] = {}     # module-level mutable objects touched in this run (shared by all frames)
        self.versions: Dict[str, int] = {}                # how often a name has been assigned on this path (see branch_value)
        self.unfollowed: List[str] = []                   # calls on this path that were not followed: any of them may have raised instead
        self.cm: List[Tuple[int, int]] = []               # generator context managers being run: (key into Interp.cm_table, depth of the generator's frame)
        self.parked: List[Dict[str, Any]] = []            # frames of generator context managers while the body of their `with` runs

    @property
    def env(self) -> Dict[str, Any]:
        return self.frames[-1]

    @env.setter
    def env(self, v: Dict[str, Any]) -> None:
        self.frames[-1] = v

    def fork(self) -> "State":
        FORKS[0] += 1
        if FORKS[0] > FORK_LIMIT:
            raise Budget("path budget exhausted (too many forks in one request)")
        return copy.deepcopy(self)

    def become(self, other: "State") -> None:
        self.__dict__.update(other.__dict__)


@dataclass
class Outcome:
    kind: str          # 'return' | 'raise'
    value: Any
    state: State
    node: Optional[ast.AST] = None


class Budget(Exception):
    pass


# ---------------------------------------------------------------------------------
# substitution (range refinement of a symbol)
# ---------------------------------------------------------------------------------

def subst_lin(x: Lin, old: Sym, new: Sym) -> Lin:
    if not any(s.key == old.key for s in x.syms()):
        return x
    out = Lin(x.const)
    for a, c in x.terms:
        out = out + subst_atom(a, old, new).scale(c)
    return out


def subst_atom(a: Atom, old: Sym, new: Sym) -> Lin:
    if isinstance(a, Sym):
        return Lin.of(new if a.key == old.key else a)
    if isinstance(a, Slice):
        if a.sym.key == old.key and isinstance(new, int):
            v = new >> a.a
            return Lin(v if a.b is None else v & ((1 << (a.b - a.a)) - 1))
        if a.sym.key == old.key:
            w = new.width()
            if a.b is None or (w is not None and a.b >= w):
                return floordiv(Lin.of(new), 1 << a.a) if a.a else Lin.of(new)
            return mod(floordiv(Lin.of(new), 1 << a.a), 1 << (a.b - a.a))
        return Lin.of(a)
    if isinstance(a, ModA):
        return mod(subst_lin(a.lin, old, new), a.m)
    if isinstance(a, DivA):
        return floordiv(subst_lin(a.lin, old, new), a.m)
    if isinstance(a, FltDivA):
        return Lin.of(FltDivA(subst_lin(a.lin, old, new), a.k))
    if isinstance(a, OrA):
        return bor(subst_lin(a.x, old, new), subst_lin(a.y, old, new))[0]
    if isinstance(a, Fn):
        return Lin.of(Fn(a.name, tuple(subst_lin(x, old, new) for x in a.args), a.lo, a.hi))
    return Lin.of(a)


def subst_value(v: Any, old: Sym, new: Sym) -> Any:
    if isinstance(v, Lin):
        return subst_lin(v, old, new)
    if isinstance(v, CondV):
        return CondV(v.op, subst_lin(v.left, old, new), subst_lin(v.right, old, new))
    if isinstance(v, OriginV):
        return OriginV(subst_lin(v.idx, old, new))
    if isinstance(v, CellV):
        return CellV({k: subst_value(x, old, new) for k, x in v.fields.items()})
    if isinstance(v, TupleV):
        return TupleV([subst_value(x, old, new) for x in v.items])
    if isinstance(v, ListV):
        return ListV([Seg(subst_value(s.elem, old, new), s.binders) for s in v.segs], v.unknown,
                     [(subst_value(i, old, new), subst_value(x, old, new), b) for i, x, b in v.stores],
                     subst_value(v.alloc_len, old, new) if v.alloc_len is not None else None, v.alloc_elem)
    if isinstance(v, RangeV):
        return RangeV(subst_lin(v.lo, old, new), subst_lin(v.hi, old, new), v.step, v.count)
    if isinstance(v, GenericList):
        return GenericList(v.name, subst_value(v.at, old, new) if v.at is not None else None,
                           subst_value(v.elem, old, new), subst_value(v.length, old, new) if v.length is not None else None)
    return v


def refine(state: State, old: Sym, new: Sym) -> None:
    memo: Dict[int, Any] = {}
    for fr in state.frames:
        for k in list(fr):
            v = fr[k]
            if isinstance(v, ListV):
                # lists are mutable objects that may be aliased: refine in place
                if id(v) not in memo:
                    nv = subst_value(v, old, new)
                    v.segs, v.stores, v.alloc_len = nv.segs, nv.stores, nv.alloc_len
                    memo[id(v)] = v
                continue
            fr[k] = subst_value(v, old, new)
    state.path = [(subst_value(c, old, new), t, w) for c, t, w in state.path]


# ---------------------------------------------------------------------------------
# the interpreter
# ---------------------------------------------------------------------------------

class Interp:
    """One interpreter instance per rule run.  `modules` maps a module key (relative path) to its
    ast; `origin_model` supplies the facts about the origins table that the codec relies on."""

    MAX_STEPS = 200000
    UNROLL = 16
    set_order: Optional[str] = None      # None: iterating a set of several elements is not modelled; "insertion" / "reversed": assumed order
    set_iterations = 0

    def __init__(self, sources: core.Sources, origin_len: int = 12, fq_range=(0, 4)):
        self.sources = sources
        self.origin_len = origin_len
        self.fq_range = fq_range
        self.steps = 0
        self.total_steps = 0
        self.fresh = itertools.count()
        self.mod_env_cache: Dict[str, Dict[str, Any]] = {}
        self.call_hooks: Dict[str, Callable] = {}
        self.unroll_ranges = 16
        self.map_stores: Dict[Tuple[str, str], Dict[Any, Dict[str, str]]] = {}   # table -> key -> {repr(value): who stored it}
        self.map_values: Dict[Tuple[str, str], Dict[Any, List[Any]]] = {}
        self.saturated = False       # True: a table read may return anything an earlier call could have stored
        self.current_request = ""
        self.trace_calls: List[str] = []

    # -- module environments ------------------------------------------------------
    def module_env(self, rel: str) -> Dict[str, Any]:
        """Module-level names: integer constants (folded), functions, imported names."""
        if rel in self.mod_env_cache:
            return self.mod_env_cache[rel]
        env: Dict[str, Any] = {}
        self.mod_env_cache[rel] = env
        tree = self.sources.tree(rel)
        pkg = rel[:-3].split("/")   # ['a5','core','serialization']
        for n in tree.body:
            if isinstance(n, ast.FunctionDef):
                env[n.name] = FuncRef(rel, n.name)
            elif isinstance(n, ast.ClassDef):
                env[n.name] = ClassV(rel, n)
            elif isinstance(n, ast.ImportFrom):
                target = self._resolve_import(pkg, n.module, n.level)
                if target is not None and not self.sources.has(target) and self.sources.has(target[:-3] + "/__init__.py"):
                    target = target[:-3] + "/__init__.py"          # `from . import NAME` / `from a5.core import NAME`: the package module
                for a in n.names:
                    nm = a.asname or a.name
                    if target is None:
                        if n.level == 0 and n.module in ("math", "operator", "itertools", "functools", "collections"):
                            env[nm] = FuncRef(f"<{n.module}>", a.name)
                        continue
                    if target == "a5/core/origin.py" and a.name == "origins":
                        env[nm] = TableV("origins", self.origin_len)
                    elif target == "a5/core/utils.py" and a.name == "A5Cell":
                        env[nm] = FuncRef("<builtin>", "A5Cell")
                    elif self.sources.has(target):
                        sub = self.module_env(target)
                        if a.name in sub:
                            env[nm] = sub[a.name]
            elif isinstance(n, ast.Import):
                for a in n.names:
                    if a.name in ("math", "operator", "itertools", "functools", "collections"):
                        env[a.asname or a.name] = FuncRef("<module>", a.name)
            elif isinstance(n, (ast.Assign, ast.AnnAssign)):
                tgt = n.targets[0] if isinstance(n, ast.Assign) else n.target
                if isinstance(tgt, ast.Name) and n.value is not None:
                    st = State()
                    st.env = dict(env)
                    # a table built once at import from a small range is followed element by element
                    saved_u, saved_U = self.unroll_ranges, self.UNROLL
                    self.unroll_ranges = self.UNROLL = 64
                    saved_max = self.MAX_STEPS
                    self.MAX_STEPS = min(saved_max, self.steps + 1500)     # a module-level value that takes long to build is not followed
                    try:
                        v = self.eval(n.value, st, rel)
                    except _Raise:
                        v = Unknown("module constant raises")
                    except (_Fork, Budget, _Unmodelled, RecursionError):
                        v = Unknown("module-level value not modelled")
                    finally:
                        self.unroll_ranges, self.UNROLL = saved_u, saved_U
                        self.MAX_STEPS = saved_max
                    if isinstance(v, FloatV):
                        v = FloatV(("name", f"{rel}:{tgt.id}", v.expr))
                    env[tgt.id] = v
        # anything else that happens at module level after a name was bound (NAME |= .., NAME.append(..), loops, ifs, del ...):
        # follow augmented assignments of integers, forget the names touched by statements that are not followed
        # (second pass in source order: `env` above holds the value of the LAST plain assignment of each name)
        seen_assign: Dict[str, int] = {}
        for n in tree.body:
            if isinstance(n, (ast.Assign, ast.AnnAssign)):
                tg = n.targets[0] if isinstance(n, ast.Assign) else n.target
                if isinstance(tg, ast.Name):
                    seen_assign[tg.id] = seen_assign.get(tg.id, 0) + 1
        later_plain = dict(seen_assign)
        for n in tree.body:
            if isinstance(n, (ast.Assign, ast.AnnAssign)):
                tg = n.targets[0] if isinstance(n, ast.Assign) else n.target
                if isinstance(tg, ast.Name):
                    later_plain[tg.id] -= 1
                elif isinstance(tg, (ast.Subscript, ast.Attribute)) or isinstance(tg, (ast.Tuple, ast.List)):
                    for x in ast.walk(tg):
                        if isinstance(x, ast.Name) and x.id in env and not isinstance(env[x.id], (FuncRef, ClassV)):
                            env[x.id] = Unknown(f"module-level value {x.id} modified by `{core.src(n)[:40]}`")
                continue
            if isinstance(n, (ast.FunctionDef, ast.ClassDef, ast.Import, ast.ImportFrom, ast.Pass, ast.Global)):
                continue
            if isinstance(n, ast.Expr) and isinstance(n.value, ast.Constant):
                continue
            if isinstance(n, ast.AugAssign) and isinstance(n.target, ast.Name) and n.target.id in env and later_plain.get(n.target.id, 0) == 0:
                cur = env[n.target.id]
                st = State()
                st.env = dict(env)
                try:
                    rv = self.eval(n.value, st, rel)
                    env[n.target.id] = self.binop(n.op, cur, rv, st, n) if isinstance(cur, Lin) and isinstance(rv, Lin) else \
                        Unknown(f"module-level value {n.target.id} updated by `{core.src(n)[:40]}`")
                except (_Raise, _Fork, Budget, _Unmodelled, RecursionError):
                    env[n.target.id] = Unknown(f"module-level value {n.target.id} updated by `{core.src(n)[:40]}`")
                continue
            # any other statement: every module-level name it stores to, deletes, or calls a method on is no longer known
            touched = set()
            for x in ast.walk(n):
                if isinstance(x, ast.Name) and isinstance(x.ctx, (ast.Store, ast.Del)):
                    touched.add(x.id)
                if isinstance(x, ast.Call) and isinstance(x.func, ast.Attribute) and isinstance(x.func.value, ast.Name):
                    touched.add(x.func.value.id)
                if isinstance(x, (ast.Subscript, ast.Attribute)) and isinstance(x.ctx, (ast.Store, ast.Del)):
                    for y in ast.walk(x):
                        if isinstance(y, ast.Name):
                            touched.add(y.id)
            for nm in touched:
                if nm in env and not isinstance(env[nm], (FuncRef, ClassV)) and not (isinstance(env[nm], FuncRef)):
                    env[nm] = Unknown(f"module-level value {nm} modified by a statement that is not followed (`{core.src(n)[:40]}`)")
        for n in ast.walk(tree):
            if isinstance(n, ast.FunctionDef):
                gl = {nm for g in ast.walk(n) if isinstance(g, ast.Global) for nm in g.names}
                if not gl:
                    continue
                for x in ast.walk(n):
                    if isinstance(x, ast.Name) and isinstance(x.ctx, (ast.Store, ast.Del)) and x.id in gl and x.id in env \
                            and not isinstance(env[x.id], (FuncRef, ClassV, Unknown)):
                        env[x.id] = Unknown(f"module-level variable {x.id} is re-bound by {n.name}(): its value when a call reads it depends on the calls made before")
        if rel == "a5/core/origin.py" and "origins" in env:
            env["origins"] = TableV("origins", self.origin_len)      # the face table as every other module sees it
        return env

    @staticmethod
    def _resolve_import(pkg: List[str], module: Optional[str], level: int) -> Optional[str]:
        if level == 0:
            if module is None or not module.startswith("a5"):
                return None
            parts = module.split(".")
        else:
            base = pkg[:-level]
            parts = base + (module.split(".") if module else [])
        return "/".join(parts) + ".py"

    # -- running a function -------------------------------------------------------
    def run_function(self, rel: str, name: str, args: List[Any], state: Optional[State] = None,
                     kwargs: Optional[Dict[str, Any]] = None) -> List[Outcome]:
        """Interprets function `name` of module `rel` on abstract arguments; returns every outcome
        (return / raise) with the state (path condition, effects) in which it happens."""
        where = self.sources.locate(rel, name)
        if where is not None and where[0] != rel:
            rel, name = where           # re-exported: interpret the definition in the module it lives in
        fn = self.sources.func(rel, name)
        return self.run_node(fn, rel, name, args, state, kwargs, None)

    def run_node(self, fn: Any, rel: str, name: str, args: List[Any], state: Optional[State], kwargs: Optional[Dict[str, Any]],
                 outer: Optional[Dict[str, Any]], raw: bool = False) -> List[Outcome]:
        if not raw and not isinstance(fn, ast.Lambda) and core.opaque_decorators(fn):
            wrapped = self.decorated_value(fn, rel, name, outer)      # _Unmodelled when the decorators cannot be followed
            if state is None:
                self.total_steps += self.steps
                self.steps = 0
                FORKS_MAX[0] = max(FORKS_MAX[0], FORKS[0])
                FORKS[0] = 0
                state = State()
            return self.run_node(wrapped.node, wrapped.rel, getattr(wrapped.node, "name", name), args, state, kwargs, dict(wrapped.frame), wrapped.raw)
        if state is None:
            # top-level request of a rule module: fresh budget
            self.total_steps += self.steps
            self.steps = 0
            FORKS_MAX[0] = max(FORKS_MAX[0], FORKS[0])
            FORKS[0] = 0
        st = State() if state is None else state
        env = dict(self.module_env(rel))
        for k, v in list(env.items()):
            if isinstance(v, (CellV, ListV, MapV, InstV)):
                # a module-level mutable object: one instance per abstract run, visible to every frame
                key = (rel, k)
                if key not in st.globals:
                    st.globals[key] = copy.deepcopy(v)
                    if isinstance(v, MapV):
                        st.globals[key].name = key
                env[k] = st.globals[key]
        if outer is not None:
            env.update(outer)          # variables of the enclosing function, as they are now
        params = fn.args.posonlyargs + fn.args.args + fn.args.kwonlyargs
        if any(isinstance(n_, ast.Nonlocal) for n_ in ast.walk(fn)):
            raise _Unmodelled(f"function {name} with nonlocal at {core.loc(rel, fn)}")
        kw_defaults = {a.arg: d for a, d in zip(fn.args.kwonlyargs, fn.args.kw_defaults) if d is not None}
        n_pos = len(fn.args.posonlyargs) + len(fn.args.args)
        defaults = fn.args.defaults
        nd = len(defaults)
        kwargs = kwargs or {}
        names_ = {p.arg for p in params}
        if len(args) > n_pos:
            if not fn.args.vararg:
                raise _Raise(ExcV("TypeError", f"{name}() takes {n_pos} positional arguments but {len(args)} were given"), st)
            env[fn.args.vararg.arg] = TupleV(list(args[n_pos:]))
        elif fn.args.vararg:
            env[fn.args.vararg.arg] = TupleV([])
        extra_kw = {k: v for k, v in kwargs.items() if k not in names_ or k in {p.arg for p in fn.args.posonlyargs}}
        if extra_kw:
            if not fn.args.kwarg:
                raise _Raise(ExcV("TypeError", f"{name}() got an unexpected keyword argument '{sorted(extra_kw)[0]}'"), st)
            env[fn.args.kwarg.arg] = MapV(dict(extra_kw))
        elif fn.args.kwarg:
            env[fn.args.kwarg.arg] = MapV({})
        for i, p in enumerate(params):
            if i < len(args) and i < n_pos and p.arg in kwargs and p.arg not in extra_kw:
                raise _Raise(ExcV("TypeError", f"{name}() got multiple values for argument '{p.arg}'"), st)
        for i, p in enumerate(params):
            if i < len(args) and i < n_pos:
                env[p.arg] = args[i]
            elif p.arg in kwargs:
                env[p.arg] = kwargs[p.arg]
            else:
                if i >= n_pos:
                    dnode = kw_defaults.get(p.arg)
                else:
                    di = i - (n_pos - nd)
                    dnode = defaults[di] if di >= 0 else None
                if dnode is None:
                    raise _Unmodelled(f"call of {name} misses argument {p.arg}")
                dst = State()
                dst.env = dict(self.module_env(rel))
                env[p.arg] = self.eval(dnode, dst, rel)
        gl_ = {nm for n_ in ast.walk(fn) if isinstance(n_, ast.Global) for nm in n_.names} if not isinstance(fn, ast.Lambda) else set()
        if gl_:
            env["<globals>"] = frozenset(gl_)
        st.frames.append(env)
        depth = len(st.frames)
        if depth > 12:
            raise Budget("call depth")
        outs: List[Outcome] = []
        if isinstance(fn, ast.Lambda):
            body_outs = self.with_forks(lambda s_: [(s_, ("return", self.eval(fn.body, s_, rel), fn))], st)
        else:
            body_outs = self.exec_block(fn.body, st, rel)
        for s2, sig in body_outs:
            if sig is None:
                outs.append(Outcome("return", NONE, s2, fn))
            elif sig[0] == "return":
                outs.append(Outcome("return", sig[1], s2, sig[2]))
            elif sig[0] == "raise":
                outs.append(Outcome("raise", sig[1], s2, sig[2]))
            elif sig[0] == "cmexit":
                outs.append(Outcome("cmexit", sig[1], s2, fn))
            else:
                outs.append(Outcome("return", Unknown(f"stray {sig[0]}"), s2, fn))
        for o in outs:
            del o.state.frames[depth - 1:]
        return outs

    def decorated_value(self, fn: ast.FunctionDef, rel: str, name: str, outer: Optional[Dict[str, Any]]) -> "ClosureV":
        """What the name of a decorated function is bound to: the decorators (functions of the repository) are applied, innermost
        first, to the undecorated body as they are at import time -- in a state of their own --, and the nested function the last
        one returns is what a call runs.  Anything else (a decorator that is not a function of the repository, one that forks or
        raises, a result that is not a function) is a give-up: the caller's obligation stays undecided."""
        key = (rel, id(fn))
        cache = self.__dict__.setdefault("_deco_cache", {})
        if key in cache:
            if cache[key] is None:
                raise _Unmodelled(f"function {name} at {core.loc(rel, fn)} is wrapped by a decorator that is not followed")
            return cache[key]
        cache[key] = None
        cur: Any = ClosureV(fn, rel, dict(outer or {}), raw=True)
        dst = State()
        dst.env = dict(self.module_env(rel))
        if outer:
            dst.env.update(outer)
        saved_steps = self.steps
        try:
            for d in reversed(fn.decorator_list):
                e_ = d.func if isinstance(d, ast.Call) else d
                text = core.src(e_)
                if text in core.BENIGN_DECORATORS or text.split(".")[-1] in ("setter", "getter", "deleter"):
                    if text.split(".")[-1] in ("lru_cache", "cache"):
                        continue          # same values; the shared store is the business of C16 / C17
                    if text.split(".")[-1] in ("wraps", "overload", "final", "no_type_check", "abstractmethod", "staticmethod"):
                        continue
                    raise _Unmodelled(f"function {name} under @{text} together with other decorators at {core.loc(rel, fn)}")
                dv = self.eval(d, dst, rel)                     # @deco -> the function; @deco(..) -> what the call returns
                call_node = ast.copy_location(ast.Call(func=e_, args=[], keywords=[]), d)
                if isinstance(dv, FuncRef) and not dv.module.startswith("<"):
                    cur = self.call_ref(dv, [cur], {}, dst, call_node, rel)
                elif isinstance(dv, ClosureV):
                    cur = self.call_closure(dv, [cur], {}, dst, call_node)
                else:
                    raise _Unmodelled(f"decorator @{core.src(d)[:60]} of {name} at {core.loc(rel, fn)} is not a function of the repository")
                if isinstance(cur, FuncRef) and not cur.module.startswith("<"):
                    tgt = self.sources.func(cur.module, cur.name)
                    cur = ClosureV(tgt, cur.module, {}, raw=False)
                if not isinstance(cur, ClosureV):
                    raise _Unmodelled(f"decorator @{core.src(d)[:60]} of {name} at {core.loc(rel, fn)} does not return a function the analysis can follow")
        except (_Fork, _Raise) as e:
            raise _Unmodelled(f"applying the decorators of {name} at {core.loc(rel, fn)} has several outcomes or raises ({type(e).__name__})")
        finally:
            self.steps = saved_steps
        cache[key] = cur
        self.__dict__.setdefault("decorators_followed", set()).add(f"{rel}:{name}")
        return cur

    # -- statements ---------------------------------------------------------------
    def tick(self):
        self.steps += 1
        if self.steps > self.MAX_STEPS:
            raise Budget("interpretation budget exhausted")

    def exec_block(self, stmts: List[ast.stmt], state: State, rel: str):
        """-> list of (state, signal); signal None = fell through"""
        cur: List[State] = [state]
        done: List[Tuple[State, Any]] = []
        for st in stmts:
            nxt: List[State] = []
            for s in cur:
                for s2, sig in self.exec_stmt(st, s, rel):
                    if sig is None:
                        nxt.append(s2)
                    else:
                        done.append((s2, sig))
            cur = nxt
            if not cur:
                break
        return [(s, None) for s in cur] + done

    def with_forks(self, fn: Callable[[State], list], state: State) -> list:
        """Runs fn(state).  When a call inside forks into several outcomes (the callee has more than
        one feasible path), fn is re-run once per outcome on that outcome's state, with the call's
        result memoised there, so that the rest of the statement sees one outcome at a time."""
        try:
            return fn(state)
        except _Fork as f:
            res = []
            for s_i, node, v in f.alternatives:
                s_i.call_memo[id(node)] = v
                res.extend(self.with_forks(fn, s_i))
            return res

    def exec_stmt(self, st: ast.stmt, state: State, rel: str):
        self.tick()

        def run(s: State):
            try:
                return self._exec_stmt(st, s, rel)
            except _Raise as r:
                return [(r.state or s, ("raise", r.exc, st))]
        return self.with_forks(run, state)

    def _exec_stmt(self, st: ast.stmt, state: State, rel: str):
        if isinstance(st, ast.Expr):
            if isinstance(st.value, ast.Constant):
                return [(state, None)]
            if isinstance(st.value, ast.Yield) and state.cm and state.cm[-1][1] == len(state.frames):
                return self._cm_yield(st, state, rel)
            if isinstance(st.value, ast.Yield) and state.yields:
                v = self.eval(st.value.value, state, rel) if st.value.value is not None else NONE
                state.yields[-1].segs.append(Seg(v, state.binders))
                return [(state, None)]
            self.eval(st.value, state, rel)
            return [(state, None)]
        if isinstance(st, ast.Pass):
            return [(state, None)]
        if isinstance(st, (ast.Assign, ast.AnnAssign)):
            if isinstance(st, ast.AnnAssign) and st.value is None:
                return [(state, None)]
            targets = st.targets if isinstance(st, ast.Assign) else [st.target]
            v = self.eval(st.value, state, rel)
            for t in targets:
                self.assign(t, v, state, rel)
            return [(state, None)]
        if isinstance(st, ast.AugAssign):
            r = self.eval(st.value, state, rel)
            cur = self.eval(self._load_of(st.target), state, rel)
            v = self.binop(st.op, cur, r, state, st)
            self.assign(st.target, v, state, rel)
            return [(state, None)]
        if isinstance(st, ast.Return):
            if st.value is None:
                return [(state, ("return", NONE, st))]
            return [(state, ("return", self.eval(st.value, state, rel), st))]
        if isinstance(st, ast.Raise):
            exc = ExcV("Exception")
            if st.exc is not None:
                if isinstance(st.exc, ast.Call) and isinstance(st.exc.func, ast.Name):
                    exc = ExcV(st.exc.func.id, core.src(st.exc))
                elif isinstance(st.exc, ast.Name):
                    exc = ExcV(st.exc.id)
            return [(state, ("raise", exc, st))]
        if isinstance(st, ast.If):
            out = []
            for truth, s in self.branch(st.test, state, rel):
                out.extend(self.exec_block(st.body if truth else st.orelse, s, rel))
            return out
        if isinstance(st, ast.While):
            return self.exec_while(st, state, rel)
        if isinstance(st, ast.For):
            return self.exec_for(st, state, rel)
        if isinstance(st, ast.Try):
            return self.exec_try(st, state, rel)
        if isinstance(st, ast.With):
            return self.exec_with(st.items, st.body, state, rel, st)
        if isinstance(st, ast.FunctionDef) and not core.opaque_decorators(st) and not any(
                core.src(d.func if isinstance(d, ast.Call) else d).split(".")[-1] in ("lru_cache", "cache", "property", "staticmethod", "classmethod")
                for d in st.decorator_list):
            # a nested function, possibly under @functools.wraps(f) (which copies the name and the docstring, nothing else)
            state.env[st.name] = ClosureV(st, rel, state.env, raw=True)
            return [(state, None)]
        if isinstance(st, ast.Break):
            return [(state, ("break",))]
        if isinstance(st, ast.Continue):
            return [(state, ("continue",))]
        if isinstance(st, ast.Global):
            return [(state, None)]
        if isinstance(st, ast.Delete):
            for t in st.targets:
                self.delete(t, state, rel)
            return [(state, None)]
        state.notes.append(f"statement {type(st).__name__} not modelled at {core.loc(rel, st)}")
        raise _Unmodelled(f"statement {type(st).__name__} at {core.loc(rel, st)}")

    @staticmethod
    def _load_of(t: ast.expr) -> ast.expr:
        t2 = copy.copy(t)
        t2.ctx = ast.Load()
        return t2

    def assign(self, target: ast.expr, v: Any, state: State, rel: str) -> None:
        if isinstance(target, ast.Name) and target.id in state.env.get("<globals>", ()):
            # `global X` + `X = ...`: the function re-binds a module-level variable.  What other functions read there afterwards
            # (and what an exception on the way leaves behind) is not modelled: a give-up, never a silently local variable
            raise _Unmodelled(f"assignment to the module-level variable {target.id} (declared global) at {core.loc(rel, target)}")
        if isinstance(target, ast.Name):
            state.env[target.id] = v
            state.versions[target.id] = state.versions.get(target.id, 0) + 1
            return
        if isinstance(target, (ast.Tuple, ast.List)):
            items = None
            if isinstance(v, GenV):
                v = self.materialise(v, state)      # unpacking consumes the generator
            if isinstance(v, TupleV):
                items = v.items
            elif isinstance(v, ListV) and not v.unknown and all(not s.binders for s in v.segs):
                items = [s.elem for s in v.segs]
            if items is None or len(items) != len(target.elts):
                for e in target.elts:
                    self.assign(e, Unknown("unpacking of unmodelled value"), state, rel)
                return
            for e, x in zip(target.elts, items):
                self.assign(e, x, state, rel)
            return
        if isinstance(target, ast.Subscript) and isinstance(target.slice, ast.Slice):
            base = self.eval(target.value, state, rel)
            sl = target.slice
            lo_ = self.eval(sl.lower, state, rel) if sl.lower is not None else Lin(0)
            hi_ = self.eval(sl.upper, state, rel) if sl.upper is not None else None
            if isinstance(v, GenV):
                v = self.materialise(v, state)
            vals = self.plain_items(v)
            if isinstance(base, ListV) and sl.step is None and isinstance(lo_, Lin) and isinstance(hi_, Lin) and lo_.is_const() and hi_.is_const() \
                    and vals is not None and 0 <= lo_.const <= hi_.const and len(vals) == hi_.const - lo_.const and not state.binders \
                    and ((base.alloc_len is not None and base.alloc_len.is_const() and hi_.const <= base.alloc_len.const) or
                         (base.alloc_len is None and self.plain_items(base) is not None and hi_.const <= len(base.segs))):
                # same length on both sides, inside the list: element-wise stores
                for j_, x_ in enumerate(vals):
                    if base.alloc_len is not None:
                        base.stores.append((Lin(lo_.const + j_), x_, ()))
                    else:
                        base.segs[lo_.const + j_] = Seg(x_)
                return
            if isinstance(base, ListV):
                base.unknown = "slice store that is not followed element by element"
                state.effects.append(("store-unmodelled", (core.src(target), v)))
                return
            if isinstance(base, (GenericList, TableV)):
                state.effects.append(("mutates-input", core.src(target)))
            state.effects.append(("store-unmodelled", (core.src(target), v)))
            return
        if isinstance(target, ast.Subscript):
            base = self.eval(target.value, state, rel)
            idx = self.eval(target.slice, state, rel)
            if isinstance(base, ListV):
                state.effects.append(("store", (base, idx, v, state.binders)))
                if base.alloc_len is None and not base.stores and not base.unknown and not state.binders and isinstance(idx, Lin) \
                        and idx.is_const() and all(not sg.binders for sg in base.segs):
                    if -len(base.segs) <= idx.const < len(base.segs):
                        base.segs[idx.const] = Seg(v)
                        return
                    raise _Raise(ExcV("IndexError", "list assignment index out of range"), state)
                base.stores.append((idx, v, state.binders))
                return
            if isinstance(base, MapV):
                key = self.key_for(base, idx)
                if key is _MISSING:
                    base.unknown = "written with a symbolic key"
                else:
                    base.entries[key] = v
                    self._record_store(base, key, v)
                return
            if isinstance(base, CellV):
                if isinstance(idx, StrV):
                    base.fields[idx.text] = v
                    if state.binders:
                        # valid for the rest of this (generic) iteration; after the loop it is the last iteration's value
                        state.effects.append(("cell-store-in-loop", (base, idx.text, len(state.binders))))
                else:
                    for k in list(base.fields):
                        base.fields[k] = Unknown("dictionary written with a computed key")
                return
            state.effects.append(("store-unmodelled", (core.src(target), v)))
            if isinstance(base, (GenericList, TableV)):
                state.effects.append(("mutates-input", core.src(target)))
            return
        if isinstance(target, ast.Attribute):
            base = self.eval(target.value, state, rel)
            if isinstance(base, InstV):
                base.fields[target.attr] = v
                return
        state.effects.append(("assign-unmodelled", core.src(target)))

    def delete(self, t: ast.expr, state: State, rel: str) -> None:
        if isinstance(t, ast.Name):
            state.env.pop(t.id, None)
            return
        if isinstance(t, ast.Subscript):
            base = self.eval(t.value, state, rel)
            if isinstance(base, (GenericList, TableV)):
                state.effects.append(("mutates-input", core.src(t)))
                return
            if isinstance(base, MapV):
                key = self.key_for(base, self.eval(t.slice, state, rel))
                if key is _MISSING or base.unknown:
                    base.unknown = base.unknown or "entry deleted under a symbolic key"
                elif key in base.entries:
                    del base.entries[key]
                else:
                    raise _Raise(ExcV("KeyError", repr(key)), state)
                return
            if isinstance(base, ListV):
                state.effects.append(("store", (base, None, None, state.binders)))
                items = self.plain_items(base) if not base.unordered else None
                if items is None or state.binders:
                    base.unknown = base.unknown or "deletion from a list that is not known element by element"
                    return
                n = len(items)
                if isinstance(t.slice, ast.Slice):
                    def bnd(x):
                        if x is None:
                            return None
                        v = self.eval(x, state, rel)
                        return v.const if isinstance(v, Lin) and v.is_const() else _MISSING
                    lo, hi, stp = bnd(t.slice.lower), bnd(t.slice.upper), bnd(t.slice.step)
                    if _MISSING in (lo, hi, stp):
                        base.unknown = "deletion of a slice with bounds that are not constants"
                        return
                    keep = [i for i in range(n) if i not in set(range(n)[slice(lo, hi, stp)])]
                else:
                    idx = self.eval(t.slice, state, rel)
                    if not (isinstance(idx, Lin) and idx.is_const()):
                        base.unknown = "deletion at a position that is not a constant"
                        return
                    if not (-n <= idx.const < n):
                        raise _Raise(ExcV("IndexError", "list assignment index out of range"), state)
                    k = idx.const % n
                    keep = [i for i in range(n) if i != k]
                base.segs[:] = [Seg(items[i]) for i in keep]
                base.stores.clear()
                base.alloc_len = None
                return
        raise _Unmodelled(f"del {core.src(t)} at {core.loc(rel, t)}")

    # -- try / except ---------------------------------------------------------------
    _EXC_PARENTS = {"KeyError": "LookupError", "IndexError": "LookupError", "ZeroDivisionError": "ArithmeticError", "OverflowError": "ArithmeticError",
                    "UnicodeError": "ValueError", "FloatingPointError": "ArithmeticError"}

    def _handler_matches(self, h: ast.ExceptHandler, exc: Any) -> Optional[bool]:
        """True / False, or None when the analysis cannot tell which exception classes the handler names"""
        if h.type is None:
            return True
        names = []
        for t in (h.type.elts if isinstance(h.type, ast.Tuple) else [h.type]):
            if not isinstance(t, ast.Name):
                return None
            names.append(t.id)
        kind = exc.kind if isinstance(exc, ExcV) else "Exception"
        chain = [kind]
        while chain[-1] in self._EXC_PARENTS:
            chain.append(self._EXC_PARENTS[chain[-1]])
        chain += ["Exception", "BaseException"]
        if any(n in chain for n in names):
            return True
        known = {"ValueError", "TypeError", "KeyError", "IndexError", "LookupError", "ZeroDivisionError", "ArithmeticError", "OverflowError",
                 "AttributeError", "RuntimeError", "StopIteration", "AssertionError", "NotImplementedError", "RecursionError", "Exception", "BaseException"}
        return False if all(n in known for n in names) and kind in known else None

    def exec_try(self, st: ast.Try, state: State, rel: str):
        outs = []
        for s2, sig in self.exec_block(st.body, state, rel):
            if sig is not None and sig[0] == "raise":
                handled = False
                for h in st.handlers:
                    m = self._handler_matches(h, sig[1])
                    if m is None:
                        raise _Unmodelled(f"except clause `{core.src(h.type)}` at {core.loc(rel, h)}")
                    if m:
                        if h.name:
                            s2.env[h.name] = sig[1]
                        outs.extend(self.exec_block(h.body, s2, rel))
                        handled = True
                        break
                if not handled:
                    outs.append((s2, sig))
            elif sig is None and st.orelse:
                outs.extend(self.exec_block(st.orelse, s2, rel))
            else:
                outs.append((s2, sig))
        if not st.finalbody:
            return outs
        final = []
        for s2, sig in outs:
            for s3, sig3 in self.exec_block(st.finalbody, s2, rel):
                final.append((s3, sig3 if sig3 is not None else sig))
        return final

    # -- with ------------------------------------------------------------------------
    def _is_lock(self, e: ast.expr, state: State, rel: str) -> bool:
        """`with NAME:` where NAME is bound once, at module level, to threading.Lock() / RLock(): transparent for one thread"""
        if not isinstance(e, ast.Name):
            return False
        try:
            tree = self.sources.tree(rel)
        except core.AnalysisError:
            return False
        hits = [n for n in tree.body if isinstance(n, (ast.Assign, ast.AnnAssign))
                and any(isinstance(t, ast.Name) and t.id == e.id for t in (n.targets if isinstance(n, ast.Assign) else [n.target]))]
        if len(hits) != 1 or hits[0].value is None or not isinstance(hits[0].value, ast.Call) or hits[0].value.args or hits[0].value.keywords:
            return False
        if any(isinstance(n, ast.Global) and e.id in n.names for n in ast.walk(tree)):
            return False
        return core.src(hits[0].value.func) in ("threading.Lock", "threading.RLock", "Lock", "RLock", "_threading.Lock", "_threading.RLock")

    def exec_with(self, items, body, state: State, rel: str, node: ast.AST):
        if len(items) > 1:
            inner = ast.copy_location(ast.With(items=items[1:], body=body), node)
            cache = self.__dict__.setdefault("_with_split", {})
            inner = cache.setdefault((id(node), len(items)), inner)
            return self.exec_with(items[:1], [inner], state, rel, node)
        item = items[0]
        ce = item.context_expr
        if self._is_lock(ce, state, rel) and item.optional_vars is None:
            return self.exec_block(body, state, rel)
        # a generator function under @contextmanager
        if isinstance(ce, ast.Call):
            fv = self.eval(ce.func, state, rel)
            if isinstance(fv, FuncRef) and not fv.module.startswith("<"):
                try:
                    fnode = self.sources.func(fv.module, fv.name)
                except Exception:
                    fnode = None
                decos = [core.src(d.func if isinstance(d, ast.Call) else d).split(".")[-1] for d in (fnode.decorator_list if fnode is not None else [])]
                if fnode is not None and decos == ["contextmanager"]:
                    args = []
                    for a in ce.args:
                        if isinstance(a, ast.Starred):
                            raise _Unmodelled(f"with-statement: *args at {core.loc(rel, ce)}")
                        args.append(self.eval(a, state, rel))
                    kwargs = {}
                    for k in ce.keywords:
                        if k.arg is None:
                            raise _Unmodelled(f"with-statement: **kwargs at {core.loc(rel, ce)}")
                        kwargs[k.arg] = self.eval(k.value, state, rel)
                    table = self.__dict__.setdefault("cm_table", {})
                    key = id(node) * 4 + len(items)
                    table[key] = (body, item.optional_vars, rel, {"entered": 0})
                    state.cm.append((key, len(state.frames) + 1))
                    n_cm = len(state.cm)
                    outs = self.run_node(fnode, fv.module, fv.name, args, state, kwargs, None, True)
                    res = []
                    for o in outs:
                        s2 = o.state
                        if len(s2.cm) >= n_cm and s2.cm[n_cm - 1][0] == key:
                            # the generator ended (returned or raised) without reaching its yield on this path
                            del s2.cm[n_cm - 1:]
                            if o.kind == "raise":
                                res.append((s2, ("raise", o.value, node)))
                                continue
                            raise _Unmodelled(f"context manager {fv.name} does not yield on some path ({core.loc(rel, node)})")
                        if o.kind == "raise":
                            res.append((s2, ("raise", o.value, node)))
                        elif o.kind == "cmexit":
                            res.append((s2, o.value))
                        else:
                            res.append((s2, None))
                    return res
        cm = self.eval(ce, state, rel)
        if isinstance(cm, InstV):
            ent, ext = self.class_member(cm.cls, "__enter__"), self.class_member(cm.cls, "__exit__")
            if isinstance(ent, ast.FunctionDef) and isinstance(ext, ast.FunctionDef) and not ent.decorator_list and not ext.decorator_list:
                res = []
                for o in self.run_node(ent, cm.cls.rel, "__enter__", [cm], state, {}, {}):
                    if o.kind == "raise":
                        res.append((o.state, ("raise", o.value, node)))
                        continue
                    s1 = o.state
                    if item.optional_vars is not None:
                        self.assign(item.optional_vars, o.value, s1, rel)
                    hidden = f"<cm {id(node)}>"
                    s1.env[hidden] = cm            # (a fork copies the state: the object is found again through the frame)
                    for s2, sig in self.exec_block(body, s1, rel):
                        inst2 = s2.env.pop(hidden, None)
                        if inst2 is None:
                            raise _Unmodelled(f"with-statement: the context manager object is lost after a fork ({core.loc(rel, node)})")
                        if sig is not None and sig[0] == "raise":
                            exc = sig[1]
                            xa = [inst2, StrV(getattr(exc, "name", "Exception")) if not isinstance(exc, Unknown) else exc, exc, Unknown("traceback")]
                            for o2 in self.run_node(ext, cm.cls.rel, "__exit__", xa, s2, {}, {}):
                                if o2.kind == "raise":
                                    res.append((o2.state, ("raise", o2.value, node)))
                                    continue
                                for truth, s3 in self.branch_value(o2.value, o2.state, core.loc(rel, node), "__exit__ result"):
                                    res.append((s3, None if truth else sig))
                        else:
                            for o2 in self.run_node(ext, cm.cls.rel, "__exit__", [inst2, NONE, NONE, NONE], s2, {}, {}):
                                if o2.kind == "raise":
                                    res.append((o2.state, ("raise", o2.value, node)))
                                else:
                                    res.append((o2.state, sig))
                return res
        raise _Unmodelled(f"with-statement over `{core.src(ce)[:50]}` at {core.loc(rel, node)}")

    def _cm_yield(self, st: ast.Expr, state: State, rel: str):
        """the `yield` of a generator context manager: the body of the with-statement runs here, in the frame of the function that
        contains the with-statement; an exception it raises is raised at the yield (so the generator's own try / except / finally
        see it), a return / break / continue passes through the generator's finally clauses and leaves the with-statement"""
        key, depth = state.cm.pop()
        body, target, brel, info = self.cm_table[key]
        v = self.eval(st.value.value, state, rel) if st.value.value is not None else NONE
        if len(state.frames) != depth:
            raise _Unmodelled("context manager: yield outside the generator's own frame")
        state.parked.append(state.frames.pop())
        if target is not None:
            self.assign(target, v, state, brel)
        out = []
        for s2, sig in self.exec_block(body, state, brel):
            s2.frames.append(s2.parked.pop())
            if sig is None:
                out.append((s2, None))
            elif sig[0] == "raise":
                out.append((s2, sig))
            else:
                out.append((s2, ("cmexit", sig)))
        return out

    # -- loops ----------------------------------------------------------------------
    def exec_while(self, st: ast.While, state: State, rel: str):
        results = []
        work = [state]
        iters = 0
        while work:
            iters += 1
            if iters > 4096:
                raise Budget(f"while loop at {core.loc(rel, st)} not bounded by the analysis")
            s = work.pop()
            try:
                alts = self.with_forks(lambda ss: self.branch(st.test, ss, rel), s)
            except _Raise as r:
                results.append((r.state or s, ("raise", r.exc, st)))
                continue
            for truth, s2 in alts:
                if not truth:
                    results.extend(self.exec_block(st.orelse, s2, rel) if st.orelse else [(s2, None)])
                    continue
                for s3, sig in self.exec_block(st.body, s2, rel):
                    if sig is None or sig[0] == "continue":
                        work.append(s3)
                    elif sig[0] == "break":
                        results.append((s3, None))
                    else:
                        results.append((s3, sig))
        return results

    def exec_for(self, st: ast.For, state: State, rel: str):
        it = self.eval(st.iter, state, rel)
        if isinstance(it, GenV):
            it = self.materialise(it, state)
        # a loop that re-binds a generator (a lazily chained pipeline) is followed iteration by iteration
        chains = any(isinstance(state.env.get(nm), GenV) for nm in _assigned_names(st.body))
        # ... and so is a loop that re-builds a list from itself (a frontier that grows level by level): the list stays summarised
        # family by family, only the loop is unrolled
        chains = chains or any(isinstance(state.env.get(nm), ListV) and not state.env[nm].unknown and _read_before_write(st.body, nm)
                               and any(isinstance(x, ast.Assign) and any(isinstance(t, ast.Name) and t.id == nm for t in x.targets)
                                       for b_ in st.body for x in ast.walk(b_))
                               for nm in _assigned_names(st.body))
        if isinstance(it, RangeV) and it.count is None and it.lo.is_const() and it.hi.is_const() and it.hi.const - it.lo.const > 1 \
                and it.hi.const - it.lo.const > self.unroll_ranges and not (chains and it.hi.const - it.lo.const <= 32):
            items = None
        elif chains and isinstance(it, RangeV) and it.count is None and it.lo.is_const() and it.hi.is_const() and it.hi.const - it.lo.const <= 32:
            items = [Lin(i) for i in range(it.lo.const, it.hi.const)]
        else:
            items = self.concrete_items(it)
        return self._exec_for(st, state, rel, it, items)

    def _exec_for(self, st: ast.For, state: State, rel: str, it: Any, items):
        if items is not None:
            # unroll
            cur = [state]
            results = []
            for item in items:
                nxt = []
                for s in cur:
                    self.assign(st.target, item, s, rel)
                    for s2, sig in self.exec_block(st.body, s, rel):
                        if sig is None or sig[0] == "continue":
                            nxt.append(s2)
                        elif sig[0] == "break":
                            results.append((s2, None))
                        else:
                            results.append((s2, sig))
                cur = nxt
                if not cur:
                    break
            if st.orelse:
                fin = []
                for s in cur:
                    fin.extend(self.exec_block(st.orelse, s, rel))
                return results + fin
            return results + [(s, None) for s in cur]
        fams = self.families(self._inner_view(it, state))
        if fams is None:
            raise _Unmodelled(f"for loop over {it!r} at {core.loc(rel, st)}")
        # summarised iteration: body interpreted once per family with binder symbols
        if st.orelse:
            raise _Unmodelled(f"for/else over a summarised sequence at {core.loc(rel, st)}")
        cur = [state]
        results = []
        assigned = _assigned_names(st.body)
        # a generator created outside the loop and iterated inside it is spent by the first iteration: peel that iteration off
        body_names = {n.id for b in st.body for n in ast.walk(b) if isinstance(n, ast.Name)}
        if any(isinstance(state.env.get(nm), GenV) and not state.env[nm].consumed for nm in body_names):
            peeled = []
            for elem, binders in fams:
                if len(binders) == 1 and binders[0][1] > 1 and binders[0][0].lo == 0:
                    b, n = binders[0]
                    rest = Sym(b.name + "r", 1, n - 1)
                    peeled.append((subst_value(elem, b, 0), []))
                    peeled.append((subst_value(elem, b, rest), [(rest, n - 1)]))
                else:
                    peeled.append((elem, binders))
            fams = peeled
        for elem, binders in fams:
            nxt = []
            for s in cur:
                before = {k: s.env.get(k) for k in assigned}
                self.assign(st.target, elem, s, rel)
                saved_b = s.binders
                s.binders = s.binders + tuple(binders)
                body_out = self.exec_block(st.body, s, rel)
                falls = [(s2, sig) for s2, sig in body_out if sig is None or sig[0] == "continue"]
                others = [(s2, sig) for s2, sig in body_out if not (sig is None or sig[0] == "continue")]
                for s2, sig in others:
                    s2.binders = saved_b
                    if sig[0] == "break":
                        s2.notes.append(f"break inside summarised loop at {core.loc(rel, st)}")
                        self._poison(s2, assigned, "break inside summarised loop")
                        results.append((s2, None))
                    else:
                        results.append((s2, sig))
                if len(falls) > 1:
                    for s2, _ in falls:
                        self._poison(s2, assigned, "data-dependent branch inside summarised loop")
                for s2, _ in falls:
                    s2.binders = saved_b
                    depth_here = len(saved_b) + len(binders)
                    for kind, payload in s2.effects:
                        if kind == "cell-store-in-loop" and payload[2] >= depth_here:
                            payload[0].fields[payload[1]] = Unknown("value left by the last iteration of a summarised loop")
                    # loop-carried scalars are not summarised
                    for k in assigned:
                        v_after = s2.env.get(k)
                        if isinstance(v_after, (ListV,)):
                            if v_after is not before.get(k) and k not in _target_names(st.target) and _read_before_write(st.body, k):
                                # the name is re-bound to a NEW list computed from the old one (a frontier that grows per iteration):
                                # that is a loop-carried value like any other, not an append the summary can count
                                s2.env[k] = ListV([], f"list {k} re-built from itself in a summarised loop")
                            continue
                        if k in _target_names(st.target):
                            continue
                        if not _same_value(before.get(k), v_after) and _read_before_write(st.body, k):
                            s2.env[k] = Unknown(f"loop-carried variable {k} in summarised loop")
                    nxt.append(s2)
            cur = nxt
        return results + [(s, None) for s in cur]

    def _poison(self, s: State, names, why: str):
        for k, v in s.env.items():
            if isinstance(v, ListV):
                v.unknown = why

    def concrete_items(self, it: Any) -> Optional[List[Any]]:
        it = self.settle(it)
        if isinstance(it, RangeV) and it.count is not None:
            if it.count <= min(self.UNROLL, max(1, self.unroll_ranges)):
                return [it.lo + it.step * i for i in range(it.count)]
            return None
        if isinstance(it, RangeV):
            if it.lo.is_const() and it.hi.is_const():
                n = it.hi.const - it.lo.const
                if n <= self.UNROLL:
                    return [Lin(i) for i in range(it.lo.const, it.hi.const)]
            return None
        if isinstance(it, ListV) and it.unordered and len(it.segs) > 1:
            if self.set_order is None or it.unknown or any(sg.binders for sg in it.segs):
                return None
            self.set_iterations += 1
            els = [sg.elem for sg in it.segs]
            return els if self.set_order == "insertion" else list(reversed(els))
        if isinstance(it, MapV) and it.name is None and not it.unknown and len(it.entries) <= self.UNROLL:
            return [self.thaw_key(k) for k in it.entries]
        if isinstance(it, ListV) and not it.unknown:
            if all(not s.binders for s in it.segs) and len(it.segs) <= self.UNROLL:
                return [s.elem for s in it.segs]
            return None
        if isinstance(it, TupleV):
            return list(it.items)
        if isinstance(it, EnumV):
            inner = self.concrete_items(it.inner)
            if inner is None:
                return None
            return [TupleV([Lin(it.start + i), x]) for i, x in enumerate(inner)]
        return None

    @staticmethod
    def _inner_view(it: Any, state: State) -> Any:
        """A list made INSIDE a summarised iteration carries that iteration's loop symbols in its segments.  Iterating it there is
        still the same iteration: those symbols are not loop variables of the inner loop (counting them again would multiply the
        trip count by the outer one), and the elements keep referring to them."""
        if not isinstance(it, ListV) or not state.binders or it.unknown:
            return it
        active = {b.name for b, _ in state.binders}
        if not any(b.name in active for sg in it.segs for b, _ in sg.binders):
            return it
        return ListV([Seg(sg.elem, tuple((b, n) for b, n in sg.binders if b.name not in active)) for sg in it.segs],
                     it.unknown, list(it.stores), it.alloc_len, it.alloc_elem, it.unordered)

    def families(self, it: Any) -> Optional[List[Tuple[Any, List[Tuple[Sym, int]]]]]:
        it = self.settle(it)
        if isinstance(it, ListV) and it.unordered and len(it.segs) > 1:
            return None
        if isinstance(it, RangeV) and it.count is not None:
            if it.count <= 0:
                return []
            b = Sym(f"i{next(self.fresh)}", 0, it.count - 1)
            return [(it.lo + Lin.of(b).scale(it.step), [(b, it.count)])]
        if isinstance(it, RangeV):
            if it.lo.is_const() and it.hi.is_const():
                n = it.hi.const - it.lo.const
                if n <= 0:
                    return []
                b = Sym(f"i{next(self.fresh)}", 0, n - 1)
                return [(Lin.of(b) + it.lo.const, [(b, n)])]
            return None
        if isinstance(it, TableV):
            b = Sym(f"o{next(self.fresh)}", 0, it.length - 1)
            return [(OriginV(Lin.of(b)), [(b, it.length)])]
        if isinstance(it, ListV) and not it.unknown:
            out = []
            for s in it.segs:
                # rename binders so that nested use of the same list stays distinct
                elem, binders = s.elem, []
                for b, c in s.binders:
                    nb = Sym(f"{b.name.rstrip('0123456789')}{next(self.fresh)}", b.lo, b.hi)
                    elem = subst_value(elem, b, nb)
                    binders.append((nb, c))
                out.append((elem, binders))
            return out
        if isinstance(it, EnumV):
            fams = self.families(it.inner)
            if fams is None:
                return None
            out = []
            off = it.start
            for elem, binders in fams:
                pos = Lin(off)
                mult = 1
                for b, c in reversed(binders):
                    pos = pos + Lin.of(b).scale(mult)
                    mult *= c
                out.append((TupleV([pos, elem]), binders))
                off += mult
            return out
        return None

    # -- conditions -----------------------------------------------------------------
    def branch(self, test: ast.expr, state: State, rel: str) -> List[Tuple[bool, State]]:
        """Evaluates a condition; returns the feasible (truth, state) pairs."""
        if isinstance(test, ast.BoolOp):
            if isinstance(test.op, ast.And):
                res: List[Tuple[bool, State]] = []
                cur = [state]
                for v in test.values:
                    nxt = []
                    for s in cur:
                        for t, s2 in self.branch(v, s, rel):
                            if t:
                                nxt.append(s2)
                            else:
                                res.append((False, s2))
                    cur = nxt
                res.extend((True, s) for s in cur)
                return res
            else:
                res = []
                cur = [state]
                for v in test.values:
                    nxt = []
                    for s in cur:
                        for t, s2 in self.branch(v, s, rel):
                            if t:
                                res.append((True, s2))
                            else:
                                nxt.append(s2)
                    cur = nxt
                res.extend((False, s) for s in cur)
                return res
        if isinstance(test, ast.UnaryOp) and isinstance(test.op, ast.Not):
            return [(not t, s) for t, s in self.branch(test.operand, state, rel)]
        v = self.eval(test, state, rel)
        if isinstance(v, bool):
            return [(v, state)]
        return self.branch_value(v, state, core.loc(rel, test), core.src(test))

    def branch_value(self, v: Any, state: State, where: str, text: str) -> List[Tuple[bool, State]]:
        if isinstance(v, bool):
            return [(v, state)]
        if isinstance(v, Lin):
            r = compare(v, "!=", Lin(0))
            if r is not None:
                return [(r, state)]
            v = CondV("!=", v, Lin(0))
        if isinstance(v, NoneV):
            return [(False, state)]
        if isinstance(v, (ListV,)):
            n = v.length()
            if n is not None:
                return [(n > 0, state)]
        if isinstance(v, CondV):
            return self.fork_on(v, state, where)
        if isinstance(v, AllV):
            # all conditions hold on one path; the first one that fails ends each of the others
            out: List[Tuple[bool, State]] = []
            cur = [state]
            for c in v.conds:
                nxt = []
                for s_ in cur:
                    for truth, s2 in self.branch_value(c, s_, where, text):
                        if truth:
                            nxt.append(s2)
                        else:
                            out.append((v.neg, s2))
                cur = nxt
            out.extend((not v.neg, s_) for s_ in cur)
            return out
        if isinstance(v, (OriginV, CellV, TableV, FuncRef)):
            return [(True, state)]
        # an unmodelled test is the same unknown only while the variables it mentions have not been assigned again
        vers = [state.versions[n_] for n_ in dict.fromkeys(re.findall(r"[A-Za-z_]\w*", text)) if n_ in state.versions]
        tag = f" [{'.'.join(map(str, vers))}]" if any(v_ > 1 for v_ in vers) else ""
        c = CondV("!=", Lin.of(Opaque(f"truth of {text}{tag}", 0, 1)), Lin(0))
        return self.fork_on(c, state, where)

    def fork_on(self, c: CondV, state: State, where: str) -> List[Tuple[bool, State]]:
        # already on the path?
        for pc, truth, _ in state.path:
            if pc == c:
                return [(truth, state)]
            if pc == c.negate():
                return [(not truth, state)]
        # guard refinement: bare symbol against a constant
        d = c.left - c.right
        if len(d.terms) == 1 and isinstance(d.terms[0][0], Sym) and d.terms[0][1] in (1, -1) and c.op in ("<", "<=", ">", ">="):
            sym, coef = d.terms[0]
            # coef*sym + const  op  0
            k = -d.const * coef           # sym op' k  where op' depends on the sign
            op = c.op if coef == 1 else {"<": ">", "<=": ">=", ">": "<", ">=": "<="}[c.op]
            lo, hi = sym.lo, sym.hi
            if op == "<":
                t_rng, f_rng = (lo, _min(hi, k - 1)), (_max(lo, k), hi)
            elif op == "<=":
                t_rng, f_rng = (lo, _min(hi, k)), (_max(lo, k + 1), hi)
            elif op == ">":
                t_rng, f_rng = (_max(lo, k + 1), hi), (lo, _min(hi, k))
            else:
                t_rng, f_rng = (_max(lo, k), hi), (lo, _min(hi, k - 1))
            out = []
            for truth, (a, b) in ((True, t_rng), (False, f_rng)):
                if a is not None and b is not None and a > b:
                    continue
                s2 = state.fork()
                refine(s2, sym, Sym(sym.name, a, b))
                s2.path.append((c, truth, where))
                out.append((truth, s2))
            return out
        if len(d.terms) == 1 and isinstance(d.terms[0][0], Sym) and d.terms[0][1] != 0 and c.op in ("==", "!="):
            # (a multiple of) a bare symbol equal / unequal to a constant: the equal side knows the value, the other side loses an end point
            sym, coef = d.terms[0]
            if d.const % coef:
                return [(c.op == "!=", state)]
            k = -d.const // coef
            lo, hi = sym.lo, sym.hi
            if (lo is not None and k < lo) or (hi is not None and k > hi):
                return [(c.op == "!=", state)]
            if lo is not None and lo == hi:
                return [(c.op == "==", state)]
            eq_state = state.fork()
            refine(eq_state, sym, k)
            eq_state.path.append((c, c.op == "==", where))
            ne_state = state
            if lo is not None and k == lo:
                refine(ne_state, sym, Sym(sym.name, lo + 1, hi))
            elif hi is not None and k == hi:
                refine(ne_state, sym, Sym(sym.name, lo, hi - 1))
            ne_state.path.append((c, c.op != "==", where))
            return [(c.op == "==", eq_state), (c.op != "==", ne_state)]
        s_t = state.fork()
        s_t.path.append((c, True, where))
        s_f = state
        s_f.path.append((c, False, where))
        return [(True, s_t), (False, s_f)]

    # -- expressions ----------------------------------------------------------------
    def eval(self, e: ast.expr, state: State, rel: str) -> Any:
        self.tick()
        if isinstance(e, ast.NamedExpr):
            v = self.eval(e.value, state, rel)
            self.assign(e.target, v, state, rel)
            return v
        if isinstance(e, ast.Constant):
            v = e.value
            if isinstance(v, bool):
                return v
            if isinstance(v, int):
                return Lin(v)
            if v is None:
                return NONE
            if isinstance(v, str):
                return StrV(v)
            if isinstance(v, float):
                return FloatV(("const", v, repr(v)))
            return Unknown("constant")
        if isinstance(e, ast.Name):
            if e.id in state.env:
                return state.env[e.id]
            if e.id in ("True", "False"):
                return e.id == "True"
            return FuncRef("<builtin>", e.id)
        if isinstance(e, ast.JoinedStr):
            return StrV("<f-string>")
        if isinstance(e, ast.UnaryOp):
            v = self.eval(e.operand, state, rel)
            if isinstance(e.op, ast.USub):
                if isinstance(v, Lin):
                    return -v
                if isinstance(v, FloatV):
                    return FloatV(("neg", v.expr))
            if isinstance(e.op, ast.Not):
                if isinstance(v, bool):
                    return not v
                if isinstance(v, CondV):
                    return v.negate()
                if isinstance(v, AllV):
                    return AllV(v.conds, not v.neg)
                if isinstance(v, Lin):          # not n  ==  (n == 0)
                    d = compare(v, "==", Lin(0))
                    return d if d is not None else CondV("==", v, Lin(0))
                if isinstance(v, NoneV):
                    return True
            if isinstance(e.op, ast.UAdd) and isinstance(v, Lin):
                return v
            if isinstance(e.op, ast.Invert) and isinstance(v, Lin):
                return -v - 1
            return Unknown(f"unary {type(e.op).__name__}")
        if isinstance(e, ast.BinOp):
            l = self.eval(e.left, state, rel)
            r = self.eval(e.right, state, rel)
            return self.binop(e.op, l, r, state, e)
        if isinstance(e, ast.BoolOp):
            if id(e) in state.call_memo:
                return state.call_memo.pop(id(e))
            if isinstance(e.op, ast.Or) and len(e.values) == 2:
                # value semantics of `a or b`: a if it is truthy, else b (None and 0 are falsy)
                first = self.eval(e.values[0], state, rel)
                if isinstance(first, NoneV):
                    return self.eval(e.values[1], state, rel)
                if isinstance(first, Lin) and compare(first, "!=", Lin(0)) is None:
                    alts = self.fork_on(CondV("!=", first, Lin(0)), state, core.loc(rel, e))
                    if len(alts) == 2:
                        forks = []
                        for truth, s2 in alts:
                            forks.append((s2, e, first if truth else self.eval(e.values[1], s2, rel)))
                        raise _Fork(forks)
            vals = [self.eval(v, state, rel) for v in e.values]
            if all(isinstance(v, bool) for v in vals):
                return all(vals) if isinstance(e.op, ast.And) else any(vals)
            if isinstance(e.op, ast.Or):
                # `x or 1` on integers
                first = vals[0]
                if isinstance(first, Lin):
                    r = compare(first, "!=", Lin(0))
                    if r is True:
                        return first
                    if r is False:
                        return vals[1] if len(vals) == 2 else Unknown("or-chain")
                if isinstance(first, bool):
                    rest = vals[1:]
                    if first:
                        return True
                    if len(rest) == 1:
                        return rest[0]
            if isinstance(e.op, ast.And):
                first = vals[0]
                if isinstance(first, bool):
                    if not first:
                        return False
                    if len(vals) == 2:
                        return vals[1]
            return Unknown("boolean expression of undecided operands")
        if isinstance(e, ast.Compare):
            return self.compare_expr(e, state, rel)
        if isinstance(e, ast.IfExp):
            if id(e) in state.call_memo:
                return state.call_memo.pop(id(e))
            alts = self.branch(e.test, state, rel)
            if len(alts) == 1:
                truth, s2 = alts[0]
                if s2 is not state:
                    state.become(s2)
                return self.eval(e.body if truth else e.orelse, state, rel)
            # undecided: one continuation per alternative, each with the value of its own branch (and the condition on its path)
            forks = []
            for truth, s2 in alts:
                forks.append((s2, e, self.eval(e.body if truth else e.orelse, s2, rel)))
            raise _Fork(forks)
        if isinstance(e, ast.Call):
            return self.call(e, state, rel)
        if isinstance(e, ast.Subscript):
            base = self.eval(e.value, state, rel)
            if isinstance(e.slice, ast.Slice):
                return self.slice_of(base, e.slice, state, rel)
            idx = self.eval(e.slice, state, rel)
            return self.subscript(base, idx, state, e, rel)
        if isinstance(e, ast.Attribute):
            base = self.eval(e.value, state, rel)
            return self.attribute(base, e.attr, state, e)
        if isinstance(e, (ast.List, ast.Tuple)):
            items = [self.eval(x, state, rel) for x in e.elts]
            if isinstance(e, ast.Tuple):
                return TupleV(items)
            return ListV([Seg(x) for x in items])
        if isinstance(e, ast.Dict) and not e.keys:
            return MapV({})
        if isinstance(e, ast.Dict):
            keys = []
            for k in e.keys:
                if isinstance(k, ast.Constant) and isinstance(k.value, str):
                    keys.append(k.value)
                else:
                    return Unknown("dict with non-literal keys")
            return CellV({k: self.eval(v, state, rel) for k, v in zip(keys, e.values)})
        if isinstance(e, ast.ListComp):
            return self.list_comp(e, state, rel)
        if isinstance(e, ast.Set):
            out_ = ListV([], unordered=True)
            for x in e.elts:
                if isinstance(x, ast.Starred) or not self.set_add(out_, self.eval(x, state, rel)):
                    return Unknown("set display not followed element by element")
            return out_
        if isinstance(e, ast.SetComp):
            lst_ = self.list_comp(ast.copy_location(ast.ListComp(elt=e.elt, generators=e.generators), e), state, rel)
            its_ = self.plain_items(lst_)
            if its_ is None:
                return Unknown("set comprehension not followed element by element")
            out_ = ListV([], unordered=True)
            for x in its_:
                if not self.set_add(out_, x):
                    return Unknown("set comprehension: equality of two elements not decided")
            return out_
        if isinstance(e, ast.DictComp) and len(e.generators) == 1 and not e.generators[0].is_async:
            # {k: v for x in xs if ...}: followed element by element only (a run-local table)
            g_ = e.generators[0]
            it_ = self.eval(g_.iter, state, rel)
            if isinstance(it_, GenV):
                it_ = self.materialise(it_, state)
            items_ = self.concrete_items(it_)
            if items_ is None:
                return Unknown("dict comprehension over a sequence that is not known element by element")
            out_m = MapV({})
            saved_d = {n.id: state.env.get(n.id, _MISSING) for n in ast.walk(g_.target) if isinstance(n, ast.Name)}
            try:
                for item in items_:
                    self.assign(g_.target, item, state, rel)
                    keep = True
                    for cond in g_.ifs:
                        c_ = self.eval(cond, state, rel)
                        if isinstance(c_, Lin) and c_.is_const():
                            c_ = c_.const != 0
                        if not isinstance(c_, bool):
                            return Unknown("dict comprehension filter not decided element by element")
                        if not c_:
                            keep = False
                            break
                    if not keep:
                        continue
                    key_ = self.key_for(out_m, self.eval(e.key, state, rel))
                    if key_ is _MISSING:
                        return Unknown("dict comprehension: equality of two keys not decided")
                    out_m.entries[key_] = self.eval(e.value, state, rel)
                return out_m
            finally:
                for k, v in saved_d.items():
                    if v is _MISSING:
                        state.env.pop(k, None)
                    else:
                        state.env[k] = v
        if isinstance(e, ast.GeneratorExp):
            return GenV(e, self.eval(e.generators[0].iter, state, rel), rel)
        if isinstance(e, ast.Lambda):
            return ClosureV(e, rel, state.env)
        if isinstance(e, ast.Lambda):
            return Unknown("lambda")
        return Unknown(f"expression {type(e).__name__}")

    def materialise(self, g: GenV, state: State) -> Any:
        """what iterating the generator now yields (and it is spent afterwards)"""
        if g.consumed:
            return ListV([])
        g.consumed = True
        if g.items is not None:
            return g.items
        first = g.first
        if isinstance(first, GenV):
            first = self.materialise(first, state)
        hidden = f"<gen-{id(g.node)}>"
        node = copy.copy(g.node)
        gens = [copy.copy(x) for x in g.node.generators]
        gens[0].iter = ast.copy_location(ast.Name(id=hidden, ctx=ast.Load()), g.node)
        comp = ast.copy_location(ast.ListComp(elt=g.node.elt, generators=gens), g.node)
        state.env[hidden] = first
        try:
            return self.list_comp(comp, state, g.rel)
        finally:
            state.env.pop(hidden, None)

    def list_comp(self, e: ast.ListComp, state: State, rel: str, gi: int = 0) -> Any:
        if any(g.is_async for g in e.generators) or (len(e.generators) > 1 and any(g.ifs for g in e.generators)):
            return Unknown("comprehension with a filter")
        if len(e.generators) > 1:
            return self._nested_comp(e, state, rel)
        g = e.generators[0]
        it = self.eval(g.iter, state, rel)
        if isinstance(it, GenV):
            it = self.materialise(it, state)
        out = ListV([])
        items = None
        if g.ifs:
            items = self.concrete_items(it)
            if items is None:
                return Unknown("comprehension with a filter over a summarised sequence")
            saved_f = {n.id: state.env.get(n.id, _MISSING) for n in ast.walk(g.target) if isinstance(n, ast.Name)}
            try:
                for item in items:
                    self.assign(g.target, item, state, rel)
                    keep = True
                    for cond in g.ifs:
                        c_ = self.eval(cond, state, rel)
                        if isinstance(c_, Lin) and c_.is_const():
                            c_ = c_.const != 0
                        if not isinstance(c_, bool):
                            return Unknown("comprehension filter not decided element by element")
                        if not c_:
                            keep = False
                            break
                    if keep:
                        out.segs.append(Seg(self.eval(e.elt, state, rel), state.binders))
                return out
            finally:
                for k, v in saved_f.items():
                    if v is _MISSING:
                        state.env.pop(k, None)
                    else:
                        state.env[k] = v
        if not (isinstance(it, RangeV) and it.count is None and it.lo.is_const() and it.hi.is_const() and it.hi.const - it.lo.const > max(1, self.unroll_ranges)):
            items = self.concrete_items(it)
        saved = {n.id: state.env.get(n.id, _MISSING) for n in ast.walk(g.target) if isinstance(n, ast.Name)}
        try:
            if items is not None:
                for item in items:
                    self.assign(g.target, item, state, rel)
                    out.segs.append(Seg(self.eval(e.elt, state, rel), state.binders))
                return out
            fams = self.families(self._inner_view(it, state))
            if fams is None:
                return Unknown(f"comprehension over {it!r}")
            for elem, binders in fams:
                self.assign(g.target, elem, state, rel)
                saved_b = state.binders
                state.binders = state.binders + tuple(binders)
                try:
                    v = self.eval(e.elt, state, rel)
                finally:
                    state.binders = saved_b
                out.segs.append(Seg(v, state.binders + tuple(binders)))
            return out
        finally:
            for k, v in saved.items():
                if v is _MISSING:
                    state.env.pop(k, None)
                else:
                    state.env[k] = v

    def _nested_comp(self, e: ast.ListComp, state: State, rel: str) -> Any:
        """[elt for a in A for b in B ...]  ==  nested for loops appending elt"""
        out = ListV([])
        saved_names = {n.id: state.env.get(n.id, _MISSING) for g in e.generators for n in ast.walk(g.target) if isinstance(n, ast.Name)}

        def rec(gi: int) -> bool:
            if gi == len(e.generators):
                out.segs.append(Seg(self.eval(e.elt, state, rel), state.binders))
                return True
            g = e.generators[gi]
            it = self.eval(g.iter, state, rel)
            items = None
            if not (isinstance(it, RangeV) and it.count is None and it.lo.is_const() and it.hi.is_const() and it.hi.const - it.lo.const > max(1, self.unroll_ranges)):
                items = self.concrete_items(it)
            if items is not None:
                for item in items:
                    self.assign(g.target, item, state, rel)
                    if not rec(gi + 1):
                        return False
                return True
            fams = self.families(self._inner_view(it, state))
            if fams is None:
                return False
            for elem, binders in fams:
                self.assign(g.target, elem, state, rel)
                saved_b = state.binders
                state.binders = state.binders + tuple(binders)
                try:
                    if not rec(gi + 1):
                        return False
                finally:
                    state.binders = saved_b
            return True
        try:
            ok = rec(0)
        finally:
            for k, v in saved_names.items():
                if v is _MISSING:
                    state.env.pop(k, None)
                else:
                    state.env[k] = v
        return out if ok else Unknown("comprehension over an unmodelled iterable")

    def compare_expr(self, e: ast.Compare, state: State, rel: str) -> Any:
        left = self.eval(e.left, state, rel)
        result: Any = True
        for op, rn in zip(e.ops, e.comparators):
            right = self.eval(rn, state, rel)
            r = self.compare_values(op, left, right)
            if r is False:
                return False
            if r is not True:
                if result is True:
                    result = r
                else:
                    return Unknown("chained comparison of undecided parts")
            left = right
        return result

    def compare_values(self, op: ast.cmpop, l: Any, r: Any) -> Any:
        if isinstance(op, (ast.Is, ast.IsNot)):
            if isinstance(l, FuncRef) and isinstance(r, FuncRef) and l.module == "<builtin>" and r.module == "<builtin>":
                same = l.name == r.name          # type(x) is int
                return same if isinstance(op, ast.Is) else not same
            if isinstance(l, NoneV) or isinstance(r, NoneV):
                same = isinstance(l, NoneV) and isinstance(r, NoneV)
                if isinstance(l, Unknown) or isinstance(r, Unknown):
                    return Unknown("identity test on unknown")
                return same if isinstance(op, ast.Is) else not same
            return Unknown("identity test")
        if isinstance(l, ListV) and isinstance(r, ListV) and l.unordered and r.unordered and isinstance(op, (ast.LtE, ast.GtE, ast.Eq, ast.NotEq)):
            if isinstance(op, ast.LtE):
                return self.subset_of(l, r)
            if isinstance(op, ast.GtE):
                return self.subset_of(r, l)
            a_, b_ = self.subset_of(l, r), self.subset_of(r, l)
            if isinstance(a_, bool) and isinstance(b_, bool):
                return (a_ and b_) if isinstance(op, ast.Eq) else not (a_ and b_)
            return Unknown("set equality not decided")
        if isinstance(op, (ast.In, ast.NotIn)) and isinstance(r, (ListV, TupleV)):
            got = self.member_of(l, r)
            if got is None:
                return Unknown("membership not decided element by element")
            return got if isinstance(op, ast.In) else not got
        if isinstance(op, (ast.In, ast.NotIn)) and isinstance(r, MapV):
            key = self.key_for(r, l)
            if key is _MISSING or r.unknown:
                return Unknown("membership in a table with symbolic keys")
            present = key in r.entries
            if not present and self.saturated and r.name is not None and self.map_values.get(r.name, {}).get(key):
                return Unknown("membership depends on earlier calls")
            return present if isinstance(op, ast.In) else not present
        if isinstance(op, (ast.Eq, ast.NotEq)) and (isinstance(l, WindowListV) or isinstance(r, WindowListV)):
            w, other = (l, r) if isinstance(l, WindowListV) else (r, l)
            items = None
            if isinstance(other, ListV) and not other.unknown and not other.stores:
                items = []
                for sg in other.segs:
                    if not sg.binders:
                        items.append(sg.elem)
                    elif len(sg.binders) == 1 and sg.binders[0][0].lo == 0 and sg.binders[0][1] <= 16:
                        b, n = sg.binders[0]
                        items.extend(subst_value(sg.elem, b, j) for j in range(n))
                    else:
                        items = None
                        break
            elif isinstance(other, WindowListV):
                items = other.items
            if items is not None and all(isinstance(x, Lin) for x in items) and all(isinstance(x, Lin) for x in w.items):
                if len(items) != len(w.items):
                    return isinstance(op, ast.NotEq)
                conds: List[Any] = []
                if w.fits is not None:
                    conds.append(w.fits)
                if isinstance(other, WindowListV) and other.fits is not None:
                    conds.append(other.fits)
                for a_, b_ in zip(w.items, items):
                    d_ = compare(a_, "==", b_)
                    if d_ is False:
                        return isinstance(op, ast.NotEq)
                    if d_ is None:
                        conds.append(CondV("==", a_, b_))
                if not conds:
                    return isinstance(op, ast.Eq)
                return AllV(conds, isinstance(op, ast.NotEq))
            return Unknown("comparison of a list window with a list that is not modelled")
        sym = {ast.Eq: "==", ast.NotEq: "!=", ast.Lt: "<", ast.LtE: "<=", ast.Gt: ">", ast.GtE: ">="}.get(type(op))
        if sym is None:
            return Unknown(f"comparison {type(op).__name__}")
        if isinstance(l, bool):
            l = Lin(int(l))
        if isinstance(r, bool):
            r = Lin(int(r))
        if isinstance(l, Lin) and isinstance(r, Lin):
            d = compare(l, sym, r)
            if d is not None:
                return d
            return CondV(sym, l, r)
        if isinstance(l, NoneV) or isinstance(r, NoneV):
            both = isinstance(l, NoneV) and isinstance(r, NoneV)
            if sym == "==":
                return both
            if sym == "!=":
                return not both
        if isinstance(l, StrV) and isinstance(r, StrV) and sym in ("==", "!="):
            return (l.text == r.text) == (sym == "==")
        return Unknown(f"comparison of {type(l).__name__} and {type(r).__name__}")

    def set_op(self, op: ast.operator, l: Any, r: Any) -> Any:
        li, ri = self.plain_items(l), self.plain_items(r)
        if li is None or ri is None:
            return Unknown("set operation on a value that is not known element by element")
        out = ListV([], unordered=True)
        if isinstance(op, ast.BitOr):
            for x in li + ri:
                if not self.set_add(out, x):
                    return Unknown("set union: equality of two elements not decided")
            return out
        for x in li:
            m_ = self.member_of(x, r)
            if m_ is None:
                return Unknown("set operation: membership not decided")
            if m_ == isinstance(op, ast.BitAnd):
                if not self.set_add(out, x):
                    return Unknown("set operation: equality of two elements not decided")
        return out

    def subset_of(self, a: Any, b: Any) -> Any:
        ai = self.plain_items(a)
        if ai is None:
            return Unknown("subset test on an unmodelled value")
        for x in ai:
            m_ = self.member_of(x, b)
            if m_ is None:
                return Unknown("subset test: membership not decided")
            if not m_:
                return False
        return True

    def binop(self, op: ast.operator, l: Any, r: Any, state: State, node: ast.AST) -> Any:
        if isinstance(l, bool):
            l = Lin(int(l))
        if isinstance(r, bool):
            r = Lin(int(r))
        if isinstance(l, FloatV) or isinstance(r, FloatV):
            if isinstance(l, (FloatV, Lin)) and isinstance(r, (FloatV, Lin)):
                name = type(op).__name__
                return FloatV((name, l.expr if isinstance(l, FloatV) else ("int", l),
                               r.expr if isinstance(r, FloatV) else ("int", r)))
            return Unknown("float arithmetic")
        if isinstance(l, ListV) and l.unordered and isinstance(r, ListV) and r.unordered and isinstance(op, (ast.BitOr, ast.Sub, ast.BitAnd)):
            return self.set_op(op, l, r)
        if isinstance(l, TupleV) and isinstance(r, TupleV) and isinstance(op, ast.Add):
            return TupleV(list(l.items) + list(r.items))
        if isinstance(l, ListV) and isinstance(r, Lin) and isinstance(op, ast.Mult):
            # [x] * n
            if len(l.segs) == 1 and not l.segs[0].binders and l.alloc_len is None and not l.stores and not l.unknown:
                return ListV([], None, [], r, l.segs[0].elem)
            l = self.settle(l)
            if r.is_const() and 0 <= r.const <= 64 and not l.unknown and l.alloc_len is None and not l.stores and not l.unordered:
                return ListV([Seg(sg.elem, sg.binders) for _ in range(r.const) for sg in l.segs])
            return Unknown("list repetition")
        if isinstance(l, ListV) and isinstance(r, ListV) and isinstance(op, ast.Add):
            l, r = self.settle(l), self.settle(r)
            if l.unknown or r.unknown:
                return ListV([], l.unknown or r.unknown)
            return ListV(list(l.segs) + list(r.segs))
        if not (isinstance(l, Lin) and isinstance(r, Lin)):
            return Unknown(f"{type(op).__name__} on {type(l).__name__}, {type(r).__name__}")
        if isinstance(op, ast.Add):
            return l + r
        if isinstance(op, ast.Sub):
            return l - r
        if isinstance(op, ast.Mult):
            if l.is_const():
                return r.scale(l.const)
            if r.is_const():
                return l.scale(r.const)
            (a, b), (c, d) = l.rng(), r.rng()
            lo = hi = None
            if None not in (a, b, c, d):
                prods = [a * c, a * d, b * c, b * d]
                lo, hi = min(prods), max(prods)
            return Lin.of(Opaque(f"({l})*({r})", lo, hi))
        if isinstance(op, ast.Pow):
            if l.is_const() and r.is_const():
                if r.const < 0:
                    return FloatV(("pow", l.const, r.const))
                if r.const > 4096:
                    return Unknown("huge power")
                return Lin(l.const ** r.const)
            return Unknown("power with symbolic operand")
        if isinstance(op, (ast.LShift, ast.RShift)):
            if not r.is_const():
                return Unknown("shift by a symbolic amount")
            if r.const < 0:
                raise _Raise(ExcV("ValueError", "negative shift count"), state)
            if r.const > 4096:
                return Unknown("huge shift")
            return shl(l, r.const) if isinstance(op, ast.LShift) else shr(l, r.const)
        if isinstance(op, ast.FloorDiv):
            if r.is_const():
                if r.const == 0:
                    raise _Raise(ExcV("ZeroDivisionError", "integer division by zero"), state)
                if r.const > 0:
                    return floordiv(l, r.const)
            return Unknown("floor division by a symbolic/negative value")
        if isinstance(op, ast.Mod):
            if r.is_const():
                if r.const == 0:
                    raise _Raise(ExcV("ZeroDivisionError", "integer modulo by zero"), state)
                if r.const > 0:
                    return mod(l, r.const)
            return Unknown("modulo by a symbolic/negative value")
        if isinstance(op, ast.BitAnd):
            if (l + r).is_const() and (l + r).const == 0:
                # x & -x : the lowest set bit
                for x in (l, r):
                    c = x.const
                    if c > 0:
                        v = (c & -c).bit_length() - 1
                        lo_x, _ = x.rng()
                        if lo_x is not None and lo_x >= 0 and all(cf > 0 and cf % (1 << (v + 1)) == 0 and a.rng()[0] is not None and a.rng()[0] >= 0 for a, cf in x.terms):
                            return Lin(1 << v)
                return Unknown("lowest set bit of a value whose low field is not a constant")
            if r.is_const() and r.const >= 0:
                return band(l, r.const)
            if l.is_const() and l.const >= 0:
                return band(r, l.const)
            # x & ~m  ==  x - (x & m)   for a non-negative mask m (Python's infinite two's complement)
            if r.is_const() and r.const < 0:
                return l - band(l, -r.const - 1)
            if l.is_const() and l.const < 0:
                return r - band(r, -l.const - 1)
            return Unknown("& of two symbolic values")
        if isinstance(op, ast.BitOr):
            v, problem = bor(l, r)
            if problem:
                state.effects.append(("bitor-overlap", (core.src(node), problem, node)))
            return v
        if isinstance(op, ast.BitXor):
            if l.is_const() and r.is_const():
                return Lin(l.const ^ r.const)
            # x ^ (x & (2**k - 1))  ==  x - (x & (2**k - 1)) : clearing the low k bits
            for a, b in ((l, r), (r, l)):
                _, hi = b.rng()
                lo_b, _ = b.rng()
                if hi is not None and lo_b is not None and lo_b >= 0:
                    for k in range(hi.bit_length(), hi.bit_length() + 2):
                        if mod(a, 1 << k) == b:
                            return a - b
            return Unknown("xor")
        if isinstance(op, ast.Div):
            return FloatV(("Div", ("int", l), ("int", r)))
        return Unknown(f"operator {type(op).__name__}")

    def subscript(self, base: Any, idx: Any, state: State, node: ast.AST, rel: str) -> Any:
        if isinstance(base, CellV):
            if isinstance(idx, StrV) and idx.text in base.fields:
                return base.fields[idx.text]
            return Unknown(f"cell key {idx!r}")
        if isinstance(base, MapV):
            return self._table_read(base, self.key_for(base, idx), None, state, node, has_default=False)
        if isinstance(base, TableV):
            if isinstance(idx, Lin):
                lo, hi = idx.rng()
                if lo is None or hi is None or lo < 0 or hi > base.length - 1:
                    state.effects.append(("table-index-range", (base.name, idx, (lo, hi), node)))
                return OriginV(idx)
            return Unknown("table index")
        if isinstance(base, GenericList):
            if isinstance(idx, Lin):
                if base.at is not None and idx == base.at:
                    return base.elem
                return Lin.of(Fn(base.name, (idx,), 0, (1 << 64) - 1))
            return Unknown("list index")
        if isinstance(base, ListV) and base.unordered:
            return Unknown("subscript of a set")
        if isinstance(base, ListV) and (base.alloc_len is not None or base.stores):
            base = self.settle(base)
            if base.unknown:
                return Unknown("element of a list whose stores are not followed")
        if isinstance(base, ListV):
            if isinstance(idx, Lin) and idx.is_const() and not base.unknown and all(not s.binders for s in base.segs):
                i = idx.const
                if -len(base.segs) <= i < len(base.segs):
                    return base.segs[i].elem
                raise _Raise(ExcV("IndexError", "list index out of range"), state)
            if isinstance(idx, Lin) and idx.is_const() and idx.const >= 0 and not base.unknown and not base.stores:
                # position k of a summarised list: walk the families (one binder each, positions 0..n-1 in order)
                k = idx.const
                for sg in base.segs:
                    if not sg.binders:
                        if k == 0:
                            return sg.elem
                        k -= 1
                        continue
                    if len(sg.binders) != 1 or sg.binders[0][0].lo != 0:
                        break
                    b, n = sg.binders[0]
                    if k < n:
                        return subst_value(sg.elem, b, k)
                    k -= n
            return Unknown("index into summarised list")
        if isinstance(base, TupleV):
            if isinstance(idx, Lin) and idx.is_const() and -len(base.items) <= idx.const < len(base.items):
                return base.items[idx.const]
            return Unknown("tuple index")
        return Unknown(f"subscript of {type(base).__name__}")

    @staticmethod
    def freeze_key(k: Any):
        if isinstance(k, Lin) and k.is_const():
            return k.const
        if isinstance(k, StrV):
            return k.text
        if isinstance(k, bool) or k is None:
            return k
        if isinstance(k, NoneV):
            return None
        if isinstance(k, TupleV):
            parts = [Interp.freeze_key(x) for x in k.items]
            return None if any(p is _MISSING for p in parts) else tuple(parts)
        return _MISSING

    @staticmethod
    def value_eq(a: Any, b: Any) -> Optional[bool]:
        """a == b for integers, strings, None and tuples of them; None when not decided"""
        if isinstance(a, bool) or isinstance(b, bool):
            return (a == b) if isinstance(a, bool) and isinstance(b, bool) else None
        if isinstance(a, Lin) and isinstance(b, Lin):
            return compare(a, "==", b)
        if isinstance(a, StrV) and isinstance(b, StrV):
            return a.text == b.text
        if isinstance(a, NoneV) or isinstance(b, NoneV):
            if isinstance(a, (Lin, StrV, TupleV, NoneV)) and isinstance(b, (Lin, StrV, TupleV, NoneV)):
                return isinstance(a, NoneV) and isinstance(b, NoneV)
            return None
        if isinstance(a, TupleV) and isinstance(b, TupleV):
            if len(a.items) != len(b.items):
                return False
            res: Optional[bool] = True
            for x, y in zip(a.items, b.items):
                r = Interp.value_eq(x, y)
                if r is False:
                    return False
                if r is None:
                    res = None
            return res
        if isinstance(a, (Lin, StrV, TupleV)) and isinstance(b, (Lin, StrV, TupleV)):
            return False
        return None

    @staticmethod
    def settle(v: Any) -> Any:
        """a list built as `[x] * n` plus index stores, or a list with pending stores, read back as a whole: the element-wise
        content when every store has a constant index, otherwise a list of unknown content (never the bare segments)"""
        if not isinstance(v, ListV) or (v.alloc_len is None and not v.stores) or v.unknown:
            return v
        if v.alloc_len is not None:
            if not v.alloc_len.is_const() or v.alloc_len.const > 1024 or v.segs:
                return ListV([], "allocated list whose length or content is not followed element by element")
            out = [v.alloc_elem] * max(0, v.alloc_len.const)
        else:
            if any(sg.binders for sg in v.segs):
                return ListV([], "summarised list with element stores")
            out = [sg.elem for sg in v.segs]
        for idx, val, binders in v.stores:
            if binders or not isinstance(idx, Lin) or not idx.is_const() or not (-len(out) <= idx.const < len(out)):
                return ListV([], "list with stores whose position is not known")
            out[idx.const] = val
        return ListV([Seg(x) for x in out])

    def order_lt(self, a: Any, b: Any) -> Optional[bool]:
        """a < b for integers and tuples of them (lexicographic); None when not decided"""
        if isinstance(a, Lin) and isinstance(b, Lin):
            return compare(a, "<", b)
        if isinstance(a, TupleV) and isinstance(b, TupleV):
            for x, y in zip(a.items, b.items):
                eq = self.value_eq(x, y)
                if eq is None:
                    return None
                if not eq:
                    return self.order_lt(x, y)
            return len(a.items) < len(b.items)
        return None

    def plain_items(self, xs: Any) -> Optional[List[Any]]:
        xs = self.settle(xs)
        """the elements of a list / set / tuple that is known element by element"""
        if isinstance(xs, TupleV):
            return list(xs.items)
        if isinstance(xs, ListV) and not xs.unknown and not xs.stores and xs.alloc_len is None and all(not sg.binders for sg in xs.segs):
            return [sg.elem for sg in xs.segs]
        return None

    def member_of(self, x: Any, xs: Any) -> Optional[bool]:
        items = self.plain_items(xs)
        if items is None:
            return None
        open_ = False
        for y in items:
            r = self.value_eq(x, y)
            if r is True:
                return True
            if r is None:
                open_ = True
        return None if open_ else False

    def set_add(self, st_: ListV, x: Any) -> bool:
        """adds x to a set value; False when equality with a present element is not decided"""
        r = self.member_of(x, st_)
        if r is None:
            st_.unknown = "set element whose equality with another is not decided"
            return False
        if not r:
            st_.segs.append(Seg(x))
        return True

    @staticmethod
    def _key_eq(a: Any, b: Any) -> Optional[bool]:
        """equality of two frozen keys: True / False, None when a symbolic part leaves it open"""
        ta, tb = isinstance(a, tuple), isinstance(b, tuple)
        if ta or tb:
            if not (ta and tb) or len(a) != len(b):
                return False
            res: Optional[bool] = True
            for x, y in zip(a, b):
                r = Interp._key_eq(x, y)
                if r is False:
                    return False
                if r is None:
                    res = None
            return res
        la, lb = isinstance(a, Lin), isinstance(b, Lin)
        if la or lb:
            if isinstance(a, bool) or isinstance(b, bool):
                return None
            if not la:
                if not isinstance(a, int):
                    return False
                a = Lin(a)
            if not lb:
                if not isinstance(b, int):
                    return False
                b = Lin(b)
            return compare(a, "==", b)
        return a == b

    @staticmethod
    def _freeze_sym(k: Any):
        """like freeze_key, but a symbolic integer form stays in the key as it is"""
        if isinstance(k, Lin) and not k.is_const():
            return _MISSING if k.has_opaque() else k
        if isinstance(k, TupleV):
            parts = [Interp._freeze_sym(x) for x in k.items]
            return _MISSING if any(p is _MISSING for p in parts) else tuple(parts)
        return Interp.freeze_key(k)

    def key_for(self, m: MapV, k: Any):
        """the entry of `m` that `k` addresses.  Tables of a single run (no module-level name) may be keyed by symbolic forms: `k`
        addresses the existing key it is decided equal to, a new entry when it is decided different from every key, and nothing
        (_MISSING) when one comparison stays open.  Module-level tables keep concrete keys only: a symbol of one call says nothing
        about the symbol of the same name in another call."""
        fk = self.freeze_key(k)
        if fk is not _MISSING and not any(isinstance(e, (Lin, tuple)) for e in m.entries):
            return fk
        if m.name is not None:
            return fk
        fk = self._freeze_sym(k)
        if fk is _MISSING:
            return _MISSING
        for e in m.entries:
            r = self._key_eq(e, fk)
            if r is True:
                return e
            if r is None:
                return _MISSING
        return fk

    @staticmethod
    def thaw_key(k: Any) -> Any:
        if isinstance(k, bool):
            return k
        if isinstance(k, int):
            return Lin(k)
        if isinstance(k, str):
            return StrV(k)
        if k is None:
            return NONE
        if isinstance(k, tuple):
            return TupleV([Interp.thaw_key(x) for x in k])
        return k

    def _record_store(self, m: MapV, key: Any, v: Any) -> None:
        if m.name is None:
            return
        self.map_stores.setdefault(m.name, {}).setdefault(key, {}).setdefault(repr(v), self.current_request)
        vals = self.map_values.setdefault(m.name, {}).setdefault(key, [])
        if not any(repr(x) == repr(v) for x in vals):
            vals.append(v)

    def _table_read(self, m: MapV, key: Any, default: Any, state: State, node: ast.AST, has_default: bool = True) -> Any:
        """value of table[key]; in saturated mode one alternative per value an earlier call may have left there"""
        if m.unknown or key is _MISSING:
            return Unknown("table with a symbolic key")
        alts: List[Any] = []
        if key in m.entries:
            alts.append(m.entries[key])
        elif self.saturated and m.name is not None:
            alts.extend(self.map_values.get(m.name, {}).get(key, []))
            if has_default:
                alts.append(default)
        elif has_default:
            alts.append(default)
        if not alts and m.factory is not None and not has_default and m.name is None:
            made = {"list": lambda: ListV([]), "set": lambda: ListV([], unordered=True), "int": lambda: Lin(0)}[m.factory]()
            m.entries[key] = made
            return made
        if not alts:
            raise _Raise(ExcV("KeyError", repr(key)), state)
        if len(alts) == 1:
            return alts[0]
        if id(node) in state.call_memo:
            return state.call_memo.pop(id(node))
        forks = []
        for v in alts:
            s2 = state.fork()
            # the value is now what this run sees under that key
            tbl = s2.globals.get(m.name) if m.name else None
            if isinstance(tbl, MapV):
                tbl.entries[key] = v
            s2.path.append((CondV("==", Lin.of(Opaque(f"{m.name[1] if m.name else 'table'}[{key!r}] left by an earlier call", 0, 1)), Lin(1)), True, "history"))
            forks.append((s2, node, v))
        raise _Fork(forks)

    def map_method(self, m: MapV, attr: str, args: List[Any], state: State, node: ast.Call) -> Any:
        if attr == "get" and 1 <= len(args) <= 2:
            return self._table_read(m, self.key_for(m, args[0]), args[1] if len(args) == 2 else NONE, state, node)
        if attr == "setdefault" and len(args) == 2:
            key = self.key_for(m, args[0])
            if key is _MISSING:
                m.unknown = "written with a symbolic key"
                return Unknown("table key")
            if key in m.entries:
                return m.entries[key]
            if self.saturated and m.name is not None and self.map_values.get(m.name, {}).get(key):
                cur = self._table_read(m, key, args[1], state, node)
                return cur
            m.entries[key] = args[1]
            self._record_store(m, key, args[1])
            return args[1]
        if attr in ("clear",):
            m.entries.clear()
            return NONE
        if attr in ("items", "keys", "values") and not args and m.name is None and not m.unknown:
            # a snapshot in insertion order (the loops that use it do not resize the dict; Python would raise if they did)
            if attr == "items":
                return ListV([Seg(TupleV([self.thaw_key(k), v])) for k, v in m.entries.items()])
            if attr == "keys":
                return ListV([Seg(self.thaw_key(k)) for k in m.entries])
            return ListV([Seg(v) for v in m.entries.values()])
        if attr == "pop" and args:
            key = self.key_for(m, args[0])
            v = self._table_read(m, key, args[1] if len(args) > 1 else NONE, state, node, has_default=len(args) > 1)
            m.entries.pop(key, None)
            return v
        m.unknown = f"method .{attr} not modelled"
        return Unknown(f"table method .{attr}")

    def slice_of(self, base: Any, sl: ast.Slice, state: State, rel: str) -> Any:
        def bound(n):
            if n is None:
                return None
            v = self.eval(n, state, rel)
            if isinstance(v, Lin) and v.is_const():
                return v.const
            return Unknown
        if isinstance(base, GenericList) and sl.step is None and sl.lower is not None and sl.upper is not None:
            lo_v, hi_v = self.eval(sl.lower, state, rel), self.eval(sl.upper, state, rel)
            if isinstance(lo_v, Lin) and isinstance(hi_v, Lin) and (hi_v - lo_v).is_const() and 0 <= (hi_v - lo_v).const <= 16:
                k = (hi_v - lo_v).const
                items = [self.subscript(base, lo_v + j, state, sl, rel) for j in range(k)]
                fits = CondV("<=", hi_v, base.length) if base.length is not None else None
                return WindowListV(items, fits)
        lo, hi, step = bound(sl.lower), bound(sl.upper), bound(sl.step)
        if Unknown in (lo, hi, step) or step not in (None, 1):
            return Unknown("slice with non-constant bounds or a step")
        if isinstance(base, TableV):
            idx = range(base.length)[slice(lo, hi)]
            if len(idx) == 0:
                return ListV([])
            b = Sym(f"o{next(self.fresh)}", 0, len(idx) - 1)
            return ListV([Seg(OriginV(Lin.of(b) + idx[0]), ((b, len(idx)),))])
        if isinstance(base, ListV) and not base.unknown and all(not s.binders for s in base.segs):
            return ListV(list(base.segs[slice(lo, hi)]))
        if isinstance(base, TupleV):
            return TupleV(list(base.items[slice(lo, hi)]))
        return Unknown(f"slice of {type(base).__name__}")

    def attribute(self, base: Any, attr: str, state: State, node: ast.AST) -> Any:
        if attr == "__getitem__" and isinstance(base, (ListV, MapV, TupleV, CellV)):
            return BoundGetV(base)
        if isinstance(base, OriginV):
            if attr == "id":
                return base.idx
            if attr == "first_quintant":
                if base.idx.is_const():
                    from . import codec as _codec
                    tb = _codec.TABLES.get("first_quintant")
                    if tb is not None and 0 <= base.idx.const < len(tb):
                        return Lin(tb[base.idx.const])
                return Lin.of(Fn("first_quintant", (base.idx,), self.fq_range[0], self.fq_range[1]))
            return Unknown(f"origin.{attr}")
        if isinstance(base, InstV):
            if attr in base.fields:
                return base.fields[attr]
            return self.class_attr(base.cls, attr, base, state)
        if isinstance(base, ClassV):
            return self.class_attr(base, attr, None, state)
        if isinstance(base, FuncRef) and base.module == "<module>":
            if base.name == "math" and attr in ("pi", "e", "tau"):
                import math as _m
                return FloatV(("const", getattr(_m, attr), f"math.{attr}"))
            return FuncRef(f"<{base.name}>", attr)
        return Unknown(f"attribute .{attr} of {type(base).__name__}")

    # -- classes ----------------------------------------------------------------------
    _PLAIN_BASES = {"object", "NamedTuple", "typing.NamedTuple"}

    def class_kind(self, c: ClassV) -> Optional[str]:
        """'plain' | 'record' (NamedTuple / @dataclass: the constructor binds the annotated fields) | None (not modelled)"""
        bases = [core.src(b) for b in c.node.bases]
        decos = [core.src(d).split("(")[0].split(".")[-1] for d in c.node.decorator_list]
        if any(d not in ("dataclass", "final", "total_ordering") for d in decos) or c.node.keywords:
            return None
        if any(b not in self._PLAIN_BASES for b in bases):
            return None
        if "dataclass" in decos or any(b.endswith("NamedTuple") for b in bases):
            return "record"
        return "plain"

    def class_member(self, c: ClassV, name: str) -> Any:
        for st in c.node.body:
            if isinstance(st, ast.FunctionDef) and st.name == name:
                return st
            if isinstance(st, (ast.Assign, ast.AnnAssign)) and st.value is not None:
                tg = st.targets[0] if isinstance(st, ast.Assign) else st.target
                if isinstance(tg, ast.Name) and tg.id == name:
                    return st
        return None

    def class_attr(self, c: ClassV, attr: str, inst: Optional[InstV], state: State) -> Any:
        if self.class_kind(c) is None:
            return Unknown(f"attribute .{attr} of class {c.node.name} (class form not modelled)")
        m = self.class_member(c, attr)
        if m is None:
            return Unknown(f"attribute .{attr} not defined in class {c.node.name}")
        if isinstance(m, ast.FunctionDef):
            decos = [core.src(d) for d in m.decorator_list]
            clo = ClosureV(m, c.rel, {})
            if decos == ["staticmethod"]:
                return clo
            if decos == ["classmethod"]:
                return BoundV(clo, c)
            if decos == ["property"] and inst is not None:
                outs = self.run_node(m, c.rel, m.name, [inst], state, {}, {})
                if len(outs) == 1 and outs[0].kind == "return" and outs[0].state is state:
                    return outs[0].value
                raise _Unmodelled(f"property {c.node.name}.{attr} with several outcomes")
            if not decos:
                return BoundV(clo, inst) if inst is not None else clo
            return Unknown(f"method {c.node.name}.{attr} with decorators {decos}")
        # class-level value: ONE object per class (created when the class body ran), shared by all instances of this run
        gkey = (c.rel, f"{c.node.name}.{attr}")
        if gkey in state.globals:
            return state.globals[gkey]
        dst = State()
        dst.env = dict(self.module_env(c.rel))
        try:
            v = self.eval(m.value, dst, c.rel)
        except (_Raise, _Fork, Budget, _Unmodelled, RecursionError):
            return Unknown(f"class constant {c.node.name}.{attr} not modelled")
        if isinstance(v, (ListV, MapV, CellV)):
            state.globals[gkey] = v
        return v

    def instantiate(self, c: ClassV, args: List[Any], kwargs: Dict[str, Any], state: State, node: ast.AST) -> Any:
        kind = self.class_kind(c)
        if kind is None:
            state.unfollowed.append(f"constructor of {c.node.name}")
            return Unknown(f"instance of class {c.node.name} (class form not modelled)")
        inst = InstV(c, {})
        init = self.class_member(c, "__init__")
        if kind == "record" and init is None:
            names = [st.target.id for st in c.node.body if isinstance(st, ast.AnnAssign) and isinstance(st.target, ast.Name)]
            defaults = {st.target.id: st.value for st in c.node.body if isinstance(st, ast.AnnAssign) and isinstance(st.target, ast.Name) and st.value is not None}
            if len(args) > len(names) or any(k not in names for k in kwargs):
                raise _Raise(ExcV("TypeError", f"{c.node.name}() got unexpected arguments"), state)
            for i, nm in enumerate(names):
                if i < len(args):
                    inst.fields[nm] = args[i]
                elif nm in kwargs:
                    inst.fields[nm] = kwargs[nm]
                elif nm in defaults:
                    dst = State()
                    dst.env = dict(self.module_env(c.rel))
                    inst.fields[nm] = self.eval(defaults[nm], dst, c.rel)
                else:
                    raise _Raise(ExcV("TypeError", f"{c.node.name}() missing argument {nm}"), state)
            return inst
        if isinstance(init, ast.FunctionDef) and not init.decorator_list:
            outs = self.run_node(init, c.rel, f"{c.node.name}.__init__", [inst] + list(args), state, kwargs, {})
            if len(outs) == 1 and outs[0].kind == "return" and outs[0].state is state:
                return inst
            if len(outs) == 1 and outs[0].kind == "raise" and outs[0].state is state:
                raise _Raise(outs[0].value, state)
            raise _Unmodelled(f"constructor of {c.node.name} with several outcomes")
        if init is None and not args and not kwargs:
            return inst
        state.unfollowed.append(f"constructor of {c.node.name}")
        return Unknown(f"instance of class {c.node.name}")

    def call_closure(self, fn: ClosureV, args: List[Any], kwargs: Dict[str, Any], state: State, e: ast.AST) -> Any:
        if id(e) in state.call_memo:
            v = state.call_memo.pop(id(e))
            if isinstance(v, _RaiseMarker):
                raise _Raise(v.exc, state)
            return v
        nm_ = getattr(fn.node, "name", "<lambda>")
        outer = {k: v for k, v in fn.frame.items()}
        outs = self.run_node(fn.node, fn.rel, nm_, args, state, kwargs, outer, fn.raw)
        if len(outs) == 1:
            o = outs[0]
            if o.state is not state:
                state.become(o.state)
            if o.kind == "raise":
                raise _Raise(o.value, state)
            return o.value
        if not outs:
            raise _Unmodelled(f"call of {nm_} has no outcome")
        raise _Fork([(o.state, e, o.value if o.kind == "return" else _RaiseMarker(o.value)) for o in outs])

    # -- calls ------------------------------------------------------------------------
    def call(self, e: ast.Call, state: State, rel: str) -> Any:
        f = e.func
        # dict.fromkeys(xs): the distinct elements in first-seen order (what list() of it gives)
        if isinstance(f, ast.Attribute) and f.attr == "fromkeys" and isinstance(f.value, ast.Name) and f.value.id == "dict" and len(e.args) == 1 and not e.keywords:
            xs = self.eval(e.args[0], state, rel)
            if isinstance(xs, GenV):
                xs = self.materialise(xs, state)
            if isinstance(xs, ListV) and not xs.unknown and not xs.stores and not xs.unordered and all(not sg.binders and isinstance(sg.elem, Lin) for sg in xs.segs):
                uniq: List[Any] = []
                for sg in xs.segs:
                    seen = False
                    for u in uniq:
                        d_ = compare(sg.elem, "==", u)
                        if d_ is None:
                            return Unknown("dict.fromkeys of values whose equality is not decided")
                        if d_:
                            seen = True
                            break
                    if not seen:
                        uniq.append(sg.elem)
                return ListV([Seg(u) for u in uniq])
            return Unknown("dict.fromkeys of an unmodelled value")
        # method calls on lists
        if isinstance(f, ast.Attribute):
            recv = self.eval(f.value, state, rel)
            args = [self.eval(a, state, rel) for a in e.args]
            if e.keywords and isinstance(recv, (ListV, MapV)) and f.attr != "sort":
                # list / dict / set / deque method with keyword arguments (popitem(last=False), ...): not followed
                if isinstance(recv, ListV):
                    recv.unknown = recv.unknown or f"method .{f.attr} with keyword arguments"
                else:
                    recv.unknown = recv.unknown or f"method .{f.attr} with keyword arguments"
                state.unfollowed.append(f"method .{f.attr} with keyword arguments at {core.loc(rel, e)}")
                return Unknown(f"method .{f.attr} with keyword arguments")
            if isinstance(recv, ListV) and recv.unordered:
                if f.attr == "add" and len(args) == 1:
                    self.set_add(recv, args[0])
                    return NONE
                if f.attr == "update" and args:
                    for a_ in args:
                        if isinstance(a_, GenV):
                            a_ = self.materialise(a_, state)
                        its = self.plain_items(a_)
                        if its is None:
                            recv.unknown = "set.update with an unmodelled value"
                            return NONE
                        for x_ in its:
                            if not self.set_add(recv, x_):
                                return NONE
                    return NONE
                if f.attr in ("discard", "remove") and len(args) == 1 and self.plain_items(recv) is not None:
                    keep, hit, open_ = [], False, False
                    for sg in recv.segs:
                        r_ = self.value_eq(args[0], sg.elem)
                        if r_ is None:
                            open_ = True
                        if r_ is True:
                            hit = True
                        else:
                            keep.append(sg)
                    if open_:
                        recv.unknown = "set removal whose element is not decided"
                        return NONE
                    if not hit and f.attr == "remove":
                        raise _Raise(ExcV("KeyError", "set.remove of a missing element"), state)
                    recv.segs[:] = keep
                    return NONE
                if f.attr in ("difference_update", "intersection_update") and len(args) == 1:
                    other = args[0]
                    if isinstance(other, GenV):
                        other = self.materialise(other, state)
                    res_ = self.set_op(ast.Sub() if f.attr == "difference_update" else ast.BitAnd(), recv, other)
                    if isinstance(res_, ListV):
                        recv.segs[:] = res_.segs
                    else:
                        recv.unknown = f"set.{f.attr} not decided element by element"
                    return NONE
                if f.attr == "copy" and not args:
                    return ListV(list(recv.segs), recv.unknown, unordered=True)
                if f.attr in ("union", "difference", "intersection") and len(args) == 1:
                    op_ = {"union": ast.BitOr(), "difference": ast.Sub(), "intersection": ast.BitAnd()}[f.attr]
                    other = args[0]
                    if isinstance(other, GenV):
                        other = self.materialise(other, state)
                    return self.set_op(op_, recv, other)
                if f.attr in ("issubset", "issuperset") and len(args) == 1:
                    a_, b_ = (recv, args[0]) if f.attr == "issubset" else (args[0], recv)
                    return self.subset_of(a_, b_)
                recv.unknown = f"set method .{f.attr} not modelled"
                return Unknown(f"set method .{f.attr}")
            if isinstance(recv, ListV):
                if f.attr == "count" and len(args) == 1 and self.plain_items(recv) is not None:
                    n_, open_ = 0, False
                    for y_ in self.plain_items(recv):
                        r_ = self.value_eq(args[0], y_)
                        if r_ is None:
                            open_ = True
                        n_ += 1 if r_ else 0
                    return Unknown("list.count not decided") if open_ else Lin(n_)
                if f.attr == "copy" and not args and recv.alloc_len is None and not recv.stores:
                    return ListV(list(recv.segs), recv.unknown)
                if f.attr == "sort" and not args and self.plain_items(recv) is not None and not state.binders:
                    kw_ = {}
                    for k_ in e.keywords:
                        if k_.arg is None:
                            kw_ = None
                            break
                        kw_[k_.arg] = self.eval(k_.value, state, rel)
                    srt = self.builtin("sorted", [ListV(list(recv.segs))], kw_, state, e) if kw_ is not None else None
                    if isinstance(srt, ListV):
                        recv.segs[:] = srt.segs
                        state.effects.append(("sort", (recv,)))
                        return NONE
                if f.attr == "reverse" and not args and self.plain_items(recv) is not None and not state.binders:
                    recv.segs.reverse()
                    return NONE
                if f.attr == "clear" and not args and not state.binders and recv.alloc_len is None:
                    recv.segs.clear()
                    recv.stores.clear()
                    return NONE
                if f.attr == "pop" and len(args) <= 1 and self.plain_items(recv) is not None and not state.binders \
                        and (not args or (isinstance(args[0], Lin) and args[0].is_const())):
                    i_ = args[0].const if args else -1
                    if not recv.segs or not (-len(recv.segs) <= i_ < len(recv.segs)):
                        raise _Raise(ExcV("IndexError", "pop from empty list" if not recv.segs else "pop index out of range"), state)
                    return recv.segs.pop(i_).elem
                if f.attr == "popleft" and not args and self.plain_items(recv) is not None and not state.binders:
                    if not recv.segs:
                        raise _Raise(ExcV("IndexError", "pop from an empty deque"), state)
                    return recv.segs.pop(0).elem
                if f.attr == "appendleft" and len(args) == 1 and self.plain_items(recv) is not None and not state.binders:
                    recv.segs.insert(0, Seg(args[0]))
                    return NONE
                if f.attr == "insert" and len(args) == 2 and self.plain_items(recv) is not None and not state.binders \
                        and isinstance(args[0], Lin) and args[0].is_const():
                    recv.segs.insert(args[0].const, Seg(args[1]))
                    return NONE
                if f.attr == "append" and len(args) == 1:
                    recv.segs.append(Seg(args[0], state.binders))
                    state.effects.append(("append", (recv, args[0], state.binders)))
                    return NONE
                if f.attr == "extend" and len(args) == 1 and isinstance(args[0], TupleV):
                    args = [ListV([Seg(x) for x in args[0].items])]
                if f.attr == "extend" and len(args) == 1 and isinstance(args[0], MapV) and args[0].name is None and not args[0].unknown:
                    args = [ListV([Seg(self.thaw_key(k)) for k in args[0].entries])]
                if f.attr == "extend" and len(args) == 1 and isinstance(args[0], ListV):
                    args = [self.settle(args[0])]
                if f.attr == "extend" and len(args) == 1 and isinstance(args[0], ListV) and not args[0].unknown:
                    for s in args[0].segs:
                        recv.segs.append(Seg(s.elem, state.binders + s.binders))
                    return NONE
                if f.attr == "extend" and len(args) == 1 and isinstance(args[0], GenV):
                    args = [self.materialise(args[0], state)]
                    if isinstance(args[0], ListV) and not args[0].unknown:
                        for sg in args[0].segs:
                            recv.segs.append(Seg(sg.elem, state.binders + sg.binders))
                        return NONE
                if f.attr == "extend" and len(args) == 1 and isinstance(args[0], RangeV):
                    fams = self.families(args[0])
                    if fams is not None:
                        for el, bs in fams:
                            recv.segs.append(Seg(el, state.binders + tuple(bs)))
                        return NONE
                if not recv.unknown:
                    recv.unknown = f"list method .{f.attr} not modelled"
                return Unknown(f"list method .{f.attr}")
            if isinstance(recv, MapV):
                return self.map_method(recv, f.attr, args, state, e)
            if isinstance(recv, Lin) and f.attr == "bit_length" and not args:
                if recv.is_const():
                    return Lin(recv.const.bit_length())
                return Unknown("bit_length of a symbolic value")
            if isinstance(recv, (GenericList, TableV)):
                if f.attr in ("append", "extend", "insert", "pop", "remove", "clear", "sort", "reverse"):
                    state.effects.append(("mutates-input", f"{core.src(f.value)}.{f.attr}(...)"))
                return Unknown(f"method .{f.attr} on input list")
            if isinstance(recv, CellV) and f.attr == "get" and args and isinstance(args[0], StrV):
                return recv.fields.get(args[0].text, args[1] if len(args) > 1 else NONE)
            fr = self.attribute(recv, f.attr, state, f)
            if isinstance(fr, FuncRef):
                return self.call_ref(fr, args, {}, state, e, rel)
            if isinstance(fr, (ClosureV, BoundV)) and isinstance(recv, (InstV, ClassV)):
                kw_ = {}
                for k in e.keywords:
                    if k.arg is None:
                        state.unfollowed.append(f"call with **kwargs at {core.loc(rel, e)}")
                        return Unknown("**kwargs")
                    kw_[k.arg] = self.eval(k.value, state, rel)
                if isinstance(fr, BoundV):
                    return self.call_closure(fr.fn, [fr.first] + args, kw_, state, e)
                return self.call_closure(fr, args, kw_, state, e)
            state.unfollowed.append(f"method call .{f.attr} at {core.loc(rel, e)}")
            return Unknown(f"method call .{f.attr}")
        fn = self.eval(f, state, rel)
        args = []
        for a in e.args:
            if isinstance(a, ast.Starred):
                sv = self.eval(a.value, state, rel)
                if isinstance(sv, GenV):
                    sv = self.materialise(sv, state)
                its_ = list(sv.items) if isinstance(sv, TupleV) else (self.plain_items(sv) if isinstance(sv, ListV) and not sv.unordered else None)
                if its_ is None:
                    state.unfollowed.append(f"call with *args at {core.loc(rel, e)}")
                    return Unknown("star-args")
                args.extend(its_)
                continue
            args.append(self.eval(a, state, rel))
        kwargs = {}
        for k in e.keywords:
            if k.arg is None:
                kv = self.eval(k.value, state, rel)
                if not isinstance(kv, MapV) or kv.unknown or kv.factory or kv.name or not all(isinstance(k_, str) for k_ in kv.entries):
                    state.unfollowed.append(f"call with **kwargs at {core.loc(rel, e)}")
                    return Unknown("**kwargs")
                kwargs.update(kv.entries)
                continue
            kwargs[k.arg] = self.eval(k.value, state, rel)
        if isinstance(fn, FuncRef):
            return self.call_ref(fn, args, kwargs, state, e, rel)
        if isinstance(fn, ItemGetterV) and len(args) == 1 and not kwargs:
            got = [self.subscript(args[0], k, state, e, rel) for k in fn.keys]
            return got[0] if len(got) == 1 else TupleV(got)
        if isinstance(fn, BoundGetV) and len(args) == 1 and not kwargs:
            return self.subscript(fn.obj, args[0], state, e, rel)
        if isinstance(fn, ClosureV):
            return self.call_closure(fn, args, kwargs, state, e)
        if isinstance(fn, BoundV):
            return self.call_closure(fn.fn, [fn.first] + args, kwargs, state, e)
        if isinstance(fn, ClassV):
            return self.instantiate(fn, args, kwargs, state, e)
        state.unfollowed.append(f"call of {core.src(f)[:40]} at {core.loc(rel, e)}")
        return Unknown(f"call of {core.src(f)}")

    @staticmethod
    def float_floor(v: Any) -> Any:
        """floor / int() of  a / 2**k  for non-negative integers: exact below 2**53, otherwise the quotient of the ROUNDED dividend"""
        if isinstance(v, Lin):
            return v
        if isinstance(v, FloatV) and v.expr[0] == "Div" and v.expr[1][0] == "int" and v.expr[2][0] == "int":
            l, r = v.expr[1][1], v.expr[2][1]
            if isinstance(l, Lin) and isinstance(r, Lin) and r.is_const() and r.const > 0 and is_pow2(r.const):
                lo, hi = l.rng()
                if lo is not None and lo >= 0:
                    k = r.const.bit_length() - 1
                    if hi is not None and hi < (1 << 53):
                        return floordiv(l, r.const)
                    return Lin.of(FltDivA(l, k))
        return None

    def apply_value(self, fn: Any, args: List[Any], state: State, node: ast.AST, rel: str) -> Any:
        """calls a function VALUE (named function, nested function / lambda, itemgetter) from inside a builtin such as
        sorted(key=) or groupby(key=); only single-outcome calls are followed"""
        if isinstance(fn, FuncRef):
            return self.call_ref(fn, args, {}, state, node, rel)
        if isinstance(fn, ItemGetterV) and len(args) == 1:
            got = [self.subscript(args[0], k, state, node, rel) for k in fn.keys]
            return got[0] if len(got) == 1 else TupleV(got)
        if isinstance(fn, BoundGetV) and len(args) == 1:
            return self.subscript(fn.obj, args[0], state, node, rel)
        if isinstance(fn, BoundV):
            return self.apply_value(fn.fn, [fn.first] + list(args), state, node, rel)
        if isinstance(fn, ClosureV):
            nm_ = getattr(fn.node, "name", "<lambda>")
            outs = self.run_node(fn.node, fn.rel, nm_, list(args), state, {}, dict(fn.frame), fn.raw)
            if len(outs) == 1 and outs[0].kind == "return" and outs[0].state is state:
                return outs[0].value
            raise _Unmodelled(f"callback {nm_} with several outcomes")
        return Unknown("call of a value that is not a function of the repository")

    def call_ref(self, fn: FuncRef, args: List[Any], kwargs: Dict[str, Any], state: State, node: ast.Call, rel: str) -> Any:
        if fn.module == "<builtin>":
            return self.builtin(fn.name, args, kwargs, state, node)
        if fn.module == "<math>" and fn.name in ("floor", "trunc") and len(args) == 1 and not kwargs:
            v = self.float_floor(args[0])
            if v is not None:
                return v
        if fn.module == "<operator>" and fn.name in ("index", "pos") and len(args) == 1 and isinstance(args[0], Lin):
            return args[0]
        if fn.module == "<math>" and fn.name == "prod" and 1 <= len(args) <= 2 and set(kwargs) <= {"start"}:
            xs = args[0]
            if isinstance(xs, GenV):
                xs = self.materialise(xs, state)
            its = self.plain_items(xs)
            acc = kwargs.get("start", args[1] if len(args) == 2 else Lin(1))
            if its is None or not isinstance(acc, Lin) or not all(isinstance(x, Lin) for x in its):
                return Unknown("math.prod of a sequence that is not known element by element")
            for x in its:
                acc = self.binop(ast.Mult(), acc, x, state, node)
                if not isinstance(acc, Lin):
                    return Unknown("math.prod: product of two symbolic values")
            return acc
        if fn.module == "<functools>" and fn.name == "reduce" and 2 <= len(args) <= 3 and not kwargs:
            xs = args[1]
            if isinstance(xs, GenV):
                xs = self.materialise(xs, state)
            its = self.plain_items(xs)
            if its is None or (not its and len(args) < 3):
                return Unknown("reduce over a sequence that is not known element by element")
            acc = args[2] if len(args) == 3 else its[0]
            for x in (its if len(args) == 3 else its[1:]):
                acc = self.apply_value(args[0], [acc, x], state, node, rel)
            return acc
        if fn.module == "<operator>" and fn.name in ("mul", "add", "sub", "floordiv", "mod", "lshift", "rshift", "and_", "or_", "xor") and len(args) == 2 and not kwargs:
            op_ = {"mul": ast.Mult, "add": ast.Add, "sub": ast.Sub, "floordiv": ast.FloorDiv, "mod": ast.Mod, "lshift": ast.LShift,
                   "rshift": ast.RShift, "and_": ast.BitAnd, "or_": ast.BitOr, "xor": ast.BitXor}[fn.name]()
            return self.binop(op_, args[0], args[1], state, node)
        if fn.module == "<itertools>" and fn.name == "groupby" and 1 <= len(args) <= 2 and set(kwargs) <= {"key"}:
            xs = args[0]
            if isinstance(xs, GenV):
                xs = self.materialise(xs, state)
            its = self.plain_items(xs)
            kf = kwargs.get("key", args[1] if len(args) == 2 else None)
            if its is None or (isinstance(xs, ListV) and xs.unordered and len(its) > 1):
                return Unknown("groupby over a sequence that is not known element by element")
            groups: List[Tuple[Any, List[Any]]] = []
            for x in its:
                kv = x if kf is None or isinstance(kf, NoneV) else self.apply_value(kf, [x], state, node, rel)
                if groups:
                    same = self.value_eq(groups[-1][0], kv)
                    if same is None:
                        return Unknown("groupby: equality of two neighbouring keys not decided")
                    if same:
                        groups[-1][1].append(x)
                        continue
                groups.append((kv, [x]))
            return ListV([Seg(TupleV([k_, GenV(None, items=ListV([Seg(y) for y in ys]))])) for k_, ys in groups])
        if fn.module == "<itertools>" and fn.name == "chain" and not kwargs:
            out_: List[Seg] = []
            for a_ in args:
                if isinstance(a_, GenV):
                    a_ = self.materialise(a_, state)
                its = self.plain_items(a_)
                if its is None or (isinstance(a_, ListV) and a_.unordered and len(its) > 1):
                    return Unknown("chain over a sequence that is not known element by element")
                out_.extend(Seg(x) for x in its)
            return ListV(out_)
        if fn.module == "<collections>" and fn.name == "deque" and len(args) <= 1 and not kwargs:
            if not args:
                return ListV([])
            xs = args[0]
            if isinstance(xs, GenV):
                xs = self.materialise(xs, state)
            its = self.plain_items(xs)
            if its is None or (isinstance(xs, ListV) and xs.unordered and len(its) > 1):
                return Unknown("deque of a sequence that is not known element by element")
            return ListV([Seg(x) for x in its])
        if fn.module == "<collections>" and fn.name == "Counter" and len(args) <= 1 and not kwargs:
            m_ = MapV({}, factory="int")
            if args:
                xs = args[0]
                if isinstance(xs, GenV):
                    xs = self.materialise(xs, state)
                its = self.plain_items(xs)
                if its is None or (isinstance(xs, ListV) and xs.unordered and len(its) > 1):
                    return Unknown("Counter over a sequence that is not known element by element")
                for x in its:
                    k_ = self.key_for(m_, x)
                    if k_ is _MISSING:
                        return Unknown("Counter: equality of two elements not decided")
                    m_.entries[k_] = m_.entries.get(k_, Lin(0)) + 1
            return m_
        if fn.module == "<collections>" and fn.name == "defaultdict" and len(args) == 1 and not kwargs and isinstance(args[0], FuncRef) \
                and args[0].module == "<builtin>" and args[0].name in ("list", "set", "int"):
            return MapV({}, factory=args[0].name)
        if fn.module == "<operator>" and fn.name == "itemgetter" and args and not kwargs and all(isinstance(a, StrV) or (isinstance(a, Lin) and a.is_const()) for a in args):
            return ItemGetterV(list(args))
        if fn.module.startswith("<"):
            state.unfollowed.append(f"{fn.module}.{fn.name}")
            return Unknown(f"{fn.module}.{fn.name}")
        hook = self.call_hooks.get(fn.name)
        if hook is not None:
            r = hook(self, fn, args, kwargs, state, node)
            if r is not NotImplemented:
                return r
        # inline
        if id(node) in state.call_memo:
            v = state.call_memo.pop(id(node))
            if isinstance(v, _RaiseMarker):
                raise _Raise(v.exc, state)
            return v
        self.trace_calls.append(fn.name)
        try:
            fnode = self.sources.func(fn.module, fn.name)
        except Exception:
            fnode = None
        if fnode is not None and any(isinstance(n_, (ast.Yield, ast.YieldFrom)) for b_ in fnode.body for n_ in ast.walk(b_)
                                     if not isinstance(b_, (ast.FunctionDef, ast.ClassDef))):
            # a generator function: its body runs when the result is consumed; for a body that only depends on its arguments that
            # is the same as running it now and handing out the values one by one (once)
            state.yields.append(ListV([]))
            try:
                outs = self.run_function(fn.module, fn.name, args, state, kwargs)
            finally:
                pass
            if len(outs) == 1 and outs[0].kind == "return":
                o = outs[0]
                if o.state is not state:
                    state.become(o.state)
                items = state.yields.pop() if state.yields else ListV([])
                return GenV(None, items=items)
            if state.yields:
                state.yields.pop()
            return Unknown("generator function with several outcomes")
        outs = self.run_function(fn.module, fn.name, args, state, kwargs)
        if len(outs) == 1:
            o = outs[0]
            if o.state is not state:
                state.become(o.state)
            if o.kind == "raise":
                raise _Raise(o.value, state)
            return o.value
        if not outs:
            raise _Unmodelled(f"call of {fn.name} has no outcome")
        raise _Fork([(o.state, node, o.value if o.kind == "return" else _RaiseMarker(o.value)) for o in outs])

    def builtin(self, name: str, args: List[Any], kwargs: Dict[str, Any], state: State, node: ast.Call) -> Any:
        if name in ("list", "tuple", "set", "frozenset", "sorted", "sum", "max", "min", "iter", "enumerate", "reversed", "any", "all", "zip") and args:
            args = [self.settle(a) for a in args]
        kw_read = {"sorted": {"key", "reverse"}, "max": {"default"}, "min": {"default"}, "enumerate": {"start"}, "sum": {"start"},
                   "int": {"base"}}
        if kwargs and name != "A5Cell" and name not in ("ValueError", "TypeError", "IndexError", "Exception", "RuntimeError", "OverflowError") \
                and not set(kwargs) <= kw_read.get(name, set()):
            state.unfollowed.append(f"{name}() with keyword arguments {sorted(kwargs)}")
            return Unknown(f"{name}() with keyword arguments {sorted(kwargs)} that are not modelled")
        if name == "A5Cell":
            return CellV(dict(kwargs))
        if name in ("max", "min") and len(args) == 1 and set(kwargs) <= {"default"}:
            a0 = args[0]
            if isinstance(a0, GenV):
                a0 = self.materialise(a0, state)
            if isinstance(a0, MapV) and a0.name is None and not a0.unknown:
                a0 = ListV([Seg(self.thaw_key(k)) for k in a0.entries])
            its = self.plain_items(a0)
            if its is None or not all(isinstance(x, Lin) for x in its):
                return Unknown(f"{name} of a sequence that is not known element by element")
            if not its:
                if "default" in kwargs:
                    return kwargs["default"]
                raise _Raise(ExcV("ValueError", f"{name}() arg is an empty sequence"), state)
            if len(its) == 1:
                return its[0]
            args, kwargs = its, {}
        if name in ("max", "min") and len(args) >= 2 and all(isinstance(a, Lin) for a in args):
            best = args[0]
            for a in args[1:]:
                d = compare(a, ">" if name == "max" else "<", best)
                if d is None:
                    los = [x.rng()[0] for x in args]
                    his = [x.rng()[1] for x in args]
                    lo = None if None in los else (max(los) if name == "max" else min(los))
                    hi = None if None in his else (max(his) if name == "max" else min(his))
                    return Lin.of(Opaque(f"{name}({', '.join(map(str, args))})", lo, hi))
                if d:
                    best = a
            return best
        if name == "len" and len(args) == 1 and isinstance(args[0], MapV):
            return Lin(len(args[0].entries)) if not self.saturated and not args[0].unknown else Unknown("size of a table filled by earlier calls")
        if name == "len" and len(args) == 1:
            a = args[0]
            if isinstance(a, ListV):
                n = a.length()
                if n is not None:
                    if a.alloc_len is not None:
                        return a.alloc_len
                    return Lin(n)
                return Unknown("len of unknown list")
            if isinstance(a, TableV):
                return Lin(a.length)
            if isinstance(a, GenericList):
                return a.length if a.length is not None else Lin.of(Sym(f"len({a.name})", 0, None))
            if isinstance(a, TupleV):
                return Lin(len(a.items))
            return Unknown("len")
        if name == "range":
            if all(isinstance(a, Lin) for a in args):
                if len(args) == 1:
                    return RangeV(Lin(0), args[0])
                if len(args) == 2:
                    return RangeV(args[0], args[1])
                if len(args) == 3 and args[2].is_const() and args[2].const < 0 and args[0].is_const() and args[1].is_const() \
                        and len(range(args[0].const, args[1].const, args[2].const)) <= 64:
                    return ListV([Seg(Lin(i)) for i in range(args[0].const, args[1].const, args[2].const)])
                if len(args) == 3 and args[2].is_const() and args[2].const > 0:
                    span = args[1] - args[0]
                    if span.is_const():
                        n = max(0, -(-span.const // args[2].const))
                        return RangeV(args[0], args[1], args[2].const, n)
            return Unknown("range")
        if name in ("sorted", "tuple", "set", "frozenset") and len(args) == 1 and isinstance(args[0], RangeV) and args[0].count is None \
                and args[0].lo.is_const() and args[0].hi.is_const() and args[0].hi.const - args[0].lo.const <= 64 and state.binders == ():
            args = [ListV([Seg(Lin(i_)) for i_ in range(args[0].lo.const, args[0].hi.const, args[0].step)])]
        if name == "sorted" and len(args) == 1 and isinstance(args[0], GenV):
            args = [self.materialise(args[0], state)]
        if name in ("any", "all") and len(args) == 1 and not kwargs:
            xs = args[0]
            if isinstance(xs, GenV):
                xs = self.materialise(xs, state)
            its = self.plain_items(xs)
            if its is None:
                return Unknown(f"{name}() of a sequence that is not known element by element")
            open_ = False
            for x in its:
                if isinstance(x, Lin) and x.is_const():
                    x = x.const != 0
                if isinstance(x, NoneV):
                    x = False
                if not isinstance(x, bool):
                    open_ = True
                    continue
                if x == (name == "any"):
                    if open_:
                        break
                    return name == "any"
            if open_:
                return Unknown(f"{name}() of conditions that are not decided")
            return name != "any"
        if name in ("set", "frozenset") and not args and not kwargs:
            return ListV([], unordered=True)
        if name == "dict" and not args and not kwargs:
            return MapV({})
        if name in ("set", "frozenset") and len(args) == 1 and not kwargs and isinstance(args[0], GenV):
            args = [self.materialise(args[0], state)]
        if name in ("set", "frozenset") and len(args) == 1 and not kwargs and isinstance(args[0], TupleV):
            args = [ListV([Seg(x) for x in args[0].items])]
        if name in ("set", "frozenset", "list", "tuple", "sorted") and len(args) == 1 and isinstance(args[0], MapV) and args[0].name is None and not args[0].unknown:
            args = [ListV([Seg(self.thaw_key(k)) for k in args[0].entries])]
        if name in ("set", "frozenset") and len(args) == 1 and not kwargs and isinstance(args[0], ListV) and not args[0].unknown \
                and not args[0].stores and all(not sg.binders and isinstance(sg.elem, Lin) for sg in args[0].segs):
            uniq: List[Any] = []
            for sg in args[0].segs:
                dup = False
                for u in uniq:
                    d_ = compare(sg.elem, "==", u)
                    if d_ is None:
                        return Unknown("set of values whose equality is not decided")
                    if d_:
                        dup = True
                        break
                if not dup:
                    uniq.append(sg.elem)
            return ListV([Seg(u) for u in uniq], unordered=True)
        if name == "sorted" and len(args) == 1 and isinstance(args[0], ListV) and not args[0].unknown and not args[0].stores \
                and all(not sg.binders and isinstance(sg.elem, (Lin, TupleV)) for sg in args[0].segs) and set(kwargs) <= {"key", "reverse"}:
            elems = [sg.elem for sg in args[0].segs]
            keys = elems
            kf = kwargs.get("key")
            if kf is not None:
                if not isinstance(kf, (FuncRef, ClosureV, ItemGetterV, BoundGetV)):
                    return Unknown("sorted with a key that is not a function of the repository")
                keys = []
                for x in elems:
                    kv = self.apply_value(kf, [x], state, node, "")
                    if not isinstance(kv, (Lin, TupleV)):
                        return Unknown("sort key not determined")
                    keys.append(kv)
            rev = kwargs.get("reverse", False)
            if not isinstance(rev, bool):
                return Unknown("sorted with an undecided reverse flag")
            order: List[int] = []
            for i_, k_ in enumerate(keys):        # stable insertion sort on decided comparisons
                pos = len(order)
                for j_, o_ in enumerate(order):
                    lt = self.order_lt(k_, keys[o_]) if not rev else self.order_lt(keys[o_], k_)
                    if lt is None:
                        return Unknown("sorted: order of two elements not decided")
                    if lt:
                        pos = j_
                        break
                order.insert(pos, i_)
            return ListV([Seg(elems[i_]) for i_ in order])
        if name == "sum" and len(args) == 1 and set(kwargs) == {"start"}:
            args, kwargs = [args[0], kwargs["start"]], {}
        if name == "sum" and len(args) in (1, 2) and not kwargs:
            a0 = args[0]
            if isinstance(a0, GenV):
                saved_u, saved_U = self.unroll_ranges, self.UNROLL
                self.unroll_ranges = self.UNROLL = 64
                try:
                    a0 = self.materialise(a0, state)
                finally:
                    self.unroll_ranges, self.UNROLL = saved_u, saved_U
            if isinstance(a0, ListV) and not a0.unknown and not a0.stores and all(not sg.binders and isinstance(sg.elem, Lin) for sg in a0.segs):
                tot = args[1] if len(args) == 2 and isinstance(args[1], Lin) else Lin(0)
                for sg in a0.segs:
                    tot = tot + sg.elem
                return tot
            return Unknown("sum of an unmodelled sequence")
        if name == "reversed" and len(args) == 1 and not kwargs:
            xs = args[0]
            if isinstance(xs, GenV):
                return Unknown("reversed() of a generator")          # (a TypeError in Python; not followed)
            if isinstance(xs, TupleV):
                return GenV(None, items=ListV([Seg(x) for x in reversed(xs.items)]))
            if isinstance(xs, RangeV):
                xs = self.builtin("list", [xs], {}, state, node)
            its = self.plain_items(xs) if isinstance(xs, ListV) and not xs.unordered else None
            if its is None:
                return Unknown("reversed() of a sequence that is not known element by element")
            return GenV(None, items=ListV([Seg(x) for x in reversed(its)]))
        if name == "iter" and len(args) == 1 and not kwargs:
            a0 = args[0]
            if isinstance(a0, GenV):
                return a0
            if isinstance(a0, TupleV):
                return GenV(None, items=ListV([Seg(x) for x in a0.items]))
            if isinstance(a0, ListV) and not a0.unknown:
                return GenV(None, items=ListV(list(a0.segs)))
            return Unknown("iter() of an unmodelled value")
        if name == "tuple" and len(args) == 1 and isinstance(args[0], GenV) and not kwargs:
            # a table built once from a small range: follow it element by element
            saved_u, saved_U = self.unroll_ranges, self.UNROLL
            self.unroll_ranges = self.UNROLL = 64
            try:
                lst = self.materialise(args[0], state)
            finally:
                self.unroll_ranges, self.UNROLL = saved_u, saved_U
            if isinstance(lst, ListV) and not lst.unknown and not lst.stores and all(not sg.binders for sg in lst.segs):
                return TupleV([sg.elem for sg in lst.segs])
            return Unknown("tuple of a generator that is not followed element by element")
        if name in ("list", "sorted") and len(args) == 1 and isinstance(args[0], GenV) and not kwargs:
            args = [self.materialise(args[0], state)]
        if name == "list" and len(args) == 1 and isinstance(args[0], RangeV) and args[0].count is not None:
            fams = self.families(args[0])
            return ListV([Seg(el, tuple(bs)) for el, bs in fams])
        if name == "list" and len(args) == 1:
            a = args[0]
            if isinstance(a, RangeV) and a.lo.is_const() and a.hi.is_const():
                n = a.hi.const - a.lo.const
                if n <= 0:
                    return ListV([])
                b = Sym(f"s{next(self.fresh)}", 0, n - 1)
                return ListV([Seg(Lin.of(b) + a.lo.const, ((b, n),))])
            if isinstance(a, ListV) and a.unordered and len(a.segs) > 1 and self.set_order is not None and not a.unknown \
                    and not any(sg.binders for sg in a.segs):
                # list(a_set): a list in the set's iteration order (scenario device: the run is repeated with the opposite order)
                self.set_iterations += 1
                segs_ = [Seg(s.elem, s.binders) for s in a.segs]
                return ListV(segs_ if self.set_order == "insertion" else list(reversed(segs_)))
            if isinstance(a, ListV):
                return ListV([Seg(s.elem, s.binders) for s in a.segs], a.unknown, list(a.stores), a.alloc_len, a.alloc_elem,
                             a.unordered and len(a.segs) > 1)
            if isinstance(a, TableV):
                return a
            return Unknown("list()")
        if name == "enumerate" and 1 <= len(args) <= 2 and set(kwargs) <= {"start"} and not (len(args) == 2 and kwargs):
            start = 0
            sv = args[1] if len(args) == 2 else kwargs.get("start")
            if sv is not None:
                if isinstance(sv, Lin) and sv.is_const():
                    start = sv.const
                else:
                    return Unknown("enumerate start")
            return EnumV(args[0], start)
        if name == "divmod" and len(args) == 2 and isinstance(args[0], Lin) and isinstance(args[1], Lin) and args[1].is_const() and args[1].const > 0:
            return TupleV([floordiv(args[0], args[1].const), mod(args[0], args[1].const)])
        if name == "int" and len(args) == 1 and isinstance(args[0], Lin):
            return args[0]
        if name == "int" and len(args) == 1 and isinstance(args[0], FloatV) and self.float_floor(args[0]) is not None:
            return self.float_floor(args[0])
        if name == "abs" and len(args) == 1 and isinstance(args[0], Lin):
            lo, hi = args[0].rng()
            if lo is not None and lo >= 0:
                return args[0]
            if hi is not None and hi <= 0:
                return -args[0]
            return Unknown("abs of sign-unknown value")
        if name == "cast" and len(args) == 2:
            return args[1]
        if name in ("ValueError", "TypeError", "IndexError", "Exception", "RuntimeError", "OverflowError"):
            return ExcV(name, core.src(node))
        def type_name(v):
            if isinstance(v, bool):
                return "bool"
            if isinstance(v, Lin):
                return "int"
            if isinstance(v, FloatV):
                return "float"
            if isinstance(v, StrV):
                return "str"
            if isinstance(v, NoneV):
                return "NoneType"
            if isinstance(v, (ListV, GenericList, WindowListV)):
                return "list"
            if isinstance(v, TupleV):
                return "tuple"
            if isinstance(v, (CellV, MapV)):
                return "dict"
            return None
        if name == "type" and len(args) == 1:
            tn = type_name(args[0])
            return FuncRef("<builtin>", tn) if tn else Unknown("type() of an unmodelled value")
        if name == "isinstance" and len(args) == 2:
            tn = type_name(args[0])
            cands = args[1].items if isinstance(args[1], TupleV) else [args[1]]
            if tn and all(isinstance(c, FuncRef) and c.module == "<builtin>" for c in cands):
                names = {c.name for c in cands}
                if tn in names or (tn == "bool" and "int" in names):
                    return True
                if names <= {"int", "float", "str", "list", "tuple", "dict", "bool", "bytes", "set", "frozenset", "complex"}:
                    return False
            return Unknown("isinstance")
        if name == "isinstance":
            return Unknown("isinstance")
        return Unknown(f"builtin {name}")


_MISSING = object()


class _Raise(Exception):
    def __init__(self, exc: ExcV, state: Optional[State] = None):
        self.exc = exc
        self.state = state


class _RaiseMarker:
    def __init__(self, exc):
        self.exc = exc


class _Fork(Exception):
    def __init__(self, alternatives):
        self.alternatives = alternatives


class _Unmodelled(Exception):
    pass


def _min(a, b):
    if a is None:
        return b
    if b is None:
        return a
    return min(a, b)


def _max(a, b):
    if a is None:
        return b
    if b is None:
        return a
    return max(a, b)


def _assigned_names(stmts: List[ast.stmt]) -> List[str]:
    out = []
    for st in stmts:
        for n in ast.walk(st):
            if isinstance(n, ast.Name) and isinstance(n.ctx, ast.Store) and n.id not in out:
                out.append(n.id)
    return out


def _target_names(t: ast.expr) -> List[str]:
    return [n.id for n in ast.walk(t) if isinstance(n, ast.Name)]


def _same_value(a: Any, b: Any) -> bool:
    if a is b:
        return True
    if isinstance(a, Lin) and isinstance(b, Lin):
        return a == b
    if isinstance(a, bool) and isinstance(b, bool):
        return a == b
    return False


def _read_before_write(stmts: List[ast.stmt], name: str) -> bool:
    """Conservative: is `name` possibly read in the loop body before being (re)assigned?"""
    for st in stmts:
        reads = [n for n in ast.walk(st) if isinstance(n, ast.Name) and n.id == name and isinstance(n.ctx, ast.Load)]
        writes = [n for n in ast.walk(st) if isinstance(n, ast.Name) and n.id == name and isinstance(n.ctx, ast.Store)]
        if isinstance(st, ast.AugAssign) and isinstance(st.target, ast.Name) and st.target.id == name:
            return True
        if reads:
            return True
        if writes and isinstance(st, (ast.Assign, ast.AnnAssign)):
            return False
    return False
