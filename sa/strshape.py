"""E7 -- string-shape abstract domain for int <-> text conversions.

Abstract values
---------------
IntV(lo, hi)            an integer known to lie in [lo, hi]
StrV(...)               the text of a non-negative integer, described by
                          base, case, prefix, sign, zero padding, "digits are minimal",
                          "may be empty", "leading digits dropped"
TextV(...)              an *input* text known to be a hexadecimal numeral in the liberal
                          form the property talks about (either case, leading zeros)
ParsedV(...)            result of parsing such a text
TOP                     anything else (-> obligation undecided)

The transfer functions follow the CPython language reference for ``hex``, ``oct``,
``bin``, ``str``, ``format``/f-string/``%`` format specs, slicing with constant bounds
and the ``str`` methods that occur in such one-liners.  Nothing is executed.
"""
from __future__ import annotations

import ast
from dataclasses import dataclass, replace
from typing import Dict, List, Optional, Tuple


class Top:
    def __init__(self, why: str):
        self.why = why

    def __repr__(self):
        return f"TOP({self.why})"


class Raises(Top):
    """the expression raises for a VALID input (the witness), although the property requires a value: a definite defect, unlike
    Top (which only says that the value is not followed)"""

    def __init__(self, why: str, witness: str):
        super().__init__(why)
        self.witness = witness

    def __repr__(self):
        return f"RAISES({self.why}; e.g. {self.witness!r})"


@dataclass(frozen=True)
class StructV:
    """struct.Struct(fmt) with one unsigned big-endian field"""
    size: int


@dataclass(frozen=True)
class IntV:
    lo: int
    hi: int


@dataclass(frozen=True)
class BytesV:
    """big-endian bytes of an int: `fixed` bytes wide, or (fixed None) as many bytes as the value needs"""
    src: IntV
    fixed: Optional[int]
    order: str = "big"


@dataclass(frozen=True)
class BitLenV:
    """value.bit_length() and the byte count derived from it: (bit_length + 7) // 8"""
    src: IntV
    bytes_needed: bool = False


@dataclass(frozen=True)
class ConstStr:
    s: str


@dataclass(frozen=True)
class StrV:
    base: int
    case: str            # 'lower' | 'upper' | 'na' (no letters possible)
    prefix: str          # literal text in front of the digits ('0x', '', 'x', ...)
    sign: str            # '' | '+' | ' '  (a sign character that is always present)
    pad: int             # minimum width through zero/space padding (0 = none)
    padchar: str
    minimal: bool        # digits are the minimal representation ('0' for zero)
    may_be_empty: bool   # the digit part can be the empty string for some value
    dropped: int         # number of leading *digits* removed by slicing (>0 = information lost)
    suffix: str          # literal text after the digits
    lo: int
    hi: int
    history: Tuple[str, ...] = ()

    def note(self, what: str) -> "StrV":
        return replace(self, history=self.history + (what,))


@dataclass(frozen=True)
class TextV:
    """Input text of the parser: a hexadecimal numeral, either case, leading zeros allowed,
    never empty, no prefix."""
    case_folded: Optional[str] = None   # None | 'lower' | 'upper'
    may_be_empty: bool = False
    prefix: str = ""
    history: Tuple[str, ...] = ()
    parity: Optional[str] = None        # None (any length) | 'even' | 'odd'  -- what a test on len(text) & 1 has established
    len_lo: int = 1                     # what tests on len(text) have established
    len_hi: Optional[int] = None
    digits_only: Optional[bool] = None  # text.isdigit() known true / false
    as_bytes: bool = False              # bytes.fromhex(text): the same digits, two per byte
    zfill: int = 0                      # the value is text.zfill(zfill): at least that many characters, the numeral unchanged


def witness_with_length(t: "TextV", want) -> Optional[str]:
    """a valid numeral allowed by `t` whose length AFTER the zero-fill satisfies `want(length)`"""
    hi = t.len_hi if t.len_hi is not None else max(t.len_lo, t.zfill) + 6
    for n in range(t.len_lo, hi + 1):
        if (t.parity == "even" and n % 2) or (t.parity == "odd" and n % 2 == 0):
            continue
        if want(max(n, t.zfill)):
            w = text_witness(replace(t, len_lo=n, len_hi=n, zfill=0))
            if w is not None:
                return w
    return None


def text_witness(t: "TextV") -> Optional[str]:
    """a valid hexadecimal numeral that satisfies what the path has established about the text (None if there is none)"""
    n = t.len_lo
    if t.parity == "even" and n % 2:
        n += 1
    if t.parity == "odd" and n % 2 == 0:
        n += 1
    if t.len_hi is not None and n > t.len_hi:
        return None
    if t.digits_only:
        return ("0" * (n - 2) + "10") if n >= 2 else "7"
    body = ("0" * (n - 1) + "f") if n > 16 else "f" * n
    return body


@dataclass(frozen=True)
class ParsedV:
    base: Optional[int]   # base given to int(); None = default (10)
    text: TextV
    mask_bits: Optional[int] = None   # result reduced modulo 2**mask_bits
    history: Tuple[str, ...] = ()


_BASE_OF = {"x": (16, "lower"), "X": (16, "upper"), "d": (10, "na"), "o": (8, "na"),
            "b": (2, "na"), "n": (10, "na"), "": (10, "na")}


def _parse_spec(spec: str):
    """[[fill]align][sign][z][#][0][width][grouping][.precision][type] -> dict or None"""
    i = 0
    fill, align = None, None
    if len(spec) >= 2 and spec[1] in "<>=^":
        fill, align = spec[0], spec[1]
        i = 2
    elif len(spec) >= 1 and spec[0] in "<>=^":
        align = spec[0]
        i = 1
    sign = ""
    if i < len(spec) and spec[i] in "+- ":
        sign = spec[i]
        i += 1
    alt = False
    if i < len(spec) and spec[i] == "#":
        alt = True
        i += 1
    zero = False
    if i < len(spec) and spec[i] == "0":
        zero = True
        i += 1
    w = ""
    while i < len(spec) and spec[i].isdigit():
        w += spec[i]
        i += 1
    grouping = ""
    if i < len(spec) and spec[i] in "_,":
        grouping = spec[i]
        i += 1
    typ = spec[i:] if i < len(spec) else ""
    if typ not in _BASE_OF:
        return None
    return dict(fill=fill, align=align, sign=sign, alt=alt, zero=zero,
                width=int(w) if w else 0, grouping=grouping, typ=typ)


def format_int(v: IntV, spec: str, how: str):
    p = _parse_spec(spec)
    if p is None:
        return Top(f"format spec {spec!r} not modelled")
    base, case = _BASE_OF[p["typ"]]
    prefix = ""
    if p["alt"] and base != 10:
        prefix = {16: "0x" if case == "lower" else "0X", 8: "0o", 2: "0b"}[base]
    sign = p["sign"] if p["sign"] in "+ " else ""
    pad, padchar = 0, ""
    if p["width"]:
        pad = p["width"]
        padchar = "0" if (p["zero"] or p["fill"] == "0") else (p["fill"] or " ")
    s = StrV(base, case, prefix, sign, pad, padchar, True, False, 0, "", v.lo, v.hi)
    if p["grouping"]:
        s = replace(s, suffix=s.suffix, minimal=False).note(f"{how}: digit grouping {p['grouping']!r}")
        return replace(s, prefix=s.prefix + "<grouped>")
    return s.note(f"{how} with spec {spec!r}")


def builtin_conv(name: str, v: IntV):
    if name == "hex":
        return StrV(16, "lower", "0x", "", 0, "", True, False, 0, "", v.lo, v.hi, ("hex()",))
    if name == "oct":
        return StrV(8, "na", "0o", "", 0, "", True, False, 0, "", v.lo, v.hi, ("oct()",))
    if name == "bin":
        return StrV(2, "na", "0b", "", 0, "", True, False, 0, "", v.lo, v.hi, ("bin()",))
    if name in ("str", "repr"):
        return StrV(10, "na", "", "", 0, "", True, False, 0, "", v.lo, v.hi, (f"{name}()",))
    return Top(f"builtin {name} not modelled")


def slice_from(s: StrV, k: int):
    """s[k:] with constant k >= 0"""
    if k < 0:
        return Top("negative slice bound")
    if s.pad:
        return Top("slice of padded text")
    lead = s.sign + s.prefix
    if k <= len(lead):
        rest = lead[k:]
        # the sign is in front of the prefix; after cutting k characters what remains is literal text
        return replace(s, sign="", prefix=rest).note(f"[{k}:] removes {lead[:k]!r}")
    return replace(s, sign="", prefix="", dropped=s.dropped + (k - len(lead)), minimal=False).note(
        f"[{k}:] removes {lead!r} and {k - len(lead)} leading digit(s)")


def str_method(s, meth: str, args: List[object]):
    if isinstance(s, StrV):
        if meth == "lower":
            return replace(s, case="lower" if s.case != "na" else "na", prefix=s.prefix.lower()).note(".lower()")
        if meth == "upper":
            return replace(s, case="upper" if s.case != "na" else "na", prefix=s.prefix.upper()).note(".upper()")
        if meth in ("strip", "rstrip") and not args:
            return s.note(f".{meth}()")
        if meth == "lstrip" and not args:
            if s.sign == " ":
                return replace(s, sign="").note(".lstrip()")
            return s.note(".lstrip()")
        if meth == "lstrip" and len(args) == 1 and isinstance(args[0], ConstStr):
            chars = args[0].s
            lead = s.sign + s.prefix
            j = 0
            while j < len(lead) and lead[j] in chars:
                j += 1
            out = replace(s, sign="", prefix=lead[j:])
            if j == len(lead) and "0" in chars and not s.pad:
                # strips leading zero digits: minimal digits of n>0 have none, but '0' becomes ''
                if s.lo <= 0:
                    out = replace(out, may_be_empty=True)
                if set(chars) - {"0"} and any(c in "123456789abcdefABCDEF" for c in chars):
                    out = replace(out, dropped=out.dropped + 1, minimal=False)
            elif j == len(lead) and s.pad and s.padchar in chars:
                out = replace(out, pad=0, padchar="", may_be_empty=out.may_be_empty or (s.lo <= 0 and "0" in chars))
            return out.note(f".lstrip({chars!r})")
        if meth == "removeprefix" and len(args) == 1 and isinstance(args[0], ConstStr):
            p = args[0].s
            lead = s.sign + s.prefix
            if lead.startswith(p) and lead:
                return replace(s, sign="", prefix=lead[len(p):]).note(f".removeprefix({p!r})")
            if not lead and not p:
                return s
            if lead and not lead.startswith(p):
                return s.note(f".removeprefix({p!r}) (no effect)")
            return Top("removeprefix on digits")
        if meth == "replace" and len(args) == 2 and all(isinstance(a, ConstStr) for a in args):
            old, new = args[0].s, args[1].s
            lead = s.sign + s.prefix
            digits_alphabet = "0123456789abcdef" if s.case != "upper" else "0123456789ABCDEF"
            touches_digits = old and all(c in digits_alphabet for c in old)
            if touches_digits:
                return Top(f".replace({old!r}, ..) may rewrite digits")
            if old and old in lead:
                return replace(s, sign="", prefix=lead.replace(old, new)).note(f".replace({old!r},{new!r})")
            return s.note(f".replace({old!r},{new!r}) (no effect)")
        if meth == "zfill" and len(args) == 1 and isinstance(args[0], IntV) and args[0].lo == args[0].hi:
            w = args[0].lo
            if w <= 1:
                return s.note(f".zfill({w}) (no effect)")
            return replace(s, pad=max(s.pad, w), padchar="0").note(f".zfill({w})")
        if meth == "rjust" and 1 <= len(args) <= 2 and isinstance(args[0], IntV) and args[0].lo == args[0].hi:
            w = args[0].lo
            ch = args[1].s if len(args) == 2 and isinstance(args[1], ConstStr) else " "
            if w <= 1:
                return s.note(f".rjust({w}) (no effect)")
            return replace(s, pad=max(s.pad, w), padchar=ch).note(f".rjust({w},{ch!r})")
        return Top(f"str method .{meth} not modelled")
    if isinstance(s, TextV):
        if meth == "zfill" and len(args) == 1 and isinstance(args[0], IntV) and args[0].lo == args[0].hi and not s.as_bytes:
            return replace(s, zfill=max(s.zfill, args[0].lo), history=s.history + (f".zfill({args[0].lo})",))
        if meth in ("lower", "upper"):
            return replace(s, case_folded=meth, history=s.history + (f".{meth}()",))
        if meth in ("strip", "rstrip", "lstrip") and not args:
            return replace(s, history=s.history + (f".{meth}()",))
        if meth == "lstrip" and len(args) == 1 and isinstance(args[0], ConstStr):
            if "0" in args[0].s:
                return replace(s, may_be_empty=True, history=s.history + (f".lstrip({args[0].s!r})",))
            return s
        if meth == "removeprefix" and len(args) == 1 and isinstance(args[0], ConstStr):
            p = args[0].s
            if p.lower() in ("0x",):
                return replace(s, history=s.history + (f".removeprefix({p!r})",))
            return Top("removeprefix of digits on input text")
        return Top(f"str method .{meth} on input text not modelled")
    return Top(f"method .{meth} on non-string")


def _struct_size(fmt: str) -> Optional[int]:
    """byte size of a single unsigned big-endian field ('>Q', '!Q', '>I', '>H', '>B'); None for anything else"""
    if len(fmt) == 2 and fmt[0] in ">!" and fmt[1] in "QIHB":
        return {"Q": 8, "I": 4, "H": 2, "B": 1}[fmt[1]]
    return None


@dataclass(frozen=True)
class TupleResult:
    """a 1-tuple (what struct.unpack returns): `(v,) = ...` / `...[0]` gives the element"""
    item: object


class Evaluator:
    """Abstract evaluation of a small straight-line/if function body."""

    def __init__(self, env: Dict[str, object], consts: Optional[Dict[str, object]] = None):
        self.env = dict(env)
        self.consts = consts or {}

    def const_int(self, node) -> Optional[int]:
        v = self.eval(node)
        if isinstance(v, IntV) and v.lo == v.hi:
            return v.lo
        return None

    def eval(self, n: ast.AST):
        if isinstance(n, ast.Constant):
            if isinstance(n.value, bool):
                return Top("bool constant")
            if isinstance(n.value, int):
                return IntV(n.value, n.value)
            if isinstance(n.value, str):
                return ConstStr(n.value)
            return Top("constant of other type")
        if isinstance(n, ast.Name):
            if n.id in self.env:
                return self.env[n.id]
            if n.id in self.consts:
                return self.consts[n.id]
            return Top(f"unknown name {n.id}")
        if isinstance(n, ast.UnaryOp) and isinstance(n.op, ast.USub):
            v = self.eval(n.operand)
            if isinstance(v, IntV):
                return IntV(-v.hi, -v.lo)
            return Top("unary minus")
        if isinstance(n, ast.BinOp):
            return self.binop(n)
        if isinstance(n, ast.Call):
            return self.call(n)
        if isinstance(n, ast.Subscript):
            base = self.eval(n.value)
            if isinstance(base, Raises):
                return base
            if isinstance(base, TupleResult) and isinstance(n.slice, ast.Constant) and n.slice.value == 0:
                return base.item
            if isinstance(base, StrV) and isinstance(n.slice, ast.Slice):
                sl = n.slice
                if sl.step is not None:
                    return Top("slice with step")
                lo = self.const_int(sl.lower) if sl.lower is not None else 0
                if lo is None:
                    return Top("non-constant slice bound")
                out = slice_from(base, lo)
                if sl.upper is not None:
                    return Top("slice with upper bound on number text")
                return out
            return Top("subscript not modelled")
        if isinstance(n, ast.JoinedStr):
            parts = []
            for v in n.values:
                if isinstance(v, ast.Constant) and isinstance(v.value, str):
                    parts.append(ConstStr(v.value))
                elif isinstance(v, ast.FormattedValue):
                    inner = self.eval(v.value)
                    spec = ""
                    if v.format_spec is not None:
                        if (isinstance(v.format_spec, ast.JoinedStr) and
                                all(isinstance(x, ast.Constant) for x in v.format_spec.values)):
                            spec = "".join(x.value for x in v.format_spec.values)
                        else:
                            return Top("dynamic format spec")
                    if v.conversion not in (-1, 115, 114):  # !s / !r keep decimal text
                        return Top("f-string conversion")
                    if isinstance(inner, IntV):
                        if v.conversion in (115, 114):
                            if spec:
                                return Top("spec after !s")
                            parts.append(builtin_conv("str", inner))
                        else:
                            parts.append(format_int(inner, spec, "f-string"))
                    elif isinstance(inner, (StrV, ConstStr)) and not spec:
                        parts.append(inner)
                    else:
                        return Top("f-string part not modelled")
                else:
                    return Top("f-string part")
            return self.concat(parts)
        if isinstance(n, ast.BoolOp) and isinstance(n.op, ast.Or) and len(n.values) == 2:
            a, b = self.eval(n.values[0]), self.eval(n.values[1])
            return self.or_text(a, b)
        if isinstance(n, ast.IfExp) and isinstance(n.test, ast.Name) and isinstance(n.body, ast.Name) and n.test.id == n.body.id:
            # t if t else '0'
            return self.or_text(self.eval(n.body), self.eval(n.orelse))
        if isinstance(n, ast.IfExp) and isinstance(n.test, ast.Name) and isinstance(self.env.get(n.test.id), (BytesV, StrV)):
            # b.hex() if b else '0'   /   f(t) if t else '0': the tested bytes / text are empty exactly for the value 0, and so is
            # the text made from them
            body = self.eval(n.body)
            if isinstance(body, StrV) and any(isinstance(x, ast.Name) and x.id == n.test.id for x in ast.walk(n.body)):
                return self.or_text(body, self.eval(n.orelse))
        if isinstance(n, ast.IfExp):
            return Top("conditional expression")
        return Top(f"expression {type(n).__name__} not modelled")

    @staticmethod
    def or_text(a, b):
        """a or b  for a digit text that is empty exactly for the value 0 and the literal '0'"""
        if isinstance(a, StrV) and isinstance(b, ConstStr):
            if not a.may_be_empty:
                return a
            if b.s == "0" and not (a.sign or a.prefix or a.suffix):
                return replace(a, may_be_empty=False).note("or '0' (the empty text of 0 becomes '0')")
            return Top(f"empty text replaced by {b.s!r}")
        return Top("`or` of unmodelled operands")

    def concat(self, parts: List[object]):
        parts = [p for p in parts if not (isinstance(p, ConstStr) and p.s == "")]
        if len(parts) == 2 and isinstance(parts[0], ConstStr) and isinstance(parts[1], TextV) and parts[0].s and set(parts[0].s) == {"0"} \
                and not parts[1].prefix and not parts[1].as_bytes:
            t = parts[1]
            flip = {"even": "odd", "odd": "even", None: None}
            par = flip[t.parity] if len(parts[0].s) % 2 else t.parity
            return replace(t, parity=par, history=t.history + (f"{parts[0].s!r} + text (leading zeros)",))
        if not parts:
            return ConstStr("")
        if any(isinstance(p, Top) for p in parts):
            return [p for p in parts if isinstance(p, Top)][0]
        strs = [p for p in parts if isinstance(p, StrV)]
        if len(strs) == 0:
            return ConstStr("".join(p.s for p in parts))
        if len(strs) > 1:
            return Top("concatenation of two number texts")
        i = parts.index(strs[0])
        before = "".join(p.s for p in parts[:i])
        after = "".join(p.s for p in parts[i + 1:])
        s = strs[0]
        if before:
            if s.pad:
                return Top("literal in front of padded text")
            s = replace(s, prefix=before + s.sign + s.prefix, sign="").note(f"literal {before!r} prepended")
        if after:
            s = replace(s, suffix=s.suffix + after).note(f"literal {after!r} appended")
        return s

    def binop(self, n: ast.BinOp):
        l, r = self.eval(n.left), self.eval(n.right)
        if isinstance(n.op, ast.Mod) and isinstance(l, ConstStr):
            # '%x' % v
            fmt = l.s
            import re
            m = re.fullmatch(r"([^%]*)%([#0\- +]*)(\d*)([xXdob])([^%]*)", fmt)
            if not m or not isinstance(r, IntV):
                return Top("%-format not modelled")
            flags, width, typ = m.group(2), m.group(3), m.group(4)
            spec = ("#" if "#" in flags else "") + ("0" if "0" in flags else "") + width + typ
            if "+" in flags:
                spec = "+" + spec
            elif " " in flags:
                spec = " " + spec
            if "-" in flags:
                return Top("%-format left adjust")
            body = format_int(r, spec, "%-format")
            return self.concat([ConstStr(m.group(1)), body, ConstStr(m.group(5))])
        if isinstance(n.op, ast.Add) and (isinstance(l, (StrV, ConstStr)) and isinstance(r, (StrV, ConstStr))):
            return self.concat([l, r])
        if isinstance(n.op, ast.Add) and isinstance(l, ConstStr) and isinstance(r, TextV):
            return self.concat([l, r])
        if isinstance(l, BitLenV) and not l.bytes_needed and isinstance(r, IntV) and r.lo == r.hi == 7 and isinstance(n.op, ast.Add):
            return ("bitlen+7", l)
        if isinstance(l, tuple) and l and l[0] == "bitlen+7" and isinstance(r, IntV) and r.lo == r.hi == 8 and isinstance(n.op, ast.FloorDiv):
            return BitLenV(l[1].src, True)
        if isinstance(l, IntV) and isinstance(r, IntV):
            try:
                if isinstance(n.op, ast.Add):
                    return IntV(l.lo + r.lo, l.hi + r.hi)
                if isinstance(n.op, ast.Sub):
                    return IntV(l.lo - r.hi, l.hi - r.lo)
                if l.lo == l.hi and r.lo == r.hi:
                    a, b = l.lo, r.lo
                    if isinstance(n.op, ast.Mult):
                        return IntV(a * b, a * b)
                    if isinstance(n.op, ast.LShift) and 0 <= b <= 4096:
                        return IntV(a << b, a << b)
                    if isinstance(n.op, ast.Pow) and 0 <= b <= 4096:
                        return IntV(a ** b, a ** b)
                    if isinstance(n.op, ast.RShift) and b >= 0:
                        return IntV(a >> b, a >> b)
                    if isinstance(n.op, ast.BitOr):
                        return IntV(a | b, a | b)
                    if isinstance(n.op, ast.BitAnd):
                        return IntV(a & b, a & b)
                    if isinstance(n.op, ast.FloorDiv) and b != 0:
                        return IntV(a // b, a // b)
                    if isinstance(n.op, ast.Mod) and b != 0:
                        return IntV(a % b, a % b)
                # value & mask  with constant mask 2**k-1 covering the value's range: identity
                if isinstance(n.op, ast.BitAnd):
                    for v, m in ((l, r), (r, l)):
                        if m.lo == m.hi and m.lo >= 0 and (m.lo & (m.lo + 1)) == 0 and v.lo >= 0:
                            if v.hi <= m.lo:
                                return v
                            return IntV(0, m.lo)
                if isinstance(n.op, ast.Mod) and r.lo == r.hi and r.lo > 0 and l.lo >= 0:
                    if l.hi < r.lo:
                        return l
                    return IntV(0, r.lo - 1)
            except Exception:
                pass
            return Top("integer arithmetic not modelled")
        if isinstance(l, ParsedV) and isinstance(r, IntV) and r.lo == r.hi:
            c = r.lo
            if isinstance(n.op, ast.BitAnd) and c >= 0 and (c & (c + 1)) == 0:
                bits = c.bit_length()
                mb = bits if l.mask_bits is None else min(bits, l.mask_bits)
                return replace(l, mask_bits=mb, history=l.history + (f"& {hex(c)}",))
            if isinstance(n.op, ast.Mod) and c > 0 and (c & (c - 1)) == 0:
                bits = c.bit_length() - 1
                mb = bits if l.mask_bits is None else min(bits, l.mask_bits)
                return replace(l, mask_bits=mb, history=l.history + (f"% 2**{bits}",))
            return Top("arithmetic on parsed value not modelled")
        if isinstance(r, ParsedV) and isinstance(l, IntV) and l.lo == l.hi and isinstance(n.op, ast.BitAnd):
            c = l.lo
            if c >= 0 and (c & (c + 1)) == 0:
                bits = c.bit_length()
                mb = bits if r.mask_bits is None else min(bits, r.mask_bits)
                return replace(r, mask_bits=mb, history=r.history + (f"& {hex(c)}",))
        return Top("binary operation not modelled")

    def call(self, n: ast.Call):
        f = n.func
        if isinstance(f, ast.Attribute) and isinstance(f.value, ast.Name) and f.value.id == "operator" and f.attr == "index" \
                and "operator" not in self.env and len(n.args) == 1 and not n.keywords:
            v = self.eval(n.args[0])
            return v if isinstance(v, IntV) else Top("operator.index of a non-integer")
        w = getattr(self, "walker", None)
        if w is not None and isinstance(f, ast.Name) and f.id in w.mod.funcs and f.id not in self.env:
            if getattr(w, "depth", 0) >= 4:
                return Top(f"helper {f.id}() nested too deeply (recursive?)")
            return w.eval(n, self.env)      # a helper of the module, wherever the call is nested
        if isinstance(f, ast.Name):
            name = f.id
            args = [self.eval(a) for a in n.args]
            kw = {k.arg: self.eval(k.value) for k in n.keywords if k.arg}
            if name in ("hex", "oct", "bin", "str", "repr") and len(args) == 1 and not kw:
                if isinstance(args[0], IntV):
                    return builtin_conv(name, args[0])
                if isinstance(args[0], (StrV, ConstStr)) and name == "str":
                    return args[0]
                return Top(f"{name}() of non-int")
            if name == "format" and len(args) == 2 and isinstance(args[0], IntV) and isinstance(args[1], ConstStr):
                return format_int(args[0], args[1].s, "format()")
            if name == "format" and len(args) == 1 and isinstance(args[0], IntV):
                return format_int(args[0], "", "format()")
            if name == "int":
                if not args:
                    return Top("int() without argument")
                a0 = args[0]
                base: Optional[object] = None
                if len(args) >= 2:
                    base = args[1]
                elif "base" in kw:
                    base = kw["base"]
                if isinstance(a0, IntV) and base is None:
                    return a0
                if isinstance(a0, TextV):
                    if base is None:
                        return ParsedV(None, a0, None, ("int(text)",))
                    if isinstance(base, IntV) and base.lo == base.hi:
                        return ParsedV(base.lo, a0, None, (f"int(text, {base.lo})",))
                    return Top("int() with non-constant base")
                return Top("int() of unmodelled value")
            if name == "abs" and len(args) == 1 and isinstance(args[0], (IntV, ParsedV)):
                if isinstance(args[0], IntV):
                    a = args[0]
                    return a if a.lo >= 0 else IntV(0, max(abs(a.lo), abs(a.hi)))
                return args[0]
            return Top(f"call of {name} not modelled")
        if isinstance(f, ast.Attribute) and f.attr in ("unpack", "unpack_from") and not n.keywords:
            fmt_size = None
            data = None
            if isinstance(f.value, ast.Name) and f.value.id == "struct" and "struct" not in self.env and len(n.args) == 2:
                fm = self.eval(n.args[0])
                fmt_size = _struct_size(fm.s) if isinstance(fm, ConstStr) else None
                data = self.eval(n.args[1])
            elif len(n.args) == 1:
                sv = self.eval(f.value)
                if isinstance(sv, StructV):
                    fmt_size = sv.size
                    data = self.eval(n.args[0])
            if fmt_size is not None:
                if isinstance(data, Raises):
                    return data
                if isinstance(data, TextV) and data.as_bytes and f.attr == "unpack":
                    wrong = witness_with_length(data, lambda n_: n_ != 2 * fmt_size)
                    if wrong is not None:
                        return Raises(f"struct.unpack needs exactly {fmt_size} bytes and raises struct.error otherwise", wrong)
                    return TupleResult(ParsedV(16, replace(data, as_bytes=False), None, (f"struct.unpack of {fmt_size} bytes",)))
                return Top("struct.unpack of an unmodelled value")
        if isinstance(f, ast.Attribute) and isinstance(f.value, ast.Name) and f.value.id == "struct" and f.attr == "Struct" and len(n.args) == 1 \
                and "struct" not in self.env:
            fm = self.eval(n.args[0])
            sz = _struct_size(fm.s) if isinstance(fm, ConstStr) else None
            return StructV(sz) if sz is not None else Top("struct format not modelled")
        if isinstance(f, ast.Attribute) and isinstance(f.value, ast.Name) and f.value.id == "bytes" and f.attr == "fromhex" and len(n.args) == 1:
            t = self.eval(n.args[0])
            if isinstance(t, Raises):
                return t
            if isinstance(t, TextV) and not t.prefix and not t.may_be_empty and not t.as_bytes:
                odd = witness_with_length(t, lambda n_: n_ % 2 == 1)
                if odd is not None:
                    return Raises("bytes.fromhex raises ValueError for a text with an odd number of digits", odd)
                return replace(t, as_bytes=True, history=t.history + ("bytes.fromhex()",))
            return Top("bytes.fromhex of an unmodelled value")
        if isinstance(f, ast.Attribute) and isinstance(f.value, ast.Name) and f.value.id == "int" and f.attr == "from_bytes" and 1 <= len(n.args) <= 2:
            b = self.eval(n.args[0])
            order = self.eval(n.args[1]) if len(n.args) == 2 else None
            for k in n.keywords:
                if k.arg == "byteorder":
                    order = self.eval(k.value)
            if isinstance(b, Raises):
                return b
            if isinstance(b, TextV) and b.as_bytes and isinstance(order, ConstStr) and order.s == "big":
                return ParsedV(16, replace(b, as_bytes=False), None, ("int.from_bytes(bytes.fromhex(text), 'big')",))
            return Top("int.from_bytes of an unmodelled value")
        if isinstance(f, ast.Attribute):
            recv = self.eval(f.value)
            args = [self.eval(a) for a in n.args]
            if isinstance(recv, ConstStr) and f.attr == "format" and len(args) == 1 and not n.keywords:
                import re
                m = re.fullmatch(r"([^{}]*)\{(?:0)?(?::([^{}]*))?\}([^{}]*)", recv.s)
                if not m or not isinstance(args[0], IntV):
                    return Top("str.format not modelled")
                body = format_int(args[0], m.group(2) or "", "str.format")
                return self.concat([ConstStr(m.group(1)), body, ConstStr(m.group(3))])
            if isinstance(recv, IntV) and f.attr == "bit_length" and not args:
                return BitLenV(recv)
            if isinstance(recv, IntV) and f.attr == "to_bytes" and 1 <= len(args) <= 2:
                order = args[1] if len(args) == 2 else None
                for k in n.keywords:
                    if k.arg == "byteorder":
                        order = self.eval(k.value)
                if not (isinstance(order, ConstStr) and order.s == "big"):
                    return Top("to_bytes with a byte order other than 'big'")
                if isinstance(args[0], IntV) and args[0].lo == args[0].hi:
                    if recv.hi >= 1 << (8 * args[0].lo) or recv.lo < 0:
                        return Top("to_bytes may overflow")
                    return BytesV(recv, args[0].lo)
                if isinstance(args[0], BitLenV) and args[0].bytes_needed and args[0].src == recv and recv.lo >= 0:
                    return BytesV(recv, None)
                return Top("to_bytes with an unmodelled length")
            if isinstance(recv, BytesV) and f.attr == "lstrip" and len(n.args) == 1 and isinstance(n.args[0], ast.Constant) \
                    and n.args[0].value == b"\x00" and recv.order == "big" and recv.src.lo >= 0:
                return BytesV(recv.src, None)          # leading zero BYTES removed: as many bytes as the value needs, none for 0
            if isinstance(recv, BytesV) and f.attr == "hex" and not args:
                if recv.fixed is not None:
                    return StrV(16, "lower", "", "", 2 * recv.fixed, "0", True, False, 0, "", recv.src.lo, recv.src.hi, (f"to_bytes({recv.fixed}).hex(): {2 * recv.fixed} digits",))
                # as many bytes as needed: two digits per byte, nothing for 0
                return StrV(16, "lower", "", "", 2, "0", True, recv.src.lo <= 0, 0, "", recv.src.lo, recv.src.hi,
                            ("to_bytes(minimal).hex(): two digits per byte (a leading 0 when the digit count is odd), '' for 0",))
            if isinstance(recv, Top):
                return recv
            if isinstance(recv, ConstStr) and f.attr == "join":
                return Top("join")
            return str_method(recv, f.attr, args)
        return Top("call form not modelled")
