"""C19 -- hex text form of an id round-trips for every 64-bit value.

Decided with the string-shape domain E7 (sa/strshape.py) on the two functions of
a5/core/hex.py, for every n in [0, 2**64) at once (n is an interval, never enumerated).
"""
from __future__ import annotations

import ast
from typing import Dict, List, Optional, Tuple

from . import core
from .strshape import (ConstStr, Evaluator, IntV, ParsedV, Raises, StrV, StructV, TextV, Top, TupleResult)

HEX = "a5/core/hex.py"
U64 = IntV(0, 2 ** 64 - 1)


# ---------------------------------------------------------------------------------
# tiny path walker for one-parameter functions
# ---------------------------------------------------------------------------------

class NoneVal:
    def __repr__(self):
        return "None"


NONEV = NoneVal()


class UnionV:
    """one of several abstract values (e.g. what a module-level dict may hold under a key)"""

    def __init__(self, items):
        self.items = list(items)

    def __repr__(self):
        return f"Union({self.items})"


class RegexV:
    def __init__(self, pattern: str, flags: int, src: str):
        self.pattern, self.flags, self.src = pattern, flags, src


HEX_WITNESSES = ["0", "ff", "FF", "aBcDeF", "00ff", "0" * 20 + "1", "ffffffffffffffff", "FFFFFFFFFFFFFFFF", "123456789abcdef0"]


def regex_verdict(rx: RegexV, how: str):
    """Does the guard accept every hexadecimal numeral (either case, leading zeros, any length)?
    -> ('all', None) | ('rejects', witness) | ('unknown', None).  Rejection is shown by a witness string matched with the
    stdlib regex engine on the pattern literal; acceptance of everything is shown structurally (one repeated character
    class covering both cases, no upper bound on the length)."""
    import re as _re
    try:
        comp = _re.compile(rx.pattern, rx.flags)
    except _re.error:
        return "unknown", None
    fn = comp.fullmatch if how == "fullmatch" else (comp.match if how == "match" else comp.search)
    for w in HEX_WITNESSES:
        if fn(w) is None:
            return "rejects", w
    try:
        import re._parser as sp      # Python >= 3.11
    except ImportError:   # pragma: no cover
        import sre_parse as sp
    try:
        tree = list(sp.parse(rx.pattern, rx.flags))
    except Exception:
        return "unknown", None
    # strip anchors
    while tree and str(tree[0][0]) == "AT":
        tree = tree[1:]
    while tree and str(tree[-1][0]) == "AT":
        tree = tree[:-1]
    if how != "fullmatch" and not (rx.pattern.endswith("$") or rx.pattern.endswith("\\Z")):
        return "unknown", None
    if len(tree) == 1 and str(tree[0][0]) in ("MAX_REPEAT", "MIN_REPEAT"):
        lo, hi, sub = tree[0][1]
        sub = list(sub)
        if lo <= 1 and str(hi) == "MAXREPEAT" and len(sub) == 1 and str(sub[0][0]) == "IN":
            chars = set()
            for kind, val in sub[0][1]:
                if str(kind) == "RANGE":
                    chars |= {chr(c) for c in range(val[0], val[1] + 1)}
                elif str(kind) == "LITERAL":
                    chars.add(chr(val))
                else:
                    return "unknown", None
            need = set("0123456789abcdef") | (set() if rx.flags & _re.IGNORECASE else set("ABCDEF"))
            if need <= chars:
                return "all", None
    return "unknown", None


class Module:
    """what the two functions can see at module level: integer/string constants, compiled regexes, mutable containers
    (abstractly: the set of values that any call may have stored in them), helper functions"""

    def __init__(self, tree: ast.Module, sources=None, rel: str = ""):
        self.consts: Dict[str, object] = {}
        self.stores: Dict[str, list] = {}
        self.funcs: Dict[str, ast.FunctionDef] = {}
        self.changed = False
        for n in tree.body:
            if isinstance(n, ast.ImportFrom) and sources is not None and n.level >= 1 and n.module:
                # integer / string constants imported from a sibling module
                base = rel.rsplit("/", n.level)[0]
                other = f"{base}/{n.module.replace('.', '/')}.py"
                if sources.has(other):
                    theirs = Module(sources.tree(other)).consts
                    for a in n.names:
                        if a.name in theirs:
                            self.consts[a.asname or a.name] = theirs[a.name]
                continue
            if isinstance(n, ast.FunctionDef):
                self.funcs[n.name] = n
            elif isinstance(n, (ast.Assign, ast.AnnAssign)) and n.value is not None:
                tg = n.targets[0] if isinstance(n, ast.Assign) else n.target
                if not isinstance(tg, ast.Name):
                    continue
                v = n.value
                if isinstance(v, (ast.Dict, ast.List, ast.Set)) and not (getattr(v, "keys", None) or getattr(v, "elts", None)):
                    self.stores[tg.id] = []
                elif isinstance(v, ast.Call) and core.src(v.func) in ("dict", "list", "set", "OrderedDict", "collections.OrderedDict") and not v.args:
                    self.stores[tg.id] = []
                elif isinstance(v, ast.Call) and core.src(v.func) in ("re.compile",) and v.args and isinstance(v.args[0], ast.Constant) and isinstance(v.args[0].value, str):
                    import re as _re
                    flags = 0
                    for a in list(v.args[1:]) + [k.value for k in v.keywords]:
                        t = core.src(a)
                        for nm, f in (("IGNORECASE", _re.IGNORECASE), ("re.I", _re.IGNORECASE), ("ASCII", _re.ASCII)):
                            if nm in t:
                                flags |= f
                    self.consts[tg.id] = RegexV(v.args[0].value, flags, core.src(v))
                else:
                    val = Evaluator({}, self.consts).eval(v)
                    if isinstance(val, (IntV, ConstStr, StructV)):
                        self.consts[tg.id] = val

    def store(self, name: str, v) -> None:
        items = v.items if isinstance(v, UnionV) else [v]
        for it in items:
            if it is NONEV:
                continue
            if not any(repr(it) == repr(x) for x in self.stores[name]):
                self.stores[name].append(it)
                self.changed = True


class Path:
    def __init__(self, env, certain=True, trail=(), witness=None):
        self.env = env
        self.certain = certain   # False once an undecidable branch condition was passed
        self.trail = trail
        self.witness = witness


def _split_int(v: IntV, op, c: int) -> Tuple[Optional[IntV], Optional[IntV]]:
    """(range where `v op c` holds, range where it does not) -- None = empty"""
    def mk(lo, hi):
        return IntV(lo, hi) if lo <= hi else None
    if isinstance(op, ast.Lt):
        return mk(v.lo, min(v.hi, c - 1)), mk(max(v.lo, c), v.hi)
    if isinstance(op, ast.LtE):
        return mk(v.lo, min(v.hi, c)), mk(max(v.lo, c + 1), v.hi)
    if isinstance(op, ast.Gt):
        return mk(max(v.lo, c + 1), v.hi), mk(v.lo, min(v.hi, c))
    if isinstance(op, ast.GtE):
        return mk(max(v.lo, c), v.hi), mk(v.lo, min(v.hi, c - 1))
    if isinstance(op, ast.Eq):
        if c < v.lo or c > v.hi:
            return None, v
        if v.lo == v.hi:
            return v, None
        if c == v.lo:
            return IntV(c, c), IntV(c + 1, v.hi)
        if c == v.hi:
            return IntV(c, c), IntV(v.lo, c - 1)
        return IntV(c, c), v
    if isinstance(op, ast.NotEq):
        t, f = _split_int(v, ast.Eq(), c)
        return f, t
    return v, v


class Walker:
    def __init__(self, mod: Module):
        self.mod = mod
        self.depth = 0

    def evaluator(self, env) -> "Evaluator":
        ev = Evaluator(env, self.mod.consts)
        ev.walker = self
        return ev

    def eval(self, e: ast.expr, env):
        """expression evaluation with module-level containers and helper functions"""
        if isinstance(e, ast.Call):
            f = e.func
            if isinstance(f, ast.Attribute) and isinstance(f.value, ast.Name) and f.value.id in self.mod.stores and f.value.id not in env:
                name = f.value.id
                args = [self.eval(a, env) for a in e.args]
                if f.attr == "get":
                    default = args[1] if len(args) > 1 else NONEV
                    return UnionV(list(self.mod.stores[name]) + [default])
                if f.attr in ("setdefault",) and len(args) == 2:
                    self.mod.store(name, args[1])
                    return UnionV(list(self.mod.stores[name]))
                if f.attr in ("pop",):
                    return UnionV(list(self.mod.stores[name]) + ([args[1]] if len(args) > 1 else []))
                if f.attr in ("clear",):
                    return NONEV
                return Top(f"method .{f.attr} on module-level container {name}")
            if isinstance(f, ast.Name) and f.id in self.mod.funcs and f.id not in env and self.depth < 4:
                fn = self.mod.funcs[f.id]
                args = [self.eval(a, env) for a in e.args]
                params = [a.arg for a in fn.args.args]
                sub = {p: (args[i] if i < len(args) else Top("missing argument")) for i, p in enumerate(params)}
                outs: list = []
                self.depth += 1
                try:
                    rest = self.walk(fn.body, [Path(sub)], outs, params[0] if params else "")
                finally:
                    self.depth -= 1
                vals = [v for k, v, p, n in outs if k == "return"] + ([NONEV] if rest else [])
                if any(k == "raise" for k, v, p, n in outs):
                    vals.append(Top(f"{f.id}() may raise"))
                return vals[0] if len(vals) == 1 else UnionV(vals)
            if isinstance(f, ast.Name) and f.id == "len" and len(e.args) == 1:
                return IntV(0, 1 << 62)
        if isinstance(e, ast.Subscript) and isinstance(e.value, ast.Name) and e.value.id in self.mod.stores and e.value.id not in env:
            return UnionV(list(self.mod.stores[e.value.id])) if self.mod.stores[e.value.id] else Top("empty container")
        ev = self.evaluator(env)
        return ev.eval(e)

    def walk(self, stmts: List[ast.stmt], paths: List[Path], outcomes: list, param: str):
        for st in stmts:
            if not paths:
                return []
            if isinstance(st, ast.Expr) and isinstance(st.value, ast.Constant):
                continue
            if isinstance(st, (ast.Pass, ast.Global, ast.Import, ast.ImportFrom)):
                continue
            if isinstance(st, ast.Expr):
                for p in paths:
                    self.eval(st.value, p.env)
                continue
            if isinstance(st, (ast.Assign, ast.AnnAssign)):
                tgts = st.targets if isinstance(st, ast.Assign) else [st.target]
                if st.value is None:
                    continue
                for p in paths:
                    v = self.eval(st.value, p.env)
                    for tgt in tgts:
                        if isinstance(tgt, (ast.Tuple, ast.List)) and len(tgt.elts) == 1 and isinstance(tgt.elts[0], ast.Name) \
                                and isinstance(v, (TupleResult, Raises)):
                            p.env[tgt.elts[0].id] = v.item if isinstance(v, TupleResult) else v
                        elif isinstance(tgt, ast.Name):
                            p.env[tgt.id] = v
                        elif isinstance(tgt, ast.Subscript) and isinstance(tgt.value, ast.Name) and tgt.value.id in self.mod.stores and tgt.value.id not in p.env:
                            self.mod.store(tgt.value.id, v)
                        else:
                            for n in ast.walk(tgt):
                                if isinstance(n, ast.Name) and isinstance(n.ctx, ast.Store):
                                    p.env[n.id] = Top("assignment form not modelled")
                continue
            if isinstance(st, ast.Return):
                for p in paths:
                    v = self.eval(st.value, p.env) if st.value is not None else Top("return None")
                    outcomes.append(("return", v, p, st))
                return []
            if isinstance(st, ast.Raise):
                for p in paths:
                    outcomes.append(("raise", None, p, st))
                return []
            if isinstance(st, ast.If):
                then_paths, else_paths = [], []
                for p in paths:
                    for truth, env2, certain, wit in self.branch(st.test, p.env, param):
                        tr = p.trail + ((f"if {core.src(st.test)}" if truth else f"if not {core.src(st.test)}"),)
                        (then_paths if truth else else_paths).append(Path(env2, p.certain and certain, tr, wit or p.witness))
                a = self.walk(st.body, then_paths, outcomes, param)
                b = self.walk(st.orelse, else_paths, outcomes, param)
                paths = a + b
                continue
            for p in paths:
                outcomes.append(("unmodelled", Top(f"statement {type(st).__name__} not modelled"), p, st))
            return []
        return paths

    def branch(self, test: ast.expr, env: Dict[str, object], param: str):
        """-> list of (truth, env, decided?, witness)"""
        if isinstance(test, ast.UnaryOp) and isinstance(test.op, ast.Not):
            return [(not t, e, c, w) for t, e, c, w in self.branch(test.operand, env, param)]
        if isinstance(test, ast.BoolOp):
            is_and = isinstance(test.op, ast.And)
            results = []
            cur = [(dict(env), True, None)]
            for v in test.values:
                nxt = []
                for e0, c0, w0 in cur:
                    for t, e1, c1, w1 in self.branch(v, e0, param):
                        if t == is_and:
                            nxt.append((e1, c0 and c1, w1 or w0))
                        else:
                            results.append((not is_and, e1, c0 and c1, w1 or w0))
                cur = nxt
            results.extend((is_and, e1, c1, w1) for e1, c1, w1 in cur)
            return results
        if isinstance(test, ast.Compare) and len(test.ops) > 1:
            # a <= x < b  ==  (a <= x) and (x < b)
            parts = []
            left = test.left
            for op, right in zip(test.ops, test.comparators):
                parts.append(ast.Compare(left=left, ops=[op], comparators=[right]))
                left = right
            return self.branch(ast.BoolOp(op=ast.And(), values=parts), env, param)
        if isinstance(test, ast.Call) and isinstance(test.func, ast.Name) and test.func.id == "isinstance" and len(test.args) == 2 \
                and isinstance(test.args[0], ast.Name):
            v = env.get(test.args[0].id)
            names = {n.id for n in ast.walk(test.args[1]) if isinstance(n, ast.Name)}
            if isinstance(v, IntV) and "int" in names:
                return [(True, dict(env), True, None)]
            if isinstance(v, TextV) and "str" in names:
                return [(True, dict(env), True, None)]
        # regex guards:  RX.fullmatch(text) [is None | is not None]
        rx = self._regex_test(test, env)
        if rx is not None:
            verdict, wit, positive = rx
            if verdict == "all":
                return [(positive, dict(env), True, None)]
            if verdict == "rejects":
                return [(positive, dict(env), True, None), (not positive, dict(env), True, wit)]
            return [(True, dict(env), False, None), (False, dict(env), False, None)]
        if isinstance(test, ast.Compare) and len(test.ops) == 1:
            l, r = test.left, test.comparators[0]
            op = test.ops[0]
            if isinstance(op, (ast.Is, ast.IsNot)) and isinstance(r, ast.Constant) and r.value is None and isinstance(l, ast.Name):
                v = env.get(l.id)
                items = v.items if isinstance(v, UnionV) else [v]
                nones = [x for x in items if x is NONEV]
                others = [x for x in items if x is not NONEV]
                out = []
                is_none_env = dict(env, **{l.id: NONEV}) if nones else None
                not_none_env = dict(env, **{l.id: (others[0] if len(others) == 1 else UnionV(others))}) if others else None
                if isinstance(v, Top) or v is None:
                    return [(True, dict(env), False, None), (False, dict(env), False, None)]
                if is_none_env is not None:
                    out.append((isinstance(op, ast.Is), is_none_env, True, None))
                if not_none_env is not None:
                    out.append((isinstance(op, ast.IsNot), not_none_env, True, None))
                return out
            ev = self.evaluator(env)
            flipmap0 = {ast.Lt: ast.Gt, ast.LtE: ast.GtE, ast.Gt: ast.Lt, ast.GtE: ast.LtE, ast.Eq: ast.Eq, ast.NotEq: ast.NotEq}
            for var, other, flip in ((l, r, False), (r, l, True)):
                # len(text) op c : valid texts (hexadecimal numerals with any number of leading zeros) exist in every length >= 1
                if isinstance(var, ast.Call) and isinstance(var.func, ast.Name) and var.func.id == "len" and len(var.args) == 1 \
                        and isinstance(var.args[0], ast.Name) and isinstance(env.get(var.args[0].id), TextV) and type(op) in flipmap0:
                    nm_ = var.args[0].id
                    t_ = env[nm_]
                    c = ev.const_int(other)
                    if c is not None and not t_.prefix and not t_.may_be_empty and not t_.as_bytes:
                        from dataclasses import replace as _rep
                        from .strshape import text_witness
                        o = flipmap0[type(op)]() if flip else op
                        cur = IntV(t_.len_lo, t_.len_hi if t_.len_hi is not None else (1 << 20))
                        tr, fr = _split_int(cur, o, c)
                        out = []
                        for truth, rng in ((True, tr), (False, fr)):
                            if rng is None:
                                continue
                            t2 = _rep(t_, len_lo=rng.lo, len_hi=(None if rng.hi >= (1 << 20) else rng.hi))
                            wit_ = text_witness(t2)
                            if wit_ is None:
                                continue
                            out.append((truth, dict(env, **{nm_: t2}), True, wit_))
                        return out
                # a value parsed from a valid text with base 16 lies in [0, 2**64): decide comparisons that hold on that whole range
                if isinstance(var, ast.Name) and isinstance(env.get(var.id), ParsedV) and env[var.id].base == 16 and type(op) in flipmap0:
                    pv = env[var.id]
                    c = ev.const_int(other)
                    if c is not None:
                        o = flipmap0[type(op)]() if flip else op
                        hi = (1 << (pv.mask_bits if pv.mask_bits is not None and pv.mask_bits < 64 else 64)) - 1
                        tr, fr = _split_int(IntV(0, hi), o, c)
                        if tr is None or fr is None:
                            return [(tr is not None, dict(env), True, None)]
            for var, other, flip in ((l, r, False), (r, l, True)):
                if isinstance(var, ast.Name) and isinstance(env.get(var.id), IntV):
                    c = ev.const_int(other)
                    flipmap = {ast.Lt: ast.Gt, ast.LtE: ast.GtE, ast.Gt: ast.Lt, ast.GtE: ast.LtE, ast.Eq: ast.Eq, ast.NotEq: ast.NotEq}
                    if c is not None and type(op) in flipmap:
                        o = flipmap[type(op)]() if flip else op
                        t, f = _split_int(env[var.id], o, c)
                        out = []
                        if t is not None:
                            out.append((True, dict(env, **{var.id: t}), True, None))
                        if f is not None:
                            out.append((False, dict(env, **{var.id: f}), True, None))
                        return out
        if isinstance(test, ast.Call) and isinstance(test.func, ast.Attribute) and test.func.attr in ("isdigit", "isdecimal", "isnumeric") and not test.args \
                and isinstance(test.func.value, ast.Name) and isinstance(env.get(test.func.value.id), TextV):
            from dataclasses import replace as _rep
            from .strshape import text_witness
            nm_ = test.func.value.id
            t_ = env[nm_]
            if t_.digits_only is not None:
                return [(t_.digits_only, dict(env), True, None)]
            out = []
            for truth in (True, False):
                t2 = _rep(t_, digits_only=truth)
                w_ = text_witness(t2)
                if w_ is not None:
                    out.append((truth, dict(env, **{nm_: t2}), True, w_))
            return out
        if isinstance(test, ast.BinOp) and isinstance(test.op, (ast.BitAnd, ast.Mod)) and isinstance(test.left, ast.Call) and isinstance(test.left.func, ast.Name) \
                and test.left.func.id == "len" and len(test.left.args) == 1 and isinstance(test.left.args[0], ast.Name) \
                and isinstance(env.get(test.left.args[0].id), TextV) and isinstance(test.right, ast.Constant) \
                and test.right.value == (1 if isinstance(test.op, ast.BitAnd) else 2):
            nm = test.left.args[0].id
            t_ = env[nm]
            from dataclasses import replace as _rep
            out = []
            from .strshape import text_witness
            for truth, par in ((True, "odd"), (False, "even")):
                if t_.parity in (None, par):
                    t2 = _rep(t_, parity=par)
                    w_ = text_witness(t2)
                    if w_ is not None:
                        out.append((truth, dict(env, **{nm: t2}), True, w_))
            return out
        if isinstance(test, ast.Name) and isinstance(env.get(test.id), IntV):
            t, f = _split_int(env[test.id], ast.NotEq(), 0)
            out = []
            if t is not None:
                out.append((True, dict(env, **{test.id: t}), True, None))
            if f is not None:
                out.append((False, dict(env, **{test.id: f}), True, None))
            return out
        return [(True, dict(env), False, None), (False, dict(env), False, None)]

    def _regex_test(self, test: ast.expr, env):
        """recognises  RX.fullmatch(text) / re.fullmatch(pat, text)  optionally compared with None; returns
        (verdict, witness, truth value of the test when the text matches)"""
        positive = True
        e = test
        if isinstance(e, ast.Compare) and len(e.ops) == 1 and isinstance(e.comparators[0], ast.Constant) and e.comparators[0].value is None:
            if isinstance(e.ops[0], ast.Is):
                positive = False
            elif not isinstance(e.ops[0], ast.IsNot):
                return None
            e = e.left
        if not (isinstance(e, ast.Call) and isinstance(e.func, ast.Attribute) and e.func.attr in ("fullmatch", "match", "search")):
            return None
        how = e.func.attr
        rx = None
        text_arg = None
        if isinstance(e.func.value, ast.Name) and isinstance(self.mod.consts.get(e.func.value.id), RegexV) and e.args:
            rx, text_arg = self.mod.consts[e.func.value.id], e.args[0]
        elif core.src(e.func.value) == "re" and len(e.args) >= 2 and isinstance(e.args[0], ast.Constant) and isinstance(e.args[0].value, str):
            import re as _re
            flags = _re.IGNORECASE if any("IGNORECASE" in core.src(a) or core.src(a) == "re.I" for a in list(e.args[2:]) + [k.value for k in e.keywords]) else 0
            rx, text_arg = RegexV(e.args[0].value, flags, core.src(e)), e.args[1]
        if rx is None or not isinstance(text_arg, ast.Name) or not isinstance(env.get(text_arg.id), TextV):
            return None
        t = env[text_arg.id]
        if t.case_folded == "lower":
            import re as _re
            rx = RegexV(rx.pattern, rx.flags | _re.IGNORECASE, rx.src)
        verdict, wit = regex_verdict(rx, how)
        return verdict, wit, positive


def analyse_function(fn: ast.FunctionDef, init, mod: Optional[Module] = None) -> list:
    if len(fn.args.args) < 1:
        raise core.AnalysisError(f"{fn.name} has no parameter")
    mod = mod or Module(ast.Module(body=[], type_ignores=[]))
    param = fn.args.args[0].arg
    outcomes: list = []
    w = Walker(mod)
    rest = w.walk(fn.body, [Path({param: init})], outcomes, param)
    for p in rest:
        outcomes.append(("return", Top("falls off the end (returns None)"), p, fn))
    # a union-valued return stands for several possible results: judge each member
    flat = []
    for kind, v, p, node in outcomes:
        if kind == "return" and isinstance(v, UnionV):
            for it in v.items:
                flat.append((kind, it, p, node))
        else:
            flat.append((kind, v, p, node))
    return flat


# ---------------------------------------------------------------------------------
# judging shapes
# ---------------------------------------------------------------------------------

def judge_producer(v, rng=None) -> Tuple[str, str]:
    """-> (state, explanation) for one return value of u64_to_hex"""
    if isinstance(v, Top):
        return core.UNDECIDED, f"shape not determined: {v.why}"
    if v is NONEV:
        return core.VIOLATED, "returns None instead of text"
    if isinstance(v, TextV):
        return core.VIOLATED, ("returns a text that was remembered from an earlier hex_to_u64 call: the caller's own spelling (upper case, "
                               "leading zeros) comes back instead of the canonical lower-case form, so equal ids no longer have equal strings")
    if isinstance(v, ConstStr):
        if isinstance(rng, IntV) and rng.lo == rng.hi:
            want = "%x" % rng.lo          # canonical text of that single value
            if v.s == want:
                return core.DISCHARGED, f"constant {v.s!r} is the canonical text of the only value {rng.lo} on this path"
            return core.VIOLATED, f"constant {v.s!r} returned for n = {rng.lo}, canonical text is {want!r}"
        if isinstance(rng, IntV):
            return core.VIOLATED, f"the same constant text {v.s!r} for every n in [{rng.lo}, {rng.hi}]"
        return core.UNDECIDED, f"constant text {v.s!r}"
    if not isinstance(v, StrV):
        return core.VIOLATED, f"does not return text: {v!r}"
    hist = " -> ".join(v.history)
    dev = []
    if v.base != 16:
        dev.append(f"base {v.base} digits, not hexadecimal")
    if v.case == "upper":
        dev.append("upper-case digits")
    if v.sign + v.prefix:
        dev.append(f"text starts with {v.sign + v.prefix!r} (prefix/sign)")
    if v.suffix:
        dev.append(f"text ends with literal {v.suffix!r}")
    if v.pad > 1:
        dev.append(f"padded to width {v.pad} with {v.padchar!r}")
    if v.dropped:
        dev.append(f"{v.dropped} leading digit(s) removed")
    if v.may_be_empty:
        dev.append("empty text for n = 0")
    if not v.minimal and not v.dropped:
        dev.append("digits not minimal")
    if dev:
        return core.VIOLATED, "; ".join(dev) + f"  [{hist}]"
    return core.DISCHARGED, f"hexadecimal, lower case, no prefix/sign/padding, minimal digits, never empty  [{hist}]"


def judge_parser(v) -> Tuple[str, str]:
    if isinstance(v, Top):
        return core.UNDECIDED, f"parser not determined: {v.why}"
    if isinstance(v, IntV):
        return core.VIOLATED, "returns a constant/interval not derived from the text"
    if not isinstance(v, ParsedV):
        return core.VIOLATED, f"does not return a parsed integer: {v!r}"
    hist = " -> ".join(v.text.history + v.history)
    dev = []
    if v.base is None:
        dev.append("int() without base parses decimal, not hexadecimal ('ff' raises, '10' -> 10)")
    elif v.base == 0:
        dev.append("int(.., 0) requires a 0x prefix; the canonical text has none")
    elif v.base != 16:
        dev.append(f"parses base {v.base}, not 16")
    if v.text.may_be_empty:
        dev.append("text '0' becomes '' before parsing (int('') raises)")
    if v.mask_bits is not None and v.mask_bits < 64:
        dev.append(f"result reduced to {v.mask_bits} bits (< 64)")
    if dev:
        return core.VIOLATED, "; ".join(dev) + f"  [{hist}]"
    return core.DISCHARGED, f"int(text, 16) on the unmodified text, no narrowing below 64 bits; accepts upper case and leading zeros  [{hist}]"


# ---------------------------------------------------------------------------------

def check_producer(ctx, fn: ast.FunctionDef, rel: str, record=True, mod=None):
    res = []
    for kind, v, p, node in analyse_function(fn, U64, mod):
        rng = p.env.get(fn.args.args[0].arg)
        trail = " / ".join(p.trail) or "unconditional"
        construct = f"a5.core.hex.{fn.name} return `{core.src(node.value) if isinstance(node, ast.Return) and node.value is not None else core.src(node)}` on path [{trail}]"
        if kind == "raise":
            st, why = (core.VIOLATED if p.certain else core.UNDECIDED,
                       f"raises for n in {rng} instead of returning text")
        elif kind == "unmodelled":
            st, why = core.UNDECIDED, v.why
        else:
            st, why = judge_producer(v, rng)
            if st == core.VIOLATED and not p.certain:
                st, why = core.UNDECIDED, "on a path whose feasibility is not decided: " + why
        res.append((st, construct, core.loc(rel, node), why))
    return res


def check_parser(ctx, fn: ast.FunctionDef, rel: str, mod=None):
    res = []
    for kind, v, p, node in analyse_function(fn, TextV(), mod):
        trail = " / ".join(p.trail) or "unconditional"
        construct = f"a5.core.hex.{fn.name} return `{core.src(node.value) if isinstance(node, ast.Return) and node.value is not None else core.src(node)}` on path [{trail}]"
        if kind == "raise":
            if p.certain and p.witness is not None:
                st, why = core.VIOLATED, f"raises for the valid hexadecimal text {p.witness!r} (path [{trail}]); parsing must accept upper case and leading zeros"
            else:
                st, why = core.UNDECIDED, "raises on a path whose condition on the text is not modelled"
        elif kind == "unmodelled":
            st, why = core.UNDECIDED, v.why
        elif isinstance(v, Raises):
            if p.certain:
                st, why = core.VIOLATED, f"{v.why}: raises for the valid hexadecimal text {v.witness!r}; parsing must accept upper case and leading zeros"
            else:
                st, why = core.UNDECIDED, "on a path whose feasibility is not decided: " + v.why
        else:
            st, why = judge_parser(v)
            if st == core.VIOLATED and not p.certain:
                st, why = core.UNDECIDED, "on a path whose feasibility is not decided: " + why
            elif st == core.VIOLATED and p.witness is not None and p.trail:
                why += f"; this path is taken e.g. for the valid text {p.witness!r}"
        res.append((st, construct, core.loc(rel, node), why))
    return res


_CONTROLS_PRODUCER = [
    "def u64_to_hex(value):\n    return hex(value)[1:]\n",
    "def u64_to_hex(value):\n    return hex(value)[3:]\n",
    "def u64_to_hex(value):\n    return hex(value)[2:].upper()\n",
    "def u64_to_hex(value):\n    return format(value, '016x')\n",
    "def u64_to_hex(value):\n    return f'{value:#x}'\n",
    "def u64_to_hex(value):\n    return hex(value)[2:].lstrip('0')\n",
    "def u64_to_hex(value):\n    return '%X' % value\n",
    "def u64_to_hex(value):\n    return str(value)\n",
]
_CONTROLS_PRODUCER_OK = [
    "def u64_to_hex(value):\n    return format(value, 'x')\n",
    "def u64_to_hex(value):\n    return f'{value:x}'\n",
    "def u64_to_hex(value):\n    return '%x' % value\n",
    "def u64_to_hex(value):\n    s = hex(value)\n    return s[2:].lower()\n",
    "def u64_to_hex(value):\n    if value == 0:\n        return '0'\n    return hex(value)[2:].lstrip('0')\n",
    "def u64_to_hex(value):\n    return '{:x}'.format(value)\n",
]
_CONTROLS_PARSER = [
    "def hex_to_u64(s):\n    return int(s, 10)\n",
    "def hex_to_u64(s):\n    return int(s)\n",
    "def hex_to_u64(s):\n    return int(s, 16) & 0xffffffff\n",
    "def hex_to_u64(s):\n    return int(s.lstrip('0'), 16)\n",
    "def hex_to_u64(s):\n    return int(s, 0)\n",
]
_CONTROLS_PARSER_OK = [
    "def hex_to_u64(s):\n    return int(s, base=16)\n",
    "def hex_to_u64(s):\n    return int(s.lower(), 16) & 0xffffffffffffffff\n",
    "def hex_to_u64(s):\n    return int(s.strip(), 16) % (1 << 64)\n",
]


def _run_controls(ctx):
    n = 0
    for text in _CONTROLS_PRODUCER:
        fn = ast.parse(text).body[0]
        res = check_producer(ctx, fn, "<control>")
        if not any(r[0] == core.VIOLATED for r in res):
            raise core.AnalysisError(f"positive control did not fire: {text!r} -> {res}")
        n += 1
    for text in _CONTROLS_PRODUCER_OK:
        fn = ast.parse(text).body[0]
        res = check_producer(ctx, fn, "<control>")
        if any(r[0] != core.DISCHARGED for r in res):
            raise core.AnalysisError(f"negative control not silent: {text!r} -> {res}")
        n += 1
    for text in _CONTROLS_PARSER:
        fn = ast.parse(text).body[0]
        res = check_parser(ctx, fn, "<control>")
        if not any(r[0] == core.VIOLATED for r in res):
            raise core.AnalysisError(f"positive control did not fire: {text!r} -> {res}")
        n += 1
    for text in _CONTROLS_PARSER_OK:
        fn = ast.parse(text).body[0]
        res = check_parser(ctx, fn, "<control>")
        if any(r[0] != core.DISCHARGED for r in res):
            raise core.AnalysisError(f"negative control not silent: {text!r} -> {res}")
        n += 1
    # C19.4 has no instance on a healthy tree: one snippet on which it must fire, two on which it must not
    import types
    for text, want in _CONTROLS_DIVISION:
        tree = ast.parse(text)
        got = []
        shim = types.SimpleNamespace(sources=types.SimpleNamespace(tree=lambda rel, t=tree: t), bad=lambda *a, **k: got.append(a), unk=lambda *a, **k: None)
        lossy_division(shim, [x for x in tree.body if isinstance(x, ast.FunctionDef)][0], "<control>")
        if bool(got) != want:
            raise core.AnalysisError(f"control for C19.4 {'did not fire' if want else 'not silent'}: {text!r}")
        n += 1
    return n


_CONTROLS_DIVISION = [
    ("W = 1 << 32\ndef f(v):\n    if v < W:\n        return '%x' % v\n    hi = int(v / W)\n    lo = v % W\n    return '%x%08x' % (hi, lo)\n", True),
    ("W = 1 << 32\ndef f(v):\n    hi = v // W\n    lo = v % W\n    return '%x%08x' % (hi, lo)\n", False),
    ("W = 1 << 32\ndef f(v):\n    if v >= 1 << 53:\n        return hex(v)[2:]\n    hi = int(v / W)\n    return '%x' % hi\n", False),
]


def check_api_binding(ctx):
    """a5.u64_to_hex / a5.hex_to_u64 are the functions of a5/core/hex.py."""
    t = ctx.sources.tree("a5/__init__.py")
    bound = {}
    for n in t.body:
        if isinstance(n, ast.ImportFrom):
            for a in n.names:
                bound[a.asname or a.name] = (n.module, a.name, n)
        elif isinstance(n, (ast.Assign, ast.FunctionDef)):
            names = [n.name] if isinstance(n, ast.FunctionDef) else [x.id for x in n.targets if isinstance(x, ast.Name)]
            for nm in names:
                bound[nm] = ("<local>", nm, n)
    for nm in ("u64_to_hex", "hex_to_u64"):
        b = bound.get(nm)
        if b is None:
            ctx.unk("C19.0", f"a5.{nm} is not bound by a statement of a5/__init__.py", "a5/__init__.py",
                    "exported through a module-level __getattr__ or not at all: which function the public name is, is not decided here")
        elif b[0] in ("a5.core.hex", ".core.hex") and b[1] == nm:
            ctx.ok("C19.0", f"a5.{nm} is a5.core.hex.{nm}", core.loc("a5/__init__.py", b[2]), "import resolves to the analysed function")
        else:
            ctx.unk("C19.0", f"a5.{nm} bound to {b[0]}.{b[1]}", core.loc("a5/__init__.py", b[2]),
                    "public name is not the analysed function; the analysis below does not cover it")


def lossy_division(ctx, fn: ast.FunctionDef, rel: str) -> None:
    """C19.4 (round 11): a TRUE division `n / c` of the id (or of a plain copy of it) by an integer constant, on the way to the digits.
    The quotient is a 53-bit float; for ids of 54 bits and more int(n / c) can differ from n // c.  Reported only with a witness: an
    id in [0, 2**64) that reaches the division (every guard in front of it that returns or raises is folded at the witness; the
    division must not sit under a condition of its own) and for which the two quotients differ, and only when the quotient's name
    (or the division itself) occurs in a return expression.  Anything that cannot be folded is undecided."""
    tree = ctx.sources.tree(rel)
    consts: Dict[str, int] = {}

    def fold(e, env):
        if isinstance(e, ast.Constant) and isinstance(e.value, (int, bool)) and not isinstance(e.value, bool):
            return e.value
        if isinstance(e, ast.Constant) and isinstance(e.value, bool):
            return e.value
        if isinstance(e, ast.Name):
            if e.id in env:
                return env[e.id]
            if e.id in consts:
                return consts[e.id]
            raise KeyError(e.id)
        if isinstance(e, ast.UnaryOp) and isinstance(e.op, (ast.USub, ast.Not, ast.Invert)):
            v = fold(e.operand, env)
            return -v if isinstance(e.op, ast.USub) else ((not v) if isinstance(e.op, ast.Not) else ~v)
        if isinstance(e, ast.BinOp):
            l, r = fold(e.left, env), fold(e.right, env)
            ops = {ast.Add: lambda a, b: a + b, ast.Sub: lambda a, b: a - b, ast.Mult: lambda a, b: a * b, ast.LShift: lambda a, b: a << b if 0 <= b <= 256 else None,
                   ast.RShift: lambda a, b: a >> b if b >= 0 else None, ast.Pow: lambda a, b: a ** b if 0 <= b <= 256 else None, ast.FloorDiv: lambda a, b: a // b if b else None,
                   ast.Mod: lambda a, b: a % b if b else None, ast.BitAnd: lambda a, b: a & b, ast.BitOr: lambda a, b: a | b}
            f = ops.get(type(e.op))
            v = f(l, r) if f else None
            if v is None:
                raise KeyError("op")
            return v
        if isinstance(e, ast.Compare):
            vals = [fold(e.left, env)] + [fold(c, env) for c in e.comparators]
            tests = {ast.Lt: lambda a, b: a < b, ast.LtE: lambda a, b: a <= b, ast.Gt: lambda a, b: a > b, ast.GtE: lambda a, b: a >= b,
                     ast.Eq: lambda a, b: a == b, ast.NotEq: lambda a, b: a != b}
            out = True
            for op, a, b in zip(e.ops, vals, vals[1:]):
                if type(op) not in tests:
                    raise KeyError("cmp")
                out = out and tests[type(op)](a, b)
            return out
        if isinstance(e, ast.BoolOp):
            vs = [fold(v, env) for v in e.values]
            return all(vs) if isinstance(e.op, ast.And) else any(vs)
        raise KeyError(type(e).__name__)
    for n in tree.body:
        if isinstance(n, ast.Assign) and len(n.targets) == 1 and isinstance(n.targets[0], ast.Name):
            try:
                v = fold(n.value, {})
                if isinstance(v, int) and not isinstance(v, bool):
                    consts[n.targets[0].id] = v
            except KeyError:
                pass
    if not fn.args.args:
        return
    prm = fn.args.args[0].arg
    copies = {prm}
    for n in ast.walk(fn):
        if isinstance(n, ast.Assign) and isinstance(n.value, ast.Name) and n.value.id in copies:
            copies |= {t.id for t in n.targets if isinstance(t, ast.Name)}
    if any(isinstance(n, (ast.Assign, ast.AugAssign)) and any(isinstance(x, ast.Name) and x.id == prm and isinstance(x.ctx, ast.Store) for x in ast.walk(n)) for n in ast.walk(fn)):
        return                      # the parameter is re-bound: positions are not followed here
    ret_names = {x.id for n in ast.walk(fn) if isinstance(n, ast.Return) and n.value is not None for x in ast.walk(n.value) if isinstance(x, ast.Name)}
    for idx, st in enumerate(fn.body):
        if isinstance(st, (ast.If, ast.For, ast.While, ast.Try, ast.With, ast.FunctionDef)):
            continue                # only divisions in statements at the top level of the function (no condition of their own)
        truncated = {id(c_.args[0]) for c_ in ast.walk(st) if isinstance(c_, ast.Call) and len(c_.args) == 1 and not c_.keywords
                     and core.src(c_.func) in ("int", "math.floor", "math.trunc", "floor", "trunc")}
        for d in [x for x in ast.walk(st) if isinstance(x, ast.BinOp) and isinstance(x.op, ast.Div)]:
            if not (isinstance(d.left, ast.Name) and d.left.id in copies) or id(d) not in truncated:
                continue
            try:
                c = fold(d.right, {})
            except KeyError:
                continue
            if not isinstance(c, int) or isinstance(c, bool) or c <= 1:
                continue
            flows = isinstance(st, ast.Return) or (isinstance(st, ast.Assign) and any(isinstance(t, ast.Name) and t.id in ret_names for t in st.targets))
            where = core.loc(rel, d)
            construct = f"a5.core.hex.{fn.name}: `{core.src(d)}` divides the id as a float"
            if not flows:
                continue
            cands = [(1 << 64) - 1, (1 << 63) + (1 << 31) - 1, (1 << 62) - 1, (1 << 54) - 1, (1 << 60) + c - 1, 3 * (1 << 61) - 1]
            witness, undecided = None, None
            for v in cands:
                if int(v / c) == v // c:
                    continue
                reach = True
                for g in fn.body[:idx]:
                    if isinstance(g, ast.If) and g.body and isinstance(g.body[-1], (ast.Return, ast.Raise)) and not g.orelse:
                        try:
                            if fold(g.test, {k: v for k in copies}):
                                reach = False
                                break
                        except KeyError:
                            undecided = f"guard `{core.src(g.test)}` in front of the division is not folded"
                            reach = False
                            break
                    elif isinstance(g, (ast.If, ast.For, ast.While, ast.Try, ast.With)):
                        undecided = "a compound statement in front of the division is not followed"
                        reach = False
                        break
                if reach:
                    witness = v
                    break
            if witness is not None:
                ctx.bad("C19.4", construct, where,
                        f"for n = {hex(witness)} (in range, reaches this statement) int(n / {c}) = {int(witness / c)} but n // {c} = {witness // c}: the quotient passes "
                        f"through a 53-bit float, and it is written into the returned text -- the digits are those of another id")
            elif undecided:
                ctx.unk("C19.4", construct, where, undecided)


def run(ctx):
    ctx.explanation = (
        "String-shape abstract interpretation (E7) of a5/core/hex.py: the return expression of u64_to_hex is "
        "evaluated over the abstract argument 'int in [0, 2**64)' to a text shape (base, case, prefix, sign, padding, "
        "minimality, emptiness); hex_to_u64 is evaluated over the abstract argument 'hexadecimal numeral, either case, "
        "leading zeros allowed'. The required shapes are compared per return path. n is never enumerated: the verdict "
        "holds for all 2**64 values at once.")
    ctx.trusted_base = ["CPython language reference for hex/int/format/str methods (the contract table in sa/strshape.py)"]
    ctx.assumptions = ["the argument of u64_to_hex is an int in [0, 2**64) and that of hex_to_u64 a str (the property's quantifier)"]
    ncontrols = _run_controls(ctx)
    ctx.analysed["controls_run"] = ncontrols
    check_api_binding(ctx)

    prod = ctx.sources.func(HEX, "u64_to_hex")
    pars = ctx.sources.func(HEX, "hex_to_u64")
    ctx.analysed["functions"] = ["a5.core.hex.u64_to_hex", "a5.core.hex.hex_to_u64"]

    mod = Module(ctx.sources.tree(HEX), ctx.sources, HEX)
    for _ in range(4):      # what the module-level containers may hold, to a fix-point over both entry points
        mod.changed = False
        check_producer(ctx, prod, HEX, mod=mod)
        check_parser(ctx, pars, HEX, mod=mod)
        if not mod.changed:
            break
    ctx.analysed["module_containers"] = {k: [repr(x)[:80] for x in v] for k, v in mod.stores.items()}
    pres = check_producer(ctx, prod, HEX, mod=mod)
    for st, construct, where, why in pres:
        ctx.ob("C19.1", construct, st, where, why)
    qres = check_parser(ctx, pars, HEX, mod=mod)
    for st, construct, where, why in qres:
        ctx.ob("C19.2", construct, st, where, why)
    lossy_division(ctx, prod, HEX)
    ctx.floor("return paths of u64_to_hex", len(pres), 1, soft=True)
    ctx.floor("return paths of hex_to_u64", len(qres), 1, soft=True)

    allp = [r[0] for r in pres] + [r[0] for r in qres]
    if all(s == core.DISCHARGED for s in allp):
        ctx.ok("C19.3", "hex_to_u64(u64_to_hex(n)) == n for all n in [0, 2**64)", HEX,
               "derived from C19.1 and C19.2: the minimal lower-case digit string of n is in the language int(.,16) "
               "accepts and parses to n; equal ids have equal strings because the shape is canonical")
    elif any(s == core.VIOLATED for s in allp):
        ctx.unk("C19.3", "hex_to_u64(u64_to_hex(n)) == n for all n in [0, 2**64)", HEX,
                "not derived: a premise (C19.1/C19.2) is violated")
    else:
        ctx.unk("C19.3", "hex_to_u64(u64_to_hex(n)) == n for all n in [0, 2**64)", HEX,
                "not derived: a premise (C19.1/C19.2) is undecided")
