"""C19 -- hex text form of an id round-trips for every 64-bit value.

Decided with the string-shape domain E7 (sa/strshape.py) on the two functions of
a5/core/hex.py, for every n in [0, 2**64) at once (n is an interval, never enumerated).
"""
from __future__ import annotations

import ast
from typing import Dict, List, Optional, Tuple

from . import core
from .strshape import (ConstStr, Evaluator, IntV, ParsedV, StrV, TextV, Top)

HEX = "a5/core/hex.py"
U64 = IntV(0, 2 ** 64 - 1)


# ---------------------------------------------------------------------------------
# tiny path walker for one-parameter functions
# ---------------------------------------------------------------------------------

class Path:
    def __init__(self, env, certain=True, trail=()):
        self.env = env
        self.certain = certain   # False once an undecidable branch condition was passed
        self.trail = trail


def _split_int(v: IntV, op, c: int) -> Tuple[Optional[IntV], Optional[IntV]]:
    """(range where `v op c` holds, range where it does not) -- None = empty"""
    def mk(lo, hi):
        return IntV(lo, hi) if lo <= hi else None
    if isinstance(op, ast.Lt):
        return mk(v.lo, min(v.hi, c - 1)), mk(max(v.lo, c), v.hi)
    if isinstance(op, ast.LtE):
        return mk(v.lo, min(v.hi, c)), mk(max(v.lo, c + 1), v.hi)
    if isinstance(op, ast.Gt):
        return mk(max(v.lo, c + 1), v.hi), mk(v.lo, min(v.hi, c))
    if isinstance(op, ast.GtE):
        return mk(max(v.lo, c), v.hi), mk(v.lo, min(v.hi, c - 1))
    if isinstance(op, ast.Eq):
        if c < v.lo or c > v.hi:
            return None, v
        if v.lo == v.hi:
            return v, None
        # the complement of a point is not an interval unless the point is an end
        if c == v.lo:
            return IntV(c, c), IntV(c + 1, v.hi)
        if c == v.hi:
            return IntV(c, c), IntV(v.lo, c - 1)
        return IntV(c, c), v
    if isinstance(op, ast.NotEq):
        t, f = _split_int(v, ast.Eq(), c)
        return f, t
    return v, v


def walk(stmts: List[ast.stmt], paths: List[Path], outcomes: list, param: str):
    """Executes statements abstractly over a set of paths; appends (kind, value, path, node)
    to outcomes for every return/raise.  Returns the paths that fall through."""
    for st in stmts:
        if not paths:
            return []
        if isinstance(st, ast.Expr) and isinstance(st.value, ast.Constant):
            continue  # docstring
        if isinstance(st, ast.Pass):
            continue
        if isinstance(st, (ast.Assign, ast.AnnAssign)):
            tgt = st.targets[0] if isinstance(st, ast.Assign) else st.target
            val = st.value
            for p in paths:
                if isinstance(tgt, ast.Name) and val is not None and (not isinstance(st, ast.Assign) or len(st.targets) == 1):
                    p.env[tgt.id] = Evaluator(p.env).eval(val)
                else:
                    for n in ast.walk(tgt):
                        if isinstance(n, ast.Name):
                            p.env[n.id] = Top("assignment form not modelled")
            continue
        if isinstance(st, ast.Return):
            for p in paths:
                v = Evaluator(p.env).eval(st.value) if st.value is not None else Top("return None")
                outcomes.append(("return", v, p, st))
            return []
        if isinstance(st, ast.Raise):
            for p in paths:
                outcomes.append(("raise", None, p, st))
            return []
        if isinstance(st, ast.If):
            then_paths, else_paths = [], []
            for p in paths:
                t_env, f_env, certain = branch(st.test, p.env, param)
                if t_env is not None:
                    then_paths.append(Path(t_env, p.certain and certain, p.trail + (f"if {core.src(st.test)}",)))
                if f_env is not None:
                    else_paths.append(Path(f_env, p.certain and certain, p.trail + (f"if not {core.src(st.test)}",)))
            a = walk(st.body, then_paths, outcomes, param)
            b = walk(st.orelse, else_paths, outcomes, param)
            paths = a + b
            continue
        # anything else: give up on these paths
        for p in paths:
            outcomes.append(("unmodelled", Top(f"statement {type(st).__name__} not modelled"), p, st))
        return []
    return paths


def branch(test: ast.expr, env: Dict[str, object], param: str):
    """-> (env if true | None, env if false | None, decided?)"""
    ev = Evaluator(env)
    if isinstance(test, ast.UnaryOp) and isinstance(test.op, ast.Not):
        t, f, c = branch(test.operand, env, param)
        return f, t, c
    if (isinstance(test, ast.Call) and isinstance(test.func, ast.Name) and test.func.id == "isinstance"
            and len(test.args) == 2 and isinstance(test.args[0], ast.Name)):
        v = env.get(test.args[0].id)
        names = {n.id for n in ast.walk(test.args[1]) if isinstance(n, ast.Name)}
        if isinstance(v, IntV) and "int" in names:
            return dict(env), None, True
        if isinstance(v, TextV) and "str" in names:
            return dict(env), None, True
    if isinstance(test, ast.Compare) and len(test.ops) == 1:
        l, r = test.left, test.comparators[0]
        op = test.ops[0]
        if isinstance(l, ast.Name) and isinstance(env.get(l.id), IntV):
            c = ev.const_int(r)
            if c is not None:
                t, f = _split_int(env[l.id], op, c)
                te = dict(env, **{l.id: t}) if t is not None else None
                fe = dict(env, **{l.id: f}) if f is not None else None
                return te, fe, True
        if isinstance(r, ast.Name) and isinstance(env.get(r.id), IntV):
            c = ev.const_int(l)
            flip = {ast.Lt: ast.Gt, ast.LtE: ast.GtE, ast.Gt: ast.Lt, ast.GtE: ast.LtE, ast.Eq: ast.Eq, ast.NotEq: ast.NotEq}
            if c is not None and type(op) in flip:
                t, f = _split_int(env[r.id], flip[type(op)](), c)
                te = dict(env, **{r.id: t}) if t is not None else None
                fe = dict(env, **{r.id: f}) if f is not None else None
                return te, fe, True
    if isinstance(test, ast.Name) and isinstance(env.get(test.id), IntV):
        t, f = _split_int(env[test.id], ast.NotEq(), 0)
        te = dict(env, **{test.id: t}) if t is not None else None
        fe = dict(env, **{test.id: f}) if f is not None else None
        return te, fe, True
    return dict(env), dict(env), False


def analyse_function(fn: ast.FunctionDef, init) -> list:
    if len(fn.args.args) < 1:
        raise core.AnalysisError(f"{fn.name} has no parameter")
    param = fn.args.args[0].arg
    outcomes: list = []
    rest = walk(fn.body, [Path({param: init})], outcomes, param)
    for p in rest:
        outcomes.append(("return", Top("falls off the end (returns None)"), p, fn))
    return outcomes


# ---------------------------------------------------------------------------------
# judging shapes
# ---------------------------------------------------------------------------------

def judge_producer(v, rng=None) -> Tuple[str, str]:
    """-> (state, explanation) for one return value of u64_to_hex"""
    if isinstance(v, Top):
        return core.UNDECIDED, f"shape not determined: {v.why}"
    if isinstance(v, ConstStr):
        if isinstance(rng, IntV) and rng.lo == rng.hi:
            want = "%x" % rng.lo          # canonical text of that single value
            if v.s == want:
                return core.DISCHARGED, f"constant {v.s!r} is the canonical text of the only value {rng.lo} on this path"
            return core.VIOLATED, f"constant {v.s!r} returned for n = {rng.lo}, canonical text is {want!r}"
        if isinstance(rng, IntV):
            return core.VIOLATED, f"the same constant text {v.s!r} for every n in [{rng.lo}, {rng.hi}]"
        return core.UNDECIDED, f"constant text {v.s!r}"
    if not isinstance(v, StrV):
        return core.VIOLATED, f"does not return text: {v!r}"
    hist = " -> ".join(v.history)
    dev = []
    if v.base != 16:
        dev.append(f"base {v.base} digits, not hexadecimal")
    if v.case == "upper":
        dev.append("upper-case digits")
    if v.sign + v.prefix:
        dev.append(f"text starts with {v.sign + v.prefix!r} (prefix/sign)")
    if v.suffix:
        dev.append(f"text ends with literal {v.suffix!r}")
    if v.pad > 1:
        dev.append(f"padded to width {v.pad} with {v.padchar!r}")
    if v.dropped:
        dev.append(f"{v.dropped} leading digit(s) removed")
    if v.may_be_empty:
        dev.append("empty text for n = 0")
    if not v.minimal and not v.dropped:
        dev.append("digits not minimal")
    if dev:
        return core.VIOLATED, "; ".join(dev) + f"  [{hist}]"
    return core.DISCHARGED, f"hexadecimal, lower case, no prefix/sign/padding, minimal digits, never empty  [{hist}]"


def judge_parser(v) -> Tuple[str, str]:
    if isinstance(v, Top):
        return core.UNDECIDED, f"parser not determined: {v.why}"
    if isinstance(v, IntV):
        return core.VIOLATED, "returns a constant/interval not derived from the text"
    if not isinstance(v, ParsedV):
        return core.VIOLATED, f"does not return a parsed integer: {v!r}"
    hist = " -> ".join(v.text.history + v.history)
    dev = []
    if v.base is None:
        dev.append("int() without base parses decimal, not hexadecimal ('ff' raises, '10' -> 10)")
    elif v.base == 0:
        dev.append("int(.., 0) requires a 0x prefix; the canonical text has none")
    elif v.base != 16:
        dev.append(f"parses base {v.base}, not 16")
    if v.text.may_be_empty:
        dev.append("text '0' becomes '' before parsing (int('') raises)")
    if v.mask_bits is not None and v.mask_bits < 64:
        dev.append(f"result reduced to {v.mask_bits} bits (< 64)")
    if dev:
        return core.VIOLATED, "; ".join(dev) + f"  [{hist}]"
    return core.DISCHARGED, f"int(text, 16) on the unmodified text, no narrowing below 64 bits; accepts upper case and leading zeros  [{hist}]"


# ---------------------------------------------------------------------------------

def check_producer(ctx, fn: ast.FunctionDef, rel: str, record=True):
    res = []
    for kind, v, p, node in analyse_function(fn, U64):
        rng = p.env.get(fn.args.args[0].arg)
        trail = " / ".join(p.trail) or "unconditional"
        construct = f"a5.core.hex.{fn.name} return `{core.src(node.value) if isinstance(node, ast.Return) and node.value is not None else core.src(node)}` on path [{trail}]"
        if kind == "raise":
            st, why = (core.VIOLATED if p.certain else core.UNDECIDED,
                       f"raises for n in {rng} instead of returning text")
        elif kind == "unmodelled":
            st, why = core.UNDECIDED, v.why
        else:
            st, why = judge_producer(v, rng)
            if st == core.VIOLATED and not p.certain:
                st, why = core.UNDECIDED, "on a path whose feasibility is not decided: " + why
        res.append((st, construct, core.loc(rel, node), why))
    return res


def check_parser(ctx, fn: ast.FunctionDef, rel: str):
    res = []
    for kind, v, p, node in analyse_function(fn, TextV()):
        trail = " / ".join(p.trail) or "unconditional"
        construct = f"a5.core.hex.{fn.name} return `{core.src(node.value) if isinstance(node, ast.Return) and node.value is not None else core.src(node)}` on path [{trail}]"
        if kind == "raise":
            st, why = core.UNDECIDED, "raises on a path whose condition on the text is not modelled"
        elif kind == "unmodelled":
            st, why = core.UNDECIDED, v.why
        else:
            st, why = judge_parser(v)
            if st == core.VIOLATED and not p.certain:
                st, why = core.UNDECIDED, "on a path whose feasibility is not decided: " + why
        res.append((st, construct, core.loc(rel, node), why))
    return res


_CONTROLS_PRODUCER = [
    "def u64_to_hex(value):\n    return hex(value)[1:]\n",
    "def u64_to_hex(value):\n    return hex(value)[3:]\n",
    "def u64_to_hex(value):\n    return hex(value)[2:].upper()\n",
    "def u64_to_hex(value):\n    return format(value, '016x')\n",
    "def u64_to_hex(value):\n    return f'{value:#x}'\n",
    "def u64_to_hex(value):\n    return hex(value)[2:].lstrip('0')\n",
    "def u64_to_hex(value):\n    return '%X' % value\n",
    "def u64_to_hex(value):\n    return str(value)\n",
]
_CONTROLS_PRODUCER_OK = [
    "def u64_to_hex(value):\n    return format(value, 'x')\n",
    "def u64_to_hex(value):\n    return f'{value:x}'\n",
    "def u64_to_hex(value):\n    return '%x' % value\n",
    "def u64_to_hex(value):\n    s = hex(value)\n    return s[2:].lower()\n",
    "def u64_to_hex(value):\n    if value == 0:\n        return '0'\n    return hex(value)[2:].lstrip('0')\n",
    "def u64_to_hex(value):\n    return '{:x}'.format(value)\n",
]
_CONTROLS_PARSER = [
    "def hex_to_u64(s):\n    return int(s, 10)\n",
    "def hex_to_u64(s):\n    return int(s)\n",
    "def hex_to_u64(s):\n    return int(s, 16) & 0xffffffff\n",
    "def hex_to_u64(s):\n    return int(s.lstrip('0'), 16)\n",
    "def hex_to_u64(s):\n    return int(s, 0)\n",
]
_CONTROLS_PARSER_OK = [
    "def hex_to_u64(s):\n    return int(s, base=16)\n",
    "def hex_to_u64(s):\n    return int(s.lower(), 16) & 0xffffffffffffffff\n",
    "def hex_to_u64(s):\n    return int(s.strip(), 16) % (1 << 64)\n",
]


def _run_controls(ctx):
    n = 0
    for text in _CONTROLS_PRODUCER:
        fn = ast.parse(text).body[0]
        res = check_producer(ctx, fn, "<control>")
        if not any(r[0] == core.VIOLATED for r in res):
            raise core.AnalysisError(f"positive control did not fire: {text!r} -> {res}")
        n += 1
    for text in _CONTROLS_PRODUCER_OK:
        fn = ast.parse(text).body[0]
        res = check_producer(ctx, fn, "<control>")
        if any(r[0] != core.DISCHARGED for r in res):
            raise core.AnalysisError(f"negative control not silent: {text!r} -> {res}")
        n += 1
    for text in _CONTROLS_PARSER:
        fn = ast.parse(text).body[0]
        res = check_parser(ctx, fn, "<control>")
        if not any(r[0] == core.VIOLATED for r in res):
            raise core.AnalysisError(f"positive control did not fire: {text!r} -> {res}")
        n += 1
    for text in _CONTROLS_PARSER_OK:
        fn = ast.parse(text).body[0]
        res = check_parser(ctx, fn, "<control>")
        if any(r[0] != core.DISCHARGED for r in res):
            raise core.AnalysisError(f"negative control not silent: {text!r} -> {res}")
        n += 1
    return n


def check_api_binding(ctx):
    """a5.u64_to_hex / a5.hex_to_u64 are the functions of a5/core/hex.py."""
    t = ctx.sources.tree("a5/__init__.py")
    bound = {}
    for n in t.body:
        if isinstance(n, ast.ImportFrom):
            for a in n.names:
                bound[a.asname or a.name] = (n.module, a.name, n)
        elif isinstance(n, (ast.Assign, ast.FunctionDef)):
            names = [n.name] if isinstance(n, ast.FunctionDef) else [x.id for x in n.targets if isinstance(x, ast.Name)]
            for nm in names:
                bound[nm] = ("<local>", nm, n)
    for nm in ("u64_to_hex", "hex_to_u64"):
        b = bound.get(nm)
        if b is None:
            ctx.bad("C19.0", f"a5.{nm} not exported", "a5/__init__.py", f"a5/__init__.py does not bind {nm}")
        elif b[0] in ("a5.core.hex", ".core.hex") and b[1] == nm:
            ctx.ok("C19.0", f"a5.{nm} is a5.core.hex.{nm}", core.loc("a5/__init__.py", b[2]), "import resolves to the analysed function")
        else:
            ctx.unk("C19.0", f"a5.{nm} bound to {b[0]}.{b[1]}", core.loc("a5/__init__.py", b[2]),
                    "public name is not the analysed function; the analysis below does not cover it")


def run(ctx):
    ctx.explanation = (
        "String-shape abstract interpretation (E7) of a5/core/hex.py: the return expression of u64_to_hex is "
        "evaluated over the abstract argument 'int in [0, 2**64)' to a text shape (base, case, prefix, sign, padding, "
        "minimality, emptiness); hex_to_u64 is evaluated over the abstract argument 'hexadecimal numeral, either case, "
        "leading zeros allowed'. The required shapes are compared per return path. n is never enumerated: the verdict "
        "holds for all 2**64 values at once.")
    ctx.trusted_base = ["CPython language reference for hex/int/format/str methods (the contract table in sa/strshape.py)"]
    ctx.assumptions = ["the argument of u64_to_hex is an int in [0, 2**64) and that of hex_to_u64 a str (the property's quantifier)"]
    ncontrols = _run_controls(ctx)
    ctx.analysed["controls_run"] = ncontrols
    check_api_binding(ctx)

    prod = ctx.sources.func(HEX, "u64_to_hex")
    pars = ctx.sources.func(HEX, "hex_to_u64")
    ctx.analysed["functions"] = ["a5.core.hex.u64_to_hex", "a5.core.hex.hex_to_u64"]

    pres = check_producer(ctx, prod, HEX)
    for st, construct, where, why in pres:
        ctx.ob("C19.1", construct, st, where, why)
    qres = check_parser(ctx, pars, HEX)
    for st, construct, where, why in qres:
        ctx.ob("C19.2", construct, st, where, why)
    ctx.floor("return paths of u64_to_hex", len(pres), 1)
    ctx.floor("return paths of hex_to_u64", len(qres), 1)

    allp = [r[0] for r in pres] + [r[0] for r in qres]
    if all(s == core.DISCHARGED for s in allp):
        ctx.ok("C19.3", "hex_to_u64(u64_to_hex(n)) == n for all n in [0, 2**64)", HEX,
               "derived from C19.1 and C19.2: the minimal lower-case digit string of n is in the language int(.,16) "
               "accepts and parses to n; equal ids have equal strings because the shape is canonical")
    elif any(s == core.VIOLATED for s in allp):
        ctx.unk("C19.3", "hex_to_u64(u64_to_hex(n)) == n for all n in [0, 2**64)", HEX,
                "not derived: a premise (C19.1/C19.2) is violated")
    else:
        ctx.unk("C19.3", "hex_to_u64(u64_to_hex(n)) == n for all n in [0, 2**64)", HEX,
                "not derived: a premise (C19.1/C19.2) is undecided")
