"""ad-hoc: run claimed checks on stored changes without rewriting their meta.json.
   /venv/bin/python sa/tryseeds.py [-p C08,C09] <seed-id-or-glob> ...   prints one line per (change, property) whose outcome is not "silent as expected"."""
from __future__ import annotations
import fnmatch, json, os, sys
from concurrent.futures import ThreadPoolExecutor
HERE = os.path.dirname(os.path.abspath(__file__))
sys.path.insert(0, os.path.dirname(HERE))
from sa.cli import CLAIMED  # noqa: E402
from sa.mutate import run_patch  # noqa: E402
SEEDED = os.path.join(os.path.dirname(HERE), "seeded")


def one(job):
    name, p = job
    d = os.path.join(SEEDED, name)
    meta = json.load(open(os.path.join(d, "meta.json")))
    truth, may = set(meta.get("breaks_claimed_properties", [])), set(meta.get("may_break_claimed_properties", []))
    try:
        code, out = run_patch(p, os.path.join(d, "patch.diff"))
    except Exception as e:
        return name, p, "ERROR", repr(e)[:200]
    first = next((l.strip()[:230] for l in out.splitlines() if l.startswith("  rule=")), "")
    und = [l.strip()[:200] for l in out.splitlines() if l.startswith("UNDECIDED")]
    if code == 1:
        return name, p, ("reported" if p in truth else "reported(may)" if p in may else "FALSE-ALARM"), first
    if code == 0:
        if p in truth:
            return name, p, ("undecided" if und else "MISSED"), (und[0] if und else "")
        return name, p, "silent", ""
    return name, p, "ANALYSIS-ERROR", (out.strip().splitlines() or [""])[0][:200]


def main(argv):
    props = CLAIMED
    if argv and argv[0] == "-p":
        props = argv[1].split(","); argv = argv[2:]
    allnames = sorted(n for n in os.listdir(SEEDED) if os.path.isfile(os.path.join(SEEDED, n, "meta.json")))
    names = [n for n in allnames if any(fnmatch.fnmatch(n, pat) for pat in argv)]
    jobs = [(n, p) for n in names for p in props]
    os.environ.setdefault("A5_JOBS", "2")
    tally = {}
    with ThreadPoolExecutor(max_workers=int(os.environ.get("TRY_JOBS", "10"))) as ex:
        for name, p, verdict, detail in ex.map(one, jobs):
            tally[verdict] = tally.get(verdict, 0) + 1
            if verdict != "silent":
                print(f"{name:14s} {p} {verdict:14s} {detail}", flush=True)
    print(tally)


if __name__ == "__main__":
    main(sys.argv[1:])
