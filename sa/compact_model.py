"""Static model of a5.core.compact.compact used by C08 and C09.

1. structure: the working list W is a sorted, duplicate-free copy of the argument; an outer
   `while flag` loop runs passes; a pass scans W with an index and builds the next list.
2. body: the scan body is interpreted abstractly (sa/absint.py) for one GENERIC iteration and
   every resolution of the current cell; the current cell is the generic child
   base + stride * A  of a generic parent P (A = sibling position).  Every path through the body is
   summarised as (elements appended, index advance, flag, path condition).
3. order: the belief "numeric (key) order is hierarchical order" is decided on the id forms:
   M(q)  the parent map level q+1 -> q is monotone in key order,
   W(q)  every level-q cell lies within the key span of its children.
"""
from __future__ import annotations

import ast
import itertools
from dataclasses import dataclass, field
from typing import Any, Dict, List, Optional, Tuple

from .absint import forks_reset as absint_forks_reset
from . import codec, core
from .absint import (Budget, CellV, CondV, ExcV, FuncRef, GenericList, Interp, ListV, NONE, OriginV, Seg, State, Unknown,
                     _Unmodelled, subst_value)
from .codec import (COMPACT, SER, Consts, OriginModel, describe_path, eval_lin, same_or_refuted, sym_in, valid_id_from_guard)
from .lin import Atom, Fn, Lin, ModA, Slice, Sym, compare, floordiv, mod, shl

Q = "a5.core.compact.compact"


# ---------------------------------------------------------------------------------
# 1. structure
# ---------------------------------------------------------------------------------

@dataclass
class Structure:
    fn: ast.FunctionDef
    param: str
    ok: bool = False
    problems: List[Tuple[str, Optional[ast.AST]]] = field(default_factory=list)
    W: Optional[str] = None
    init: Optional[ast.Assign] = None
    chain: List[str] = field(default_factory=list)     # outermost first: e.g. ['sorted', 'set']
    key_fn: Optional[str] = None
    sort_reverse: bool = False
    outer: Optional[ast.While] = None
    flag: Optional[str] = None
    inner: Optional[ast.While] = None
    idx: Optional[str] = None
    result: Optional[str] = None
    flag_reset: Optional[ast.AST] = None
    result_reset: Optional[ast.AST] = None
    idx_reset: Optional[ast.AST] = None
    rebind: Optional[ast.AST] = None
    final_return: Optional[ast.Return] = None
    pre_mutations: List[ast.AST] = field(default_factory=list)
    param_rebound: Any = None
    inits: List[Tuple[ast.Assign, List[str], Optional[str], bool, Optional[str]]] = field(default_factory=list)
    # (assignment, chain, key function, reverse, guard description) for every initialisation path of the working list


def collection_chain(e: ast.expr, param: str) -> Optional[Tuple[List[str], Optional[ast.Call]]]:
    """`sorted(set(cells))` -> (['sorted', 'set'], the sorted-call).  None if the expression is not a
    chain of collection constructors over the parameter."""
    ops: List[str] = []
    sorted_call = None
    cur = e
    while True:
        if isinstance(cur, ast.Name):
            return (ops, sorted_call) if cur.id == param else None
        if isinstance(cur, ast.Call) and isinstance(cur.func, ast.Name) and cur.func.id in ("sorted", "set", "list", "tuple", "frozenset") \
                and len(cur.args) == 1:
            ops.append(cur.func.id)
            if cur.func.id == "sorted":
                if sorted_call is None:
                    sorted_call = cur
            elif cur.keywords:
                return None
            cur = cur.args[0]
            continue
        if isinstance(cur, ast.Call) and isinstance(cur.func, ast.Attribute) and cur.func.attr == "fromkeys" \
                and isinstance(cur.func.value, ast.Name) and cur.func.value.id == "dict" and len(cur.args) == 1:
            ops.append("set")
            cur = cur.args[0]
            continue
        if isinstance(cur, ast.Set) and len(cur.elts) == 1 and isinstance(cur.elts[0], ast.Starred):
            ops.append("set")
            cur = cur.elts[0].value
            continue
        return None


def extract_structure(sources: core.Sources) -> Structure:
    fn = sources.func(COMPACT, "compact")
    if not fn.args.args:
        raise core.AnalysisError("compact has no parameter")
    st = Structure(fn, fn.args.args[0].arg)
    body = [s for s in fn.body if not (isinstance(s, ast.Expr) and isinstance(s.value, ast.Constant))]
    outer = [s for s in body if isinstance(s, ast.While)]
    if len(outer) != 1:
        st.problems.append((f"expected one top-level while loop, found {len(outer)}", fn))
        return st
    st.outer = outer[0]
    if not isinstance(st.outer.test, ast.Name):
        st.problems.append(("outer loop condition is not a plain flag variable", st.outer))
        return st
    st.flag = st.outer.test.id
    inner = [s for s in st.outer.body if isinstance(s, ast.While)]
    if len(inner) != 1:
        st.problems.append((f"expected one scan loop inside the pass, found {len(inner)}", st.outer))
        return st
    st.inner = inner[0]
    t = st.inner.test
    if not (isinstance(t, ast.Compare) and len(t.ops) == 1 and isinstance(t.ops[0], ast.Lt) and isinstance(t.left, ast.Name)
            and isinstance(t.comparators[0], ast.Call) and isinstance(t.comparators[0].func, ast.Name) and t.comparators[0].func.id == "len"
            and len(t.comparators[0].args) == 1 and isinstance(t.comparators[0].args[0], ast.Name)):
        st.problems.append((f"scan loop condition `{core.src(t)}` is not `index < len(list)`", st.inner))
        return st
    st.idx = t.left.id
    st.W = t.comparators[0].args[0].id
    # statements of the pass other than the scan
    for s in st.outer.body:
        if s is st.inner:
            continue
        if isinstance(s, ast.Assign) and len(s.targets) == 1 and isinstance(s.targets[0], ast.Name):
            nm = s.targets[0].id
            if nm == st.flag and isinstance(s.value, ast.Constant) and s.value.value is False:
                st.flag_reset = s
                continue
            if nm == st.idx and isinstance(s.value, ast.Constant) and s.value.value == 0:
                st.idx_reset = s
                continue
            if isinstance(s.value, ast.List) and not s.value.elts:
                st.result = nm
                st.result_reset = s
                continue
            if nm == st.W and isinstance(s.value, ast.Name):
                st.rebind = s
                continue
        st.problems.append((f"statement `{core.src(s)[:60]}` in the pass is not part of the modelled shape", s))
    # working-list initialisation before the loop
    pre = body[:body.index(st.outer)]
    flat: List[Tuple[ast.stmt, Optional[str]]] = []

    def flatten(stmts, guard):
        for x in stmts:
            if isinstance(x, ast.If) and any(isinstance(n, ast.Assign) and any(isinstance(t, ast.Name) and t.id == st.W for t in n.targets) for n in ast.walk(x)):
                g = core.src(x.test)
                flatten(x.body, g if guard is None else f"{guard} and {g}")
                flatten(x.orelse, f"not ({g})" if guard is None else f"{guard} and not ({g})")
            else:
                flat.append((x, guard))
    flatten(pre, None)
    # the parameter itself may be re-bound before the working list is built:  cells = list(cells)  /  cells = helper(cells)
    extra_ops: List[str] = []
    tainted = False
    for n_ in [n_ for x in pre for n_ in ast.walk(x)]:
        if isinstance(n_, ast.Assign) and any(isinstance(t, ast.Name) and t.id == st.param for t in n_.targets) and st.param != st.W:
            chp = collection_chain(n_.value, st.param)
            if chp is None or chp[1] is not None:
                tainted = True
            else:
                extra_ops.extend(chp[0])
        elif isinstance(n_, (ast.AugAssign, ast.For, ast.With)) and any(isinstance(t, ast.Name) and t.id == st.param and isinstance(t.ctx, ast.Store) for t in ast.walk(n_)):
            tainted = True
    st.param_rebound = "?" if tainted else extra_ops

    def with_rebinding(ch):
        if ch is None:
            return None
        if tainted:
            return (["?"], ch[1])
        return (list(ch[0]) + extra_ops, ch[1])
    for s, guard in flat:
        if isinstance(s, ast.Assign) and len(s.targets) == 1 and isinstance(s.targets[0], ast.Name) and s.targets[0].id == st.W:
            ch0 = with_rebinding(collection_chain(s.value, st.param))
            if ch0 is not None:
                kf, rev = None, False
                if ch0[1] is not None:
                    for k in ch0[1].keywords:
                        if k.arg == "key" and isinstance(k.value, ast.Name):
                            kf = k.value.id
                        elif k.arg == "reverse":
                            rev = not (isinstance(k.value, ast.Constant) and k.value.value is False)
                st.inits.append((s, ch0[0], kf, rev, guard))
            else:
                st.inits.append((s, ["?"], None, False, guard))
    for s, guard in flat:
        if guard is not None:
            continue
        if isinstance(s, ast.Assign) and len(s.targets) == 1 and isinstance(s.targets[0], ast.Name) and s.targets[0].id == st.W:
            ch = with_rebinding(collection_chain(s.value, st.param))
            if ch is not None:
                st.init = s
                st.chain, sc = ch
                if sc is not None:
                    for k in sc.keywords:
                        if k.arg == "key" and isinstance(k.value, ast.Name):
                            st.key_fn = k.value.id
                        elif k.arg == "key":
                            st.problems.append((f"sort key `{core.src(k.value)}` is not a named function", s))
                        elif k.arg == "reverse":
                            st.sort_reverse = not (isinstance(k.value, ast.Constant) and k.value.value is False)
            else:
                st.init = s
                st.chain = ["?"]
        for n in ast.walk(s):
            if isinstance(n, ast.Call) and isinstance(n.func, ast.Attribute) and isinstance(n.func.value, ast.Name) \
                    and n.func.value.id in (st.param, st.W) and n.func.attr in ("sort", "reverse", "append", "extend", "pop", "remove", "clear", "insert"):
                st.pre_mutations.append(n)
    post = body[body.index(st.outer) + 1:]
    rets = [s for s in post if isinstance(s, ast.Return)]
    if len(rets) == 1 and isinstance(rets[0].value, ast.Name):
        st.final_return = rets[0]
    if st.init is None and st.inits:
        st.init = st.inits[0][0]
        st.chain = st.inits[0][1]
        st.key_fn = st.inits[0][2]
    st.ok = all([st.flag, st.inner, st.idx, st.W, st.result, st.init is not None])
    return st


# ---------------------------------------------------------------------------------
# 2. sibling model per resolution, body paths
# ---------------------------------------------------------------------------------

@dataclass
class Siblings:
    r: int
    parent: Lin                  # id form of the generic parent P (level r-1; WORLD for r = 0)
    cell: Lin                    # generic child = base + stride * A
    A: Sym                       # sibling position symbol, range [0, k-1]
    k: int
    stride: int
    base: Lin
    last: Lin
    note: str = ""


def sibling_model(interp: Interp, ids: Dict[int, Optional[Lin]], r: int) -> Optional[Siblings]:
    """children(P, r) as an arithmetic progression base + stride*A, A in [0, k-1]"""
    P = ids.get(r - 1)
    if P is None:
        return None
    saved = interp.unroll_ranges
    interp.unroll_ranges = 1
    try:
        outs = interp.run_function(SER, "cell_to_children", [P, Lin(r)])
    finally:
        interp.unroll_ranges = saved
    if len(outs) != 1 or outs[0].kind != "return" or not isinstance(outs[0].value, ListV) or outs[0].value.unknown:
        return None
    lst: ListV = outs[0].value
    if len(lst.segs) != 1 or not isinstance(lst.segs[0].elem, Lin):
        return None
    e: Lin = lst.segs[0].elem
    live = [(b, c) for b, c in lst.segs[0].binders if c > 1]
    if len(live) != 1:
        return None
    b, k = live[0]
    # the single term through which the binder enters
    terms = [(a, c) for a, c in e.terms if any(s.name == b.name for s in Lin.of(a).syms())]
    if len(terms) != 1:
        return None
    atom, coef = terms[0]
    note = ""
    A = Sym("A", 0, k - 1)
    if isinstance(atom, Sym) and atom.name == b.name:
        pass
    elif isinstance(atom, ModA) and atom.m == k:
        # (binder + stuff) % k with unit coefficient: a bijection of [0, k-1]
        cb = dict((repr(x), c) for x, c in atom.lin.terms).get(b.name)
        if cb is None or cb % k not in (1, k - 1):
            return None
        note = f"sibling position is {atom} (a bijection of the loop variable {b.name} onto [0, {k - 1}])"
    else:
        return None
    rest = Lin(e.const, {a: c for a, c in e.terms if a is not atom and a != atom})
    if coef <= 0:
        return None
    cell = rest + Lin.of(A).scale(coef)
    return Siblings(r, P, cell, A, k, coef, rest, rest + coef * (k - 1), note)


@dataclass
class BodyPath:
    appended: List[Any]
    advance: Any            # Lin: new index - old index
    flag: Any               # value of the flag variable after the iteration
    conds: List[Tuple[CondV, bool]]
    signal: Any
    effects: List[Tuple[str, Any]]
    notes: List[str]
    carried: Dict[str, Any] = field(default_factory=dict)
    watched: Dict[str, Any] = field(default_factory=dict)   # forms of the rule (expected parent, sibling base) as the path knows them: the refinements of the path's symbols applied


def carried_variables(st: Structure) -> List[str]:
    """variables of the scan body that may be read before they are (definitely) assigned in the same iteration, i.e. whose
    value can come from an earlier iteration (other than the index, the result list, the flag and the working list)"""
    special = {st.idx, st.result, st.flag, st.W, st.param}
    carried: List[str] = []

    def expr_reads(e: ast.AST) -> List[str]:
        return [n.id for n in ast.walk(e) if isinstance(n, ast.Name) and isinstance(n.ctx, ast.Load)]

    def block(stmts, assigned: set) -> set:
        for s_ in stmts:
            if isinstance(s_, ast.If):
                for nm in expr_reads(s_.test):
                    note(nm, assigned)
                a = block(s_.body, set(assigned))
                b = block(s_.orelse, set(assigned))
                assigned = a & b
            elif isinstance(s_, (ast.For, ast.While)):
                for nm in expr_reads(s_.iter if isinstance(s_, ast.For) else s_.test):
                    note(nm, assigned)
                inner = set(assigned)
                if isinstance(s_, ast.For):
                    inner |= {n.id for n in ast.walk(s_.target) if isinstance(n, ast.Name)}
                block(s_.body, inner)
            elif isinstance(s_, ast.Assign):
                for nm in expr_reads(s_.value):
                    note(nm, assigned)
                for t in s_.targets:
                    for n in ast.walk(t):
                        if isinstance(n, ast.Name) and isinstance(n.ctx, ast.Store):
                            assigned.add(n.id)
                        elif isinstance(n, ast.Name):
                            note(n.id, assigned)
            elif isinstance(s_, ast.AugAssign):
                for nm in expr_reads(s_.value) + expr_reads(s_.target) + ([s_.target.id] if isinstance(s_.target, ast.Name) else []):
                    note(nm, assigned)
                if isinstance(s_.target, ast.Name):
                    assigned.add(s_.target.id)
            else:
                for child in ast.walk(s_):
                    if isinstance(child, ast.Name) and isinstance(child.ctx, ast.Load):
                        note(child.id, assigned)
        return assigned

    body_assigned = {n.id for b in st.inner.body for n in ast.walk(b) if isinstance(n, ast.Name) and isinstance(n.ctx, ast.Store)}

    def note(nm: str, assigned: set):
        if nm in body_assigned and nm not in assigned and nm not in special and nm not in carried:
            carried.append(nm)
    block(st.inner.body, set())
    return carried


def initial_carried(interp: Interp, st: Structure, names: List[str]) -> Dict[str, Any]:
    """values of the carried variables when the first iteration of a pass starts (assignments before / at the top of the pass)"""
    vals: Dict[str, Any] = {}
    state = State()
    state.frames = [dict(interp.module_env(COMPACT))]
    body = [s for s in st.fn.body if not (isinstance(s, ast.Expr) and isinstance(s.value, ast.Constant))]
    pre = body[:body.index(st.outer)] + [s for s in st.outer.body if s is not st.inner and st.outer.body.index(s) < st.outer.body.index(st.inner)]
    for s_ in pre:
        if isinstance(s_, ast.Assign) and len(s_.targets) == 1 and isinstance(s_.targets[0], ast.Name) and s_.targets[0].id in names:
            try:
                vals[s_.targets[0].id] = interp.eval(s_.value, state, COMPACT)
            except Exception:
                vals[s_.targets[0].id] = Unknown("initial value")
    for nm in names:
        vals.setdefault(nm, Unknown(f"{nm} has no value before the first iteration"))
    return vals


def freeze(v: Any):
    if isinstance(v, Lin) and v.is_const():
        return ("int", v.const)
    if isinstance(v, bool) or v is None:
        return ("const", v)
    if v is NONE:
        return ("const", None)
    return ("?", repr(v)[:60])


def run_body(interp: Interp, st: Structure, sib_or_cell: Lin, r_hint: int, preset: Optional[Dict[str, Any]] = None,
             watch: Optional[Dict[str, Any]] = None) -> List[BodyPath]:
    """One generic iteration of the scan body with the current cell = the given id form."""
    i = Sym("i", 0, None)
    n = Sym("n", 0, None)
    state = State()
    env = dict(interp.module_env(COMPACT))
    W = GenericList("cells", Lin.of(i), sib_or_cell, Lin.of(n))
    res = ListV([])
    env[st.W] = W
    env[st.idx] = Lin.of(i)
    env[st.result] = res
    env[st.flag] = False
    env[st.param] = GenericList("input")
    for k, v in (preset or {}).items():
        env[k] = v
    for k, v in (watch or {}).items():
        env[f"<watch {k}>"] = v      # not a Python name: only refine() touches it (a guard that narrows a symbol narrows it here as well)
    state.frames = [env]
    saved = interp.unroll_ranges
    interp.unroll_ranges = 16
    interp.total_steps += interp.steps
    interp.steps = 0
    absint_forks_reset()
    try:
        outs = interp.exec_block(st.inner.body, state, COMPACT)
    finally:
        interp.unroll_ranges = saved
    paths: List[BodyPath] = []

    def base(v):
        # guards such as `i > 0` narrow the range of the index symbol; a narrowed symbol is the same quantity
        for _ in range(8):
            lins = [v] if isinstance(v, Lin) else ([v.left, v.right] if isinstance(v, CondV) else [])
            narrowed = [(sy, b) for l in lins for sy in l.syms() for b in (i, n) if sy.name == b.name and sy.key != b.key]
            if not narrowed:
                break
            v = subst_value(v, narrowed[0][0], narrowed[0][1])
        return v
    for s2, sig in outs:
        e2 = s2.frames[0]
        r2 = e2.get(st.result)
        appended = [base(sg.elem) for sg in r2.segs] if isinstance(r2, ListV) and not r2.unknown else [Unknown("result list")]
        idx2 = e2.get(st.idx)
        adv = (base(idx2) - Lin.of(i)) if isinstance(idx2, Lin) else Unknown("index")
        bp = BodyPath(appended, adv, e2.get(st.flag), [(base(c), t) for c, t, _ in s2.path], sig, list(s2.effects), list(s2.notes))
        bp.carried = {k: e2.get(k) for k in (preset or {})}
        bp.watched = {k: base(e2.get(f"<watch {k}>")) for k in (watch or {}) if isinstance(e2.get(f"<watch {k}>"), Lin)}
        paths.append(bp)
    return paths


def cond_is_position_zero(c: CondV, truth: bool, A: Sym) -> Optional[bool]:
    """Does (c is truth) say exactly  A == 0 ?  -> True / False (says something else about A) / None (not about A)"""
    d = c.left - c.right
    if not any(s.name == A.name for s in d.syms()):
        return None
    op = c.op if truth else c.negate().op
    if op == "==" and d.const == 0 and len(d.terms) == 1:
        a, cf = d.terms[0]
        if isinstance(a, Sym) and a.name == A.name and cf != 0:
            return True
    return False


# ---------------------------------------------------------------------------------
# 3. order model
# ---------------------------------------------------------------------------------

def _smaller_or_equal(test: ast.expr, cur: str, prev: str) -> bool:
    """test says  cur <= prev  (in one of its spellings)"""
    neg = False
    while isinstance(test, ast.UnaryOp) and isinstance(test.op, ast.Not):
        neg, test = not neg, test.operand
    if not (isinstance(test, ast.Compare) and len(test.ops) == 1):
        return False
    l, r = core.src(test.left).replace(" ", ""), core.src(test.comparators[0]).replace(" ", "")
    op = type(test.ops[0])
    if neg:     # not (prev < cur)   /   not (cur > prev)
        return (op is ast.Lt and (l, r) == (prev, cur)) or (op is ast.Gt and (l, r) == (cur, prev))
    return (op is ast.LtE and (l, r) == (cur, prev)) or (op is ast.GtE and (l, r) == (prev, cur))


def helper_means_strictly_ascending(fn: ast.FunctionDef) -> bool:
    """a predicate helper that returns True only when every element of its (single) list argument is greater than the one
    before it:   return all(a < b ...)   or the running-previous scan   prev = s; for x in P: if x <= prev: return False; prev = x; return True"""
    if len(fn.args.args) != 1:
        return False
    P = fn.args.args[0].arg
    body = [s_ for s_ in fn.body if not (isinstance(s_, ast.Expr) and isinstance(s_.value, ast.Constant))]
    if len(body) == 1 and isinstance(body[0], ast.Return) and body[0].value is not None:
        return guard_means_strictly_ascending(core.src(body[0].value), P)
    if len(body) == 3 and isinstance(body[0], ast.Assign) and isinstance(body[1], ast.For) and isinstance(body[2], ast.Return) \
            and isinstance(body[2].value, ast.Constant) and body[2].value.value is True and not body[1].orelse \
            and len(body[0].targets) == 1 and isinstance(body[0].targets[0], ast.Name) and isinstance(body[1].target, ast.Name) \
            and core.src(body[1].iter) == P and len(body[1].body) == 2:
        prev, cur = body[0].targets[0].id, body[1].target.id
        chk, upd = body[1].body
        return (isinstance(chk, ast.If) and not chk.orelse and len(chk.body) == 1 and isinstance(chk.body[0], ast.Return)
                and isinstance(chk.body[0].value, ast.Constant) and chk.body[0].value.value is False and _smaller_or_equal(chk.test, cur, prev)
                and isinstance(upd, ast.Assign) and len(upd.targets) == 1 and core.src(upd.targets[0]) == prev and core.src(upd.value) == cur)
    if len(body) == 2 and isinstance(body[0], ast.For) and isinstance(body[1], ast.Return) and isinstance(body[1].value, ast.Constant) \
            and body[1].value.value is True and not body[0].orelse and len(body[0].body) == 1:
        loop, chk = body[0], body[0].body[0]
        if not (isinstance(chk, ast.If) and not chk.orelse and len(chk.body) == 1 and isinstance(chk.body[0], ast.Return)
                and isinstance(chk.body[0].value, ast.Constant) and chk.body[0].value.value is False):
            return False
        it = core.src(loop.iter).replace(" ", "")
        if isinstance(loop.target, ast.Tuple) and len(loop.target.elts) == 2 and it == f"zip({P},{P}[1:])":
            a, b = (core.src(x) for x in loop.target.elts)
            return _smaller_or_equal(chk.test, b, a)
        if isinstance(loop.target, ast.Name):
            i = loop.target.id
            if it == f"range(len({P})-1)":
                return _smaller_or_equal(chk.test, f"{P}[{i}+1]", f"{P}[{i}]")
            if it == f"range(1,len({P}))":
                return _smaller_or_equal(chk.test, f"{P}[{i}]", f"{P}[{i}-1]")
    return False


def guard_means_strictly_ascending(guard: Optional[str], param: str, resolve=None) -> bool:
    """`all(a < b for a, b in zip(P, P[1:]))`  (or the index form): every element smaller than its successor; or a call
    `helper(P)` of a module-level predicate that says the same (resolve: name -> FunctionDef or None)"""
    if guard is None:
        return False
    try:
        e = ast.parse(guard, mode="eval").body
    except SyntaxError:
        return False
    if resolve is not None and isinstance(e, ast.Call) and isinstance(e.func, ast.Name) and e.func.id != "all" and len(e.args) == 1 \
            and not e.keywords and core.src(e.args[0]) == param:
        fn = resolve(e.func.id)
        return fn is not None and helper_means_strictly_ascending(fn)
    if not (isinstance(e, ast.Call) and isinstance(e.func, ast.Name) and e.func.id == "all" and len(e.args) == 1
            and isinstance(e.args[0], (ast.GeneratorExp, ast.ListComp)) and len(e.args[0].generators) == 1 and not e.args[0].generators[0].ifs):
        return False
    gen = e.args[0].generators[0]
    elt = e.args[0].elt
    if not (isinstance(elt, ast.Compare) and len(elt.ops) == 1 and isinstance(elt.ops[0], ast.Lt)):
        return False
    l, r = core.src(elt.left).replace(" ", ""), core.src(elt.comparators[0]).replace(" ", "")
    it = core.src(gen.iter).replace(" ", "")
    if isinstance(gen.target, ast.Tuple) and len(gen.target.elts) == 2 and it == f"zip({param},{param}[1:])":
        a, b = (core.src(x) for x in gen.target.elts)
        return (l, r) == (a, b)
    if isinstance(gen.target, ast.Name):
        i = gen.target.id
        if it == f"range(len({param})-1)":
            return (l, r) == (f"{param}[{i}]", f"{param}[{i}+1]")
        if it == f"range(1,len({param}))":
            return (l, r) == (f"{param}[{i}-1]", f"{param}[{i}]")
    return False


class OrderModel:
    def __init__(self, interp: Interp, st: Structure, ids: Dict[int, Optional[Lin]], consts: Consts, key_fn: Any = "from-structure"):
        self.interp, self.st, self.ids, self.consts = interp, st, ids, consts
        self.key_problem: Optional[str] = None
        self.key_fn = st.key_fn if key_fn == "from-structure" else key_fn

    def K(self, y: Lin) -> Optional[Lin]:
        """sort key of an id form (identity when sorted() has no key function)"""
        if self.key_fn is None:
            return y
        try:
            outs = self.interp.run_function(COMPACT, self.key_fn, [y])
        except core.AnalysisError as e:
            self.key_problem = str(e)
            return None
        if len(outs) == 1 and outs[0].kind == "return" and isinstance(outs[0].value, Lin) and not outs[0].state.path:
            return outs[0].value
        self.key_problem = f"key function has {len(outs)} outcomes on {y}"
        return None

    def parent_of(self, y: Lin, q: int, level: int) -> Optional[Lin]:
        """level-q ancestor of the level-`level` id form y, by the one-level step compact itself uses (cell_to_parent(cell))"""
        for _ in range(level - q):
            outs = self.interp.run_function(SER, "cell_to_parent", [y])
            if len(outs) == 1 and outs[0].kind == "return" and isinstance(outs[0].value, Lin):
                y = outs[0].value
            else:
                return None
        return y

    def monotone_parent(self, q: int) -> Tuple[str, str]:
        """M(q): key(parent(y)) == a * floor(floor(key(y) / 2**g) / d) + c  with a > 0 for level-(q+1) ids y"""
        y = self.ids.get(q + 1)
        if y is None:
            return core.UNDECIDED, f"no id form at level {q + 1}"
        p = self.parent_of(y, q, q + 1)
        if p is None:
            return core.UNDECIDED, "parent form not determined"
        ky, kp = self.K(y), self.K(p)
        if ky is None or kp is None:
            return core.UNDECIDED, f"sort key not determined: {self.key_problem}"
        shifts = sorted({(c & -c).bit_length() - 1 for _, c in ky.terms if c > 0} | {(c & -c).bit_length() - 1 for _, c in kp.terms if c > 0})
        for g in shifts:
            for d in (1, 5, 12):
                Qv = floordiv(floordiv(ky, 1 << g), d)
                if not Qv.terms or any(type(a).__name__ in ("DivA", "Opaque") for a, _ in Qv.terms):
                    continue
                for atom, cq in Qv.terms:
                    ck = dict((a, c) for a, c in kp.terms).get(atom)
                    if ck is None or ck % cq or ck // cq <= 0:
                        continue
                    a = ck // cq
                    rest = kp - Qv.scale(a)
                    if rest.is_const():
                        return core.DISCHARGED, (f"key(parent(y)) = {a} * floor(floor(key(y) / 2**{g}) / {d}) + {rest.const}: "
                                                 f"a non-decreasing function of key(y)")
                    break
        return core.UNDECIDED, f"no monotone template fits: key(y) = {ky}, key(parent(y)) = {kp}"

    def within_span(self, sib: Siblings) -> Tuple[str, str, Optional[Dict[str, int]]]:
        """W(q): key(base) <= key(P) <= key(last) for the children of the generic level-q cell P"""
        kb, kl, kp = self.K(sib.base), self.K(sib.last), self.K(sib.parent)
        if None in (kb, kl, kp):
            return core.UNDECIDED, f"sort key not determined: {self.key_problem}", None
        lo_ok = compare(kb, "<=", kp)
        hi_ok = compare(kp, "<=", kl)
        if lo_ok is True and hi_ok is True:
            return core.DISCHARGED, f"key(first child) = {kb} <= key(parent) = {kp} <= key(last child) = {kl}", None
        # look for a parent whose key lies outside the span of its children (finite face/segment domain)
        w = find_valuation([kb, kl, kp], lambda v: not (v[0] <= v[2] <= v[1]))
        if w is not None:
            vals, point = w
            return core.VIOLATED, (f"key(parent) = {vals[2]:#x} is outside [{vals[0]:#x}, {vals[1]:#x}] spanned by its children at {point}: "
                                   f"replacing the children by the parent in place leaves the list unsorted"), point
        return core.UNDECIDED, f"order of key(parent) = {kp} relative to [{kb}, {kl}] not decided", None


def _symbols_of(forms: List[Lin]) -> Dict[str, Sym]:
    out: Dict[str, Sym] = {}
    for f in forms:
        for s in f.syms():
            cur = out.get(s.name)
            if cur is None:
                out[s.name] = s
            else:
                lo = max(x for x in (cur.lo, s.lo) if x is not None) if (cur.lo is not None or s.lo is not None) else None
                hi = min(x for x in (cur.hi, s.hi) if x is not None) if (cur.hi is not None or s.hi is not None) else None
                out[s.name] = Sym(s.name, lo, hi)
    return out


def find_valuation(forms: List[Lin], pred, limit: int = 200000):
    """Exhaustive over symbols with small ranges (faces, segments, positions), corner values for the big
    ones (S).  Evaluates the exact forms (table functions through their literal tables).  Returns
    ([values], point) for the first point where pred(values) holds."""
    syms = _symbols_of(forms)
    names = sorted(syms)
    doms = []
    for nm in names:
        s = syms[nm]
        lo = s.lo if s.lo is not None else 0
        hi = s.hi
        if hi is not None and hi - lo <= 12:
            doms.append(list(range(lo, hi + 1)))
        else:
            top = hi if hi is not None else (1 << 60)
            cand = {lo, lo + 1, lo + 2, lo + 3, max(lo, top - 1), top, (lo + top) // 2}
            k = 4
            while lo + k <= top and len(cand) < 24:        # single high bits: values whose low digits are zero
                cand.add(lo + k)
                k <<= 1
            doms.append(sorted(c for c in cand if lo <= c <= top))
    total = 1
    for d in doms:
        total *= len(d)
    if total > limit:
        # too many combinations: thin the large domains down to their corner values
        doms = [d if len(d) <= 13 else sorted(set(d[:4] + d[-2:] + d[4:8])) for d in doms]
        total = 1
        for d in doms:
            total *= len(d)
        if total > limit:
            return None

    def fnval(atom, args):
        tb = codec.TABLES.get(atom.name)
        if tb is not None and len(args) == 1 and 0 <= args[0] < len(tb):
            return tb[args[0]]
        raise KeyError(atom)
    for combo in itertools.product(*doms):
        point = dict(zip(names, combo))
        try:
            vals = [eval_lin(f, point, fnval) for f in forms]
        except KeyError:
            return None
        if pred(vals):
            return vals, point
    return None


def rename(form: Lin, suffix: str) -> Lin:
    out = form
    for s in {x.name: x for x in form.syms()}.values():
        out = subst_value(out, s, Sym(s.name + suffix, s.lo, s.hi))
    return out


def _grid(forms: List[Lin]):
    """points of the finite search grid for the symbols of the given forms, with the forms' values"""
    syms = _symbols_of(forms)
    names = sorted(syms)
    doms = []
    for nm in names:
        s = syms[nm]
        lo = s.lo if s.lo is not None else 0
        hi = s.hi
        if hi is not None and hi - lo <= 12:
            doms.append(list(range(lo, hi + 1)))
        else:
            top = hi if hi is not None else (1 << 60)
            doms.append(sorted({lo, min(top, lo + 1), min(top, lo + 2), min(top, lo + 3), max(lo, top - 1), top}))

    def fnval(atom, args):
        tb = codec.TABLES.get(atom.name)
        if tb is not None and len(args) == 1 and 0 <= args[0] < len(tb):
            return tb[args[0]]
        raise KeyError(atom)
    out = []
    for combo in itertools.product(*doms):
        point = dict(zip(names, combo))
        try:
            out.append((point, [eval_lin(f, point, fnval) for f in forms]))
        except KeyError:
            return None
    return out


def interleaving_witnesses(om: "OrderModel", sibs: Dict[int, Siblings], levels: List[int], max_r: int = 3):
    """Concrete antichains that defeat the adjacency scan: a complete sibling group at level rho and a foreign
    valid id y (neither descendant nor ancestor of the group's parent) whose key lies strictly inside the
    group's key span.  Searched on the finite face/segment/small-position grid of the extracted forms
    (group side and foreign side are evaluated separately, then compared)."""
    found = []
    for rho in levels:
        sib = sibs.get(rho)
        if sib is None or rho - 1 < 0:
            continue
        kb, kl = om.K(sib.base), om.K(sib.last)
        if kb is None or kl is None:
            continue
        for r2 in range(0, max_r + 1):
            y = om.ids.get(r2)
            if y is None:
                continue
            y = rename(y, "_y")
            ky = om.K(y)
            if ky is None:
                continue
            if r2 >= rho - 1:
                anc = om.parent_of(y, rho - 1, r2)          # related iff the level-(rho-1) ancestor of y is the group's parent
                if anc is None:
                    continue
                gp = _grid([kb, kl, sib.parent])
                gy = _grid([ky, anc])
            else:
                anc = om.parent_of(sib.parent, r2, rho - 1)      # related iff y is the level-r2 ancestor of the group's parent
                if anc is None:
                    continue
                gp = _grid([kb, kl, anc])
                gy = _grid([ky, y])
            if gp is None or gy is None:
                continue
            hit = None
            for pp, (vb, vl, vrel) in gp:
                for py, (vy, vrel_y) in gy:
                    if vb < vy < vl and vrel != vrel_y:
                        hit = ([vb, vl, vy], {**pp, **py})
                        break
                if hit:
                    break
            if hit:
                found.append((rho, r2, hit[0], hit[1]))
    return found
