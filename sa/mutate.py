"""Scratch-copy variants of the repository for testing the checker both ways.

A variant is a list of textual edits (file, old, new) applied to a private copy of /repo/a5 (+ the
example).  The copy lives in a temporary directory outside /repo and /verif and is removed as soon as
the verdict is recorded.  The checker is run on it through the A5_REPO environment variable; evidence
of such runs goes to os.devnull so that the committed evidence always describes /repo itself."""
from __future__ import annotations

import os
import shutil
import subprocess
import sys
import tempfile
from typing import List, Optional, Tuple

VERIF = os.path.dirname(os.path.dirname(os.path.abspath(__file__)))
Edit = Tuple[str, str, str]


def scratch_base() -> str:
    for d in ("/dev/shm", os.environ.get("TMPDIR") or "", "/tmp"):
        if d and os.path.isdir(d) and os.access(d, os.W_OK):
            return d
    return tempfile.gettempdir()


def make_copy(src_root: str) -> str:
    d = tempfile.mkdtemp(prefix="a5var-", dir=scratch_base())
    shutil.copytree(os.path.join(src_root, "a5"), os.path.join(d, "a5"),
                    ignore=shutil.ignore_patterns("__pycache__", "*.pyc"))
    ex = os.path.join(src_root, "examples", "wireframe", "index.py")
    if os.path.isfile(ex):
        os.makedirs(os.path.join(d, "examples", "wireframe"))
        shutil.copy(ex, os.path.join(d, "examples", "wireframe", "index.py"))
    return d


class EditError(Exception):
    pass


def apply_edits(root: str, edits: List[Edit]) -> None:
    for rel, old, new in edits:
        p = os.path.join(root, rel)
        with open(p) as fh:
            text = fh.read()
        if text.count(old) != 1:
            raise EditError(f"{rel}: anchor text occurs {text.count(old)} times: {old[:60]!r}")
        with open(p, "w") as fh:
            fh.write(text.replace(old, new))
    # the variant must still compile
    for rel in {e[0] for e in edits}:
        with open(os.path.join(root, rel)) as fh:
            compile(fh.read(), rel, "exec")


def run_check(prop: str, root: str, tier: str = "quick", timeout: int = 600) -> Tuple[int, str]:
    env = dict(os.environ, A5_REPO=root, A5_EVIDENCE_OUT=os.devnull, VERIF_TIER=tier, A5_NO_SELFTEST="1")
    py = "/venv/bin/python" if os.path.exists("/venv/bin/python") else sys.executable
    p = subprocess.run([py, "-B", os.path.join(VERIF, "sa", "cli.py"), prop, "--tier", tier],
                       env=env, capture_output=True, text=True, timeout=timeout, cwd=VERIF)
    return p.returncode, p.stdout + p.stderr


def run_variant(prop: str, edits: List[Edit], src_root: Optional[str] = None, tier: str = "quick") -> Tuple[int, str]:
    src_root = src_root or os.environ.get("A5_REPO", "/repo")
    d = make_copy(src_root)
    try:
        apply_edits(d, edits)
        return run_check(prop, d, tier)
    finally:
        shutil.rmtree(d, ignore_errors=True)


def run_patch(prop: str, patch_path: str, src_root: Optional[str] = None, tier: str = "quick") -> Tuple[int, str]:
    """apply a unified diff (paths relative to the repository root) to a scratch copy and run the check on it"""
    src_root = src_root or os.environ.get("A5_REPO", "/repo")
    d = make_copy(src_root)
    try:
        r = subprocess.run(["git", "apply", "--unsafe-paths", "--directory", d, os.path.abspath(patch_path)], cwd="/", capture_output=True, text=True)
        if r.returncode:
            raise EditError(f"{patch_path}: {r.stderr.strip()[:160]}")
        return run_check(prop, d, tier)
    finally:
        shutil.rmtree(d, ignore_errors=True)


if __name__ == "__main__":
    # ad-hoc:  python sa/mutate.py C05 a5/core/serialization.py 'old' 'new'
    prop, rel, old, new = sys.argv[1:5]
    code, out = run_variant(prop, [(rel, old, new)])
    print(out)
    print("exit", code)
