"""C05 -- cell ids are a faithful 64-bit code.

For every resolution r (a trace partition; -1 .. MAX_RESOLUTION+1) the interpreter evaluates
serialize / get_resolution / deserialize of a5/core/serialization.py on the GENERIC cell
(face o in [0, 11], segment in [0, 4], position S symbolic and a priori unbounded).  The 2**56
positions, 12 faces and 5 segments are never enumerated: the obligations are decided on the
exact bit-field forms (sa/lin.py)."""
from __future__ import annotations

from typing import Any, Dict, List, Optional

from . import core
from .absint import opaque_path, CellV, ExcV, Interp, ListV, OriginV, Unknown, Budget, _Unmodelled
from .codec import (SER, INFO, Consts, Encoded, OriginModel, describe_path, encode_generic,
                    fit_affine, generic_cell, same_or_refuted, sym_in, valid_s_count)
from .lin import Lin, Sym, occupancy

Q = "a5.core.serialization"


def _exc_text(e: Any) -> str:
    if isinstance(e, ExcV):
        return f"{e.kind}({e.text})" if e.text and not e.text.startswith(e.kind) else (e.text or e.kind)
    return repr(e)


def is_guard_raise(out) -> bool:
    """a `raise` statement of serialize reached because S exceeds a bound (the fit check)"""
    return any(sym_in(c.left - c.right, "S") is not None and t for c, t, _ in out.state.path) and \
        isinstance(out.value, ExcV) and "negative shift" not in out.value.text


def analyse_resolution(ctx, interp: Interp, om: OriginModel, consts: Consts, r: int, layout: Dict[int, dict]):
    n = om.length or 12
    where = core.loc(SER, ctx.sources.func(SER, "serialize"))
    enc = encode_generic(interp, r, n)
    hilbert = r >= consts.FIRST
    expect = valid_s_count(interp, r, n)

    # ---- which S are accepted, what happens otherwise ---------------------------------------
    for out in enc.raises:
        if hilbert and is_guard_raise(out):
            continue
        if opaque_path(out.state):
            ctx.unk("C05.3", f"{Q}.serialize at resolution {r}: may raise {_exc_text(out.value)}", core.loc(SER, out.node),
                    f"on a path whose condition is not modelled: [{describe_path(out.state)[:160]}]")
            continue
        ctx.bad("C05.3", f"{Q}.serialize at resolution {r}: raises {_exc_text(out.value)} for a valid cell",
                core.loc(SER, out.node),
                f"a cell with resolution {r} <= MAX_RESOLUTION cannot be encoded: path [{describe_path(out.state)}] ends in "
                f"{_exc_text(out.value)}")
    ret = enc.good()
    if ret is None:
        if not enc.returns:
            layout[r] = {"encodes": False}
            return
        for o in enc.returns:
            if not isinstance(o.value, Lin):
                ctx.unk("C05.3", f"{Q}.serialize at resolution {r}: id form", core.loc(SER, o.node), f"result not determined: {o.value!r}")
        if len(enc.returns) > 1:
            ctx.unk("C05.3", f"{Q}.serialize at resolution {r}: several return paths", where,
                    "; ".join(describe_path(o.state) for o in enc.returns))
        layout[r] = {"encodes": False}
        return
    v: Lin = ret.value
    S = sym_in(v, "S")
    has_overlap = any(e[0] == "bitor-overlap" for e in ret.state.effects)
    if hilbert and not (S is None and has_overlap):
        # C05.2: S bounded by exactly its admissible range
        s_after = None
        for fr in ret.state.frames:
            pass
        # the refined symbol is the one occurring in the returned form (if S occurs at all)
        if S is None:
            ctx.bad("C05.2", f"{Q}.serialize at resolution {r}: position S does not enter the id", core.loc(SER, ret.node),
                    f"id form {v} does not depend on S although resolution {r} has {expect} positions per segment")
        else:
            if S.hi is None:
                ctx.bad("C05.2", f"{Q}.serialize at resolution {r}: S is not bounded before it is added to the id",
                        core.loc(SER, ret.node),
                        f"no guard limits S on the encoding path [{describe_path(ret.state)}]; e.g. S = {expect} would be "
                        f"encoded silently into bits that belong to other fields")
            elif expect is not None and S.hi != expect - 1:
                kind = "accepts positions that do not exist" if S.hi > expect - 1 else "rejects valid positions"
                ctx.bad("C05.2", f"{Q}.serialize at resolution {r}: admissible S range is [0, {S.hi}] not [0, {expect - 1}]",
                        core.loc(SER, ret.node),
                        f"the bound check {kind}: path [{describe_path(ret.state)}], get_num_cells({r})/(faces*5) = {expect}")
            else:
                ctx.ok("C05.2", f"{Q}.serialize at resolution {r}: S guarded to [0, {S.hi}]", core.loc(SER, ret.node),
                       f"path [{describe_path(ret.state)}]; larger S raise")
    # ---- C05.3: disjoint fields inside 64 bits, id >= 1 ----------------------------------------
    overlaps = [e for e in ret.state.effects if e[0] == "bitor-overlap"]
    for _, (text, problem, node) in overlaps:
        ctx.bad("C05.3", f"{Q}.serialize at resolution {r}: `{text}` sets bits that are already in use",
                core.loc(SER, node), f"{problem}; two different cells can receive the same id")
    lo, hi = v.rng()
    occ = occupancy(v)
    if lo is None or hi is None or occ is None:
        if not overlaps:
            ctx.unk("C05.3", f"{Q}.serialize at resolution {r}: id range", core.loc(SER, ret.node), f"range of {v} not determined")
    else:
        if lo < 1 or hi >= 1 << 64:
            ctx.bad("C05.3", f"{Q}.serialize at resolution {r}: id outside [1, 2**64)", core.loc(SER, ret.node),
                    f"id form {v} ranges over [{lo}, {hi}]")
        elif not overlaps:
            ctx.ok("C05.3", f"{Q}.serialize at resolution {r}: id in [1, 2**64), fields {[(a, b) for a, b, _ in occ]}",
                   core.loc(SER, ret.node), f"id form {v}")
    layout[r] = {"encodes": True, "form": v, "fields": occ, "S": S}
    if any(type(a).__name__ == "Opaque" for a, _ in v.terms):
        # the id is not a sum of disjoint fields (already reported above); decoding an opaque word would only fork on every bit
        return

    # ---- C05.5: the marker scanner recovers r, independently of S ------------------------------
    outs = interp.run_function(SER, "get_resolution", [v])
    vals = []
    for o in outs:
        if o.kind == "raise":
            ctx.ob("C05.5", f"{Q}.get_resolution on ids of resolution {r}: raises {_exc_text(o.value)}",
                   core.UNDECIDED if opaque_path(o.state) else core.VIOLATED, core.loc(SER, o.node), f"path [{describe_path(o.state)}]")
        else:
            vals.append(o)
    if len(vals) == 1 and isinstance(vals[0].value, Lin) and vals[0].value.is_const() and not vals[0].state.path:
        got = vals[0].value.const
        if got == r:
            ctx.ok("C05.5", f"{Q}.get_resolution on ids of resolution {r} returns {r}", core.loc(SER, vals[0].node),
                   "scanner tests only zero bits below the marker and stops on it; result independent of face, segment, S")
        else:
            ctx.bad("C05.5", f"{Q}.get_resolution on ids of resolution {r} returns {got}", core.loc(SER, vals[0].node),
                    f"marker scanner and writer disagree: id form {v}")
    elif vals:
        def _opaque(o):
            return opaque_path(o.state)
        depends = [o for o in vals if o.state.path]
        if depends and any(_opaque(o) for o in depends):
            ctx.unk("C05.5", f"{Q}.get_resolution on ids of resolution {r}", core.loc(SER, vals[0].node),
                    f"the scan uses an operation that is not modelled; {len(vals)} abstract outcomes, not decided")
        elif depends:
            conds = "; ".join(f"[{describe_path(o.state)}] -> {o.value}" for o in vals[:4])
            ctx.bad("C05.5", f"{Q}.get_resolution on ids of resolution {r}: result depends on data bits", core.loc(SER, vals[0].node),
                    f"the scan tests a bit that is not the marker or a guaranteed zero: {conds}")
        else:
            ctx.unk("C05.5", f"{Q}.get_resolution on ids of resolution {r}", core.loc(SER, vals[0].node),
                    f"result not determined: {[o.value for o in vals]}")

    # ---- C05.6: reader agrees with writer ---------------------------------------------------------
    outs = interp.run_function(SER, "deserialize", [v])
    cells = [o for o in outs if o.kind == "return"]
    for o in outs:
        if o.kind == "raise":
            ctx.ob("C05.6", f"{Q}.deserialize on ids of resolution {r}: raises {_exc_text(o.value)}",
                   core.UNDECIDED if opaque_path(o.state) else core.VIOLATED, core.loc(SER, o.node), f"path [{describe_path(o.state)}]")
    if len(cells) == 1 and isinstance(cells[0].value, CellV) and not cells[0].state.path:
        c: CellV = cells[0].value
        o_sym = Lin.of(sym_in(v, "o")) if sym_in(v, "o") is not None else None
        want = {"resolution": Lin(r)}
        if o_sym is not None:
            want["origin"] = o_sym
        if r >= 1:
            sg = sym_in(v, "seg")
            if sg is not None:
                want["segment"] = Lin.of(sg)
        want["S"] = Lin.of(S) if (hilbert and S is not None) else Lin(0)
        for k, w in want.items():
            got = c.fields.get(k)
            if k == "origin":
                got = got.idx if isinstance(got, OriginV) else got
            st, text = same_or_refuted(got, w, ctx.seed)
            ctx.ob("C05.6", f"{Q}.deserialize(serialize(cell)) at resolution {r}: field {k}", st, core.loc(SER, cells[0].node),
                   ("recovered: " if st == core.DISCHARGED else "decoded value vs encoded value: ") + text)
        for e in cells[0].state.effects:
            if e[0] == "table-index-range":
                name, idx, rng, node = e[1]
                ctx.bad("C05.6", f"{Q}.deserialize at resolution {r}: index into {name} may leave the table", core.loc(SER, node),
                        f"index {idx} ranges over {rng}, table has {n} entries")
        # ---- C05.8: re-encoding the decoded cell gives the id back -----------------------------------
        re = interp.run_function(SER, "serialize", [c])
        rr = [o for o in re if o.kind == "return"]
        if len(rr) == 1 and len(re) == 1:
            st, text = same_or_refuted(rr[0].value, v, ctx.seed)
            ctx.ob("C05.8", f"{Q}.serialize(deserialize(id)) == id at resolution {r}", st, core.loc(SER, rr[0].node), text)
        else:
            ctx.unk("C05.8", f"{Q}.serialize(deserialize(id)) == id at resolution {r}", where,
                    f"re-encoding has {len(re)} outcomes (not decided)")
    elif cells:
        if any(opaque_path(o.state) for o in cells):
            ctx.unk("C05.6", f"{Q}.deserialize on ids of resolution {r}", core.loc(SER, cells[0].node),
                    "the decoder uses an operation that is not modelled: " + "; ".join(f"[{describe_path(o.state)}]" for o in cells[:3]))
        elif any(o.state.path for o in cells):
            ctx.bad("C05.6", f"{Q}.deserialize on ids of resolution {r}: decoding depends on data bits", core.loc(SER, cells[0].node),
                    "; ".join(f"[{describe_path(o.state)}]" for o in cells[:4]))
        else:
            ctx.unk("C05.6", f"{Q}.deserialize on ids of resolution {r}", core.loc(SER, cells[0].node),
                    f"result not determined: {[o.value for o in cells]}")


def run(ctx):
    ctx.explanation = (
        "Abstract interpretation (bit-field linear forms, sa/lin.py + sa/absint.py) of serialize, get_resolution and "
        "deserialize on the generic cell (face, segment, S symbolic; S a priori unbounded), one run per resolution "
        "-1..MAX_RESOLUTION+1 (trace partitioning on the resolution only). Obligations per resolution: S guarded to exactly "
        "its admissible range (C05.2), fields disjoint and id in [1, 2**64) (C05.3), marker scanner returns r independent of "
        "the data bits (C05.5), decoder recovers face/segment/S/resolution (C05.6), re-encoding is the identity (C05.8); "
        "face-table facts from the import-time code of origin.py (C05.1, C05.7). Violations carry the two disagreeing forms.")
    ctx.trusted_base = ["Python integer semantics for + - * // % << >> & | as transcribed into sa/lin.py",
                        "ids are produced by the library (valid cells); integers that no serialize call produces are outside the statement"]
    ctx.assumptions = ["face index in [0, len(origins)), segment in [0, 4], S >= 0 (the property's quantifier)"]
    om = OriginModel(ctx.sources)
    om.report(ctx)
    interp = Interp(ctx.sources, om.length or 12, om.fq_range())
    consts = Consts(interp)
    from . import codec
    codec.TABLES.clear()
    if om.fq_table:
        codec.TABLES["first_quintant"] = om.fq_table
    # anchors
    for fn in ("serialize", "deserialize", "get_resolution"):
        ctx.sources.func(SER, fn)
    ctx.sources.func(INFO, "get_num_cells")
    n = om.length or 12
    # C05.1: the top field must fit in the 6 bits above HILBERT_START_BIT
    layout: Dict[int, dict] = {}
    try:
        # world cell
        w = encode_generic(interp, -1, n)
        g = w.good()
        if g is not None and g.value == Lin(consts.WORLD) and not w.raises:
            ctx.ok("C05.0", f"{Q}.serialize at resolution -1 returns WORLD_CELL", core.loc(SER, g.node), f"value {consts.WORLD}")
            outs = interp.run_function(SER, "get_resolution", [Lin(consts.WORLD)])
            if len(outs) == 1 and outs[0].kind == "return" and outs[0].value == Lin(-1):
                ctx.ok("C05.0", f"{Q}.get_resolution(WORLD_CELL) == -1", core.loc(SER, outs[0].node), "the all-zero word has no marker")
            elif any(opaque_path(o.state) or not isinstance(o.value, (Lin, ExcV)) for o in outs):
                ctx.unk("C05.0", f"{Q}.get_resolution(WORLD_CELL) == -1", core.loc(SER, ctx.sources.func(SER, 'get_resolution')),
                        f"the scan uses an operation that is not modelled: outcomes {[(o.kind, o.value) for o in outs]}")
            else:
                ctx.bad("C05.0", f"{Q}.get_resolution(WORLD_CELL) != -1", core.loc(SER, ctx.sources.func(SER, 'get_resolution')),
                        f"outcomes {[(o.kind, o.value) for o in outs]}")
        else:
            ctx.unk("C05.0", f"{Q}.serialize at resolution -1", core.loc(SER, ctx.sources.func(SER, 'serialize')),
                    f"outcomes {[(o.kind, o.value) for o in w.outs]}")
        for r in range(0, consts.MAX + 1):
            analyse_resolution(ctx, interp, om, consts, r, layout)
        # resolutions above MAX must be refused
        over = encode_generic(interp, consts.MAX + 1, n)
        if over.returns and all(opaque_path(o.state) or not isinstance(o.value, Lin) for o in over.returns):
            ctx.unk("C05.3", f"{Q}.serialize at resolution {consts.MAX + 1} (> MAX_RESOLUTION)", core.loc(SER, over.returns[0].node),
                    "a return path depends on a condition the analysis does not model")
        elif over.returns:
            o_ = [o for o in over.returns if not opaque_path(o.state) and isinstance(o.value, Lin)][0]
            ctx.bad("C05.3", f"{Q}.serialize at resolution {consts.MAX + 1} (> MAX_RESOLUTION) returns an id",
                    core.loc(SER, o_.node), f"value {o_.value}")
        else:
            ctx.ok("C05.3", f"{Q}.serialize at resolution {consts.MAX + 1} (> MAX_RESOLUTION) raises", core.loc(SER, over.raises[0].node),
                   "every path raises")
    except (Budget, _Unmodelled) as e:
        ctx.unk("C05.3", f"{Q}: interpretation stopped", SER, f"{type(e).__name__}: {e}")

    # C05.6b: a decoded cell stays what it was when another id is decoded afterwards (no shared result object)
    try:
        from .absint import State
        ra, rb = consts.FIRST + 1, consts.FIRST + 3
        if layout.get(ra, {}).get("encodes") and layout.get(rb, {}).get("encodes"):
            ida = layout[ra]["form"]
            from .codec import valid_id_from_guard
            idb = valid_id_from_guard(interp, rb, n, consts, suffix="_b")
            st2 = State()
            o1 = interp.run_function(SER, "deserialize", [ida], st2)
            first = o1[0].value if len(o1) == 1 and o1[0].kind == "return" else None
            snap = dict(first.fields) if isinstance(first, CellV) else None
            if idb is not None and snap is not None:
                st3 = o1[0].state
                o2 = interp.run_function(SER, "deserialize", [idb], st3)
                second = o2[0].value if len(o2) == 1 and o2[0].kind == "return" else None
                if isinstance(second, CellV):
                    if second is first:
                        ctx.bad("C05.6", f"{Q}.deserialize returns the same object for every id", core.loc(SER, ctx.sources.func(SER, "deserialize")),
                                f"a cell decoded at resolution {ra} is overwritten when an id of resolution {rb} is decoded afterwards: the first result no longer "
                                f"re-encodes to its id")
                    else:
                        same = all(repr(first.fields.get(k)) == repr(snap.get(k)) for k in snap)
                        ctx.ob("C05.6", f"{Q}.deserialize results are independent objects", core.DISCHARGED if same else core.VIOLATED,
                               core.loc(SER, ctx.sources.func(SER, "deserialize")), "decoding a second id leaves the first decoded cell unchanged")
    except (Budget, _Unmodelled) as e:
        ctx.unk("C05.6", f"{Q}.deserialize twice", SER, f"{type(e).__name__}: {e}")

    # C05.9: the ids enumerated at resolution r are exactly get_num_cells(r) many (expansion of the world cell)
    try:
        from .rules_C06 import Raises, Setup, children_family, const_call
        su = Setup(ctx)
        n_enum = 0
        for r in range(0, consts.MAX + 1):
            if su.ids.get(r) is None:
                continue
            rets, raises = children_family(su.interp, Lin(consts.WORLD), Lin(r))
            want = const_call(su.interp, INFO, "get_num_cells", [r])
            wloc = core.loc(SER, ctx.sources.func(SER, "cell_to_children"))
            if len(rets) == 1 and isinstance(rets[0].value, ListV) and rets[0].value.length() is not None and not rets[0].state.path and isinstance(want, int):
                got = rets[0].value.length()
                n_enum += 1
                # the enumerated ids must be distinct: the loop variables feed different fields of the id (decoded back)
                elems = rets[0].value.segs
                ctx.ob("C05.9", f"{Q}.cell_to_children(WORLD_CELL, {r}) enumerates get_num_cells({r}) ids",
                       core.DISCHARGED if got == want else core.VIOLATED, wloc,
                       f"enumeration has {got} entries (loop trip counts {[[c for _, c in sg.binders] for sg in elems]}), get_num_cells({r}) = {want}")
                # ... and every enumerated id is the id of a cell (it decodes, and to a face of the table)
                from .rules_C06 import decode_defects
                for sg in elems:
                    if isinstance(sg.elem, Lin):
                        for why in decode_defects(su.interp, sg.elem, su.n):
                            ctx.bad("C05.9", f"{Q}.cell_to_children(WORLD_CELL, {r}) lists a value that is not the id of a cell", wloc,
                                    f"element {sg.elem}: {why}")
            elif raises and not rets:
                ctx.bad("C05.9", f"{Q}.cell_to_children(WORLD_CELL, {r}) raises", wloc, "the ids of a resolution cannot be enumerated")
            else:
                ctx.unk("C05.9", f"{Q}.cell_to_children(WORLD_CELL, {r}) vs get_num_cells({r})", wloc, "enumeration not summarised")
        ctx.analysed["enumerations_compared"] = n_enum
    except (Budget, _Unmodelled) as e:
        ctx.unk("C05.9", f"{Q}: enumeration of ids", SER, f"{type(e).__name__}: {e}")

    # C05.4: markers strictly decreasing => resolution is a function of the id (also implied by C05.5)
    marks = []
    for r, d in sorted(layout.items()):
        if d.get("encodes") and d["form"].const > 0:
            marks.append((r, (d["form"].const & -d["form"].const).bit_length() - 1))
    dec = all(marks[i][1] > marks[i + 1][1] for i in range(len(marks) - 1))
    if marks:
        ctx.ob("C05.4", f"{Q}.serialize: marker positions strictly decrease with resolution", core.DISCHARGED if dec else core.VIOLATED,
               core.loc(SER, ctx.sources.func(SER, "serialize")), f"marker bit by resolution: {marks}")
    ctx.floor("resolutions analysed", len(layout), 25, soft=True)
    # ---- C05.10: a decoded cell is a record of its own ----------------------------------------------------------------
    from . import purity
    purity.fresh_result(ctx, "C05.10", "a5.core.serialization.deserialize", "the decoded cell")
    hil = [(r, p) for r, p in marks if r >= consts.FIRST]
    ctx.analysed.update({
        "functions": [f"{Q}.serialize", f"{Q}.deserialize", f"{Q}.get_resolution", "a5.core.cell_info.get_num_cells",
                      "a5.core.origin (import-time code)"],
        "resolutions": [-1, consts.MAX + 1],
        "origins": n,
        "interpreter_steps": interp.total_steps + interp.steps,
        "layout_marker_affine_fit(r>=FIRST)": fit_affine(hil),
        "layout": {str(r): ({"form": str(d["form"]), "fields": [(a, b, s) for a, b, s in (d["fields"] or [])]} if d.get("encodes") else "no id")
                   for r, d in sorted(layout.items())},
    })
