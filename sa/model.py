"""E1 -- program model of the a5 package: modules, scopes, classes, resolved calls, call graph.

Names are resolved the way the interpreter does it (local -> module scope -> builtins; module scope
shadows builtins: a5/math/vec3.py defines `set` and `len`), imports are followed through re-exports,
aliases made by plain assignment (`sub = subtract`, `shift_right = w`) are followed, receivers of method
calls are typed from constructor calls, return annotations, field tables and, failing that, from the set
of repository classes defining the method.  Nothing is imported or executed.
"""
from __future__ import annotations

import ast
from dataclasses import dataclass, field
from typing import Dict, List, Optional, Set, Tuple

from . import core

BUILTIN_MUTATORS = {"append", "extend", "insert", "pop", "remove", "clear", "sort", "reverse", "update", "add",
                    "discard", "setdefault", "popitem", "popleft", "appendleft", "extendleft", "rotate", "move_to_end", "subtract",
                    "difference_update", "intersection_update", "symmetric_difference_update"}
BUILTIN_READERS = {"get", "items", "keys", "values", "index", "count", "copy", "join", "split", "format", "startswith",
                   "endswith", "lower", "upper", "strip", "lstrip", "rstrip", "replace", "encode", "decode", "zfill",
                   "rjust", "ljust", "isdigit", "is_integer", "bit_length", "hex", "fromkeys", "union", "intersection",
                   "difference", "issubset", "conjugate", "as_integer_ratio", "title", "find"}
PRECONDITION_BREAKERS = {"getattr", "setattr", "delattr", "globals", "locals", "exec", "eval", "vars", "__import__", "compile"}


@dataclass
class FuncInfo:
    qual: str
    rel: str
    module: str
    node: ast.AST                       # FunctionDef or Module (for module bodies)
    cls: Optional[str] = None           # qualified class name for methods
    params: List[str] = field(default_factory=list)
    is_module_body: bool = False

    @property
    def name(self) -> str:
        return self.qual.rsplit(".", 1)[-1]


@dataclass
class ClassInfo:
    qual: str
    rel: str
    node: ast.ClassDef
    bases: List[str] = field(default_factory=list)      # resolved qualified names of repository base classes
    methods: Dict[str, str] = field(default_factory=dict)  # name -> function qual (own methods)
    fields: Dict[str, str] = field(default_factory=dict)   # self.attr -> class qual (from `self.attr = Ctor()` in __init__)
    is_data: bool = False               # NamedTuple / TypedDict / dataclass: no behaviour


@dataclass
class Binding:
    kind: str          # 'func' | 'class' | 'module' | 'var' | 'external'
    target: str        # qualified name (function/class/module/variable) or external dotted name
    node: Optional[ast.AST] = None
    rel: Optional[str] = None


@dataclass
class CallSite:
    caller: str
    node: ast.Call
    callees: List[str]                  # resolved repository functions (ctor -> Class.__init__ if defined)
    kind: str                           # 'func' | 'ctor' | 'method' | 'builtin' | 'external' | 'builtin-method' | 'unresolved'
    ctor_class: Optional[str] = None
    name: str = ""
    by_name: bool = False               # the receiver's class is not known: every repository class with a method of that name is a callee


class Model:
    def __init__(self, sources: core.Sources):
        self.sources = sources
        self.modules: Dict[str, str] = {}               # module qual -> rel
        self.scopes: Dict[str, Dict[str, Binding]] = {}  # module qual -> name -> binding
        self.funcs: Dict[str, FuncInfo] = {}
        self.classes: Dict[str, ClassInfo] = {}
        self.module_vars: Dict[str, Binding] = {}       # qualified var name -> binding (kind 'var')
        self.var_class: Dict[str, str] = {}             # qualified module variable -> class qual (singletons)
        self.calls: Dict[str, List[CallSite]] = {}
        self.unresolved: List[CallSite] = []
        self.precondition_lost: List[Tuple[str, ast.AST, str]] = []
        self.local_imports: Dict[str, Dict[str, Binding]] = {}
        self._locals_cache: Dict[str, Set[str]] = {}
        self._build()

    # -- construction -------------------------------------------------------------------
    @staticmethod
    def mod_qual(rel: str) -> str:
        parts = rel[:-3].split("/")
        if parts[-1] == "__init__":
            parts = parts[:-1]
        return ".".join(parts)

    def _build(self):
        for rel in sorted(self.sources.trees):
            if rel.startswith("a5/"):
                self.modules[self.mod_qual(rel)] = rel
        for mq, rel in self.modules.items():
            self.sources.tree(rel)     # mark consulted
        for mq in self.modules:
            self.scopes[mq] = {}
        # pass 1: definitions
        for mq, rel in self.modules.items():
            tree = self.sources.trees[rel]
            sc = self.scopes[mq]
            self.funcs[f"<module {mq}>"] = FuncInfo(f"<module {mq}>", rel, mq, tree, None, [], True)
            for n in tree.body:
                if isinstance(n, ast.FunctionDef):
                    q = f"{mq}.{n.name}"
                    self.funcs[q] = FuncInfo(q, rel, mq, n, None, [a.arg for a in n.args.args])
                    sc[n.name] = Binding("func", q, n, rel)
                elif isinstance(n, ast.ClassDef):
                    cq = f"{mq}.{n.name}"
                    ci = ClassInfo(cq, rel, n)
                    base_names = [core.src(b) for b in n.bases]
                    ci.is_data = any(b in ("NamedTuple", "TypedDict") or b.startswith("TypedDict") for b in base_names) or \
                        any(core.src(d).startswith("dataclass") for d in n.decorator_list)
                    self.classes[cq] = ci
                    sc[n.name] = Binding("class", cq, n, rel)
                    for m in n.body:
                        if isinstance(m, ast.FunctionDef):
                            fq = f"{cq}.{m.name}"
                            self.funcs[fq] = FuncInfo(fq, rel, mq, m, cq, [a.arg for a in m.args.args])
                            ci.methods[m.name] = fq
        # pass 2: imports and module variables (in statement order, later bindings override)
        for _ in range(3):   # re-exports through __init__ need a couple of rounds
            for mq, rel in self.modules.items():
                self._bind_module(mq, rel)
        # pass 3: class bases and field tables
        for cq, ci in self.classes.items():
            mq = cq.rsplit(".", 1)[0]
            for b in ci.node.bases:
                bd = self.resolve_expr_binding(b, mq)
                if bd is not None and bd.kind == "class":
                    ci.bases.append(bd.target)
        for cq, ci in self.classes.items():
            init = ci.methods.get("__init__")
            if init:
                mq = cq.rsplit(".", 1)[0]
                for st in ast.walk(self.funcs[init].node):
                    if isinstance(st, (ast.Assign, ast.AnnAssign)):
                        tg = st.targets[0] if isinstance(st, ast.Assign) else st.target
                        if isinstance(tg, ast.Attribute) and isinstance(tg.value, ast.Name) and tg.value.id == "self" and \
                                isinstance(st.value, ast.Call):
                            bd = self.resolve_expr_binding(st.value.func, mq)
                            if bd is not None and bd.kind == "class":
                                ci.fields[tg.attr] = bd.target
        # pass 4: singletons (module variables holding class instances)
        for vq, bd in self.module_vars.items():
            mq = vq.rsplit(".", 1)[0]
            v = bd.node
            if isinstance(v, ast.Call):
                cb = self.resolve_expr_binding(v.func, mq)
                if cb is not None and cb.kind == "class":
                    self.var_class[vq] = cb.target
        # function-local imports (`import random` inside a function body)
        for fq, fi in self.funcs.items():
            if fi.is_module_body:
                continue
            pkg = fi.rel[:-3].split("/")
            for n in ast.walk(fi.node):
                if isinstance(n, ast.Import):
                    for a in n.names:
                        nm = a.asname or a.name.split(".")[0]
                        self.local_imports.setdefault(fq, {})[nm] = Binding("module", a.name) if a.name in self.modules else Binding("external", a.name)
                elif isinstance(n, ast.ImportFrom):
                    target = self._import_target(pkg, pkg[-1] == "__init__", n.module, n.level)
                    for a in n.names:
                        nm = a.asname or a.name
                        if target is not None and target in self.scopes and a.name in self.scopes[target]:
                            self.local_imports.setdefault(fq, {})[nm] = self.scopes[target][a.name]
                        else:
                            self.local_imports.setdefault(fq, {})[nm] = Binding("external", f"{n.module}.{a.name}")
        # pass 5: call sites
        for fq, fi in self.funcs.items():
            self.calls[fq] = self._collect_calls(fi)

    def _bind_module(self, mq: str, rel: str):
        tree = self.sources.trees[rel]
        sc = self.scopes[mq]
        pkg = rel[:-3].split("/")
        is_init = pkg[-1] == "__init__"
        for n in tree.body:
            if isinstance(n, ast.ImportFrom):
                target = self._import_target(pkg, is_init, n.module, n.level)
                for a in n.names:
                    nm = a.asname or a.name
                    if target is None:
                        sc[nm] = Binding("external", f"{n.module}.{a.name}")
                        continue
                    # a name in module `target`, or a submodule
                    sub = f"{target}.{a.name}"
                    if sub in self.modules:
                        sc[nm] = Binding("module", sub)
                    elif target in self.scopes and a.name in self.scopes[target]:
                        sc[nm] = self.scopes[target][a.name]
                    elif target in self.modules:
                        sc.setdefault(nm, Binding("external", f"{target}.{a.name}?"))
                    else:
                        sc[nm] = Binding("external", f"{target}.{a.name}")
            elif isinstance(n, ast.Import):
                for a in n.names:
                    nm = a.asname or a.name.split(".")[0]
                    if a.name in self.modules:
                        sc[nm] = Binding("module", a.name)
                    else:
                        sc[nm] = Binding("external", a.name)
            elif isinstance(n, (ast.Assign, ast.AnnAssign)):
                tgs = n.targets if isinstance(n, ast.Assign) else [n.target]
                val = n.value
                for tg in tgs:
                    if isinstance(tg, ast.Name) and val is not None:
                        # alias of a function / class / module?
                        if isinstance(val, (ast.Name, ast.Attribute)):
                            bd = self.resolve_expr_binding(val, mq)
                            if bd is not None and bd.kind in ("func", "class", "module"):
                                sc[tg.id] = bd
                                continue
                        b = Binding("var", f"{mq}.{tg.id}", val, rel)
                        sc[tg.id] = b
                        self.module_vars[b.target] = b
            elif isinstance(n, ast.For):
                for tg in ast.walk(n.target):
                    if isinstance(tg, ast.Name):
                        b = Binding("var", f"{mq}.{tg.id}", None, rel)
                        sc[tg.id] = b
                        self.module_vars[b.target] = b

    def _import_target(self, pkg: List[str], is_init: bool, module: Optional[str], level: int) -> Optional[str]:
        if level == 0:
            if module is None:
                return None
            return module if (module in self.modules or module.split(".")[0] == "a5") else None
        base = pkg[:-1] if not is_init else pkg[:-1]
        # level 1 = the package containing this module
        up = level - 1
        base = base[:len(base) - up] if up else base
        parts = base + (module.split(".") if module else [])
        return ".".join(parts)

    # -- resolution ---------------------------------------------------------------------
    def resolve_expr_binding(self, e: ast.expr, mq: str) -> Optional[Binding]:
        if isinstance(e, ast.Name):
            return self.scopes.get(mq, {}).get(e.id)
        if isinstance(e, ast.Attribute):
            base = self.resolve_expr_binding(e.value, mq)
            if base is None:
                return None
            if base.kind == "module":
                if base.target in self.scopes:
                    sub = f"{base.target}.{e.attr}"
                    if sub in self.modules:
                        return Binding("module", sub)
                    return self.scopes[base.target].get(e.attr)
                return Binding("external", f"{base.target}.{e.attr}")
            if base.kind == "external":
                return Binding("external", f"{base.target}.{e.attr}")
        return None

    def mro(self, cq: str) -> List[str]:
        out, todo = [], [cq]
        while todo:
            c = todo.pop(0)
            if c in out or c not in self.classes:
                continue
            out.append(c)
            todo.extend(self.classes[c].bases)
        return out

    def find_method(self, cq: str, name: str) -> Optional[str]:
        for c in self.mro(cq):
            m = self.classes[c].methods.get(name)
            if m:
                return m
        return None

    def classes_with_method(self, name: str) -> List[str]:
        return [cq for cq, ci in self.classes.items() if name in ci.methods]

    def local_names(self, fi: FuncInfo) -> Set[str]:
        if fi.is_module_body:
            return set()
        cached = self._locals_cache.get(fi.qual)
        if cached is not None:
            return cached
        names = self._local_names(fi)
        self._locals_cache[fi.qual] = names
        return names

    def _local_names(self, fi: FuncInfo) -> Set[str]:
        names = set(fi.params)
        for n in ast.walk(fi.node):
            if isinstance(n, ast.Name) and isinstance(n.ctx, ast.Store):
                names.add(n.id)
        # `global x` statements make x module-level
        for n in ast.walk(fi.node):
            if isinstance(n, ast.Global):
                names -= set(n.names)
        return names

    def annotation_class(self, ann: Optional[ast.expr], mq: str) -> Optional[str]:
        if ann is None:
            return None
        if isinstance(ann, ast.Constant) and isinstance(ann.value, str):
            try:
                ann = ast.parse(ann.value, mode="eval").body
            except SyntaxError:
                return None
        bd = self.resolve_expr_binding(ann, mq) if isinstance(ann, (ast.Name, ast.Attribute)) else None
        if bd is not None and bd.kind == "class" and not self.classes[bd.target].is_data:
            return bd.target
        return None

    def expr_class(self, e: ast.expr, fi: FuncInfo, local_types: Dict[str, Set[str]]) -> Set[str]:
        """repository classes an expression may be an instance of (empty = unknown / not an instance)"""
        mq = fi.module
        if isinstance(e, ast.Name):
            if e.id == "self" and fi.cls:
                return {fi.cls}
            if e.id in local_types:
                return set(local_types[e.id])
            bd = self.scopes[mq].get(e.id)
            if bd is not None and bd.kind == "var" and bd.target in self.var_class:
                return {self.var_class[bd.target]}
            return set()
        if isinstance(e, ast.Attribute):
            out = set()
            for c in self.expr_class(e.value, fi, local_types):
                for k in self.mro(c):
                    if e.attr in self.classes[k].fields:
                        out.add(self.classes[k].fields[e.attr])
            return out
        if isinstance(e, ast.Call):
            bd = self.resolve_expr_binding(e.func, mq) if isinstance(e.func, (ast.Name, ast.Attribute)) else None
            if bd is not None and bd.kind == "class":
                return {bd.target}
            if bd is not None and bd.kind == "func":
                c = self.annotation_class(self.funcs[bd.target].node.returns, self.funcs[bd.target].module)
                return {c} if c else set()
            if isinstance(e.func, ast.Attribute):
                out = set()
                for c in self.expr_class(e.func.value, fi, local_types):
                    m = self.find_method(c, e.func.attr)
                    if m:
                        rc = self.annotation_class(self.funcs[m].node.returns, self.funcs[m].module)
                        if rc:
                            out.add(rc)
                return out
            if isinstance(e.func, ast.Name) and e.func.id == "cast" and len(e.args) == 2:
                return self.expr_class(e.args[1], fi, local_types)
        if isinstance(e, ast.IfExp):
            return self.expr_class(e.body, fi, local_types) | self.expr_class(e.orelse, fi, local_types)
        return set()

    def local_types(self, fi: FuncInfo) -> Dict[str, Set[str]]:
        lt: Dict[str, Set[str]] = {}
        if fi.is_module_body:
            return lt
        for a in fi.node.args.args:
            c = self.annotation_class(a.annotation, fi.module)
            if c:
                lt.setdefault(a.arg, set()).add(c)
        for _ in range(2):
            for n in ast.walk(fi.node):
                if isinstance(n, (ast.Assign, ast.AnnAssign)) and n.value is not None:
                    tgs = n.targets if isinstance(n, ast.Assign) else [n.target]
                    for tg in tgs:
                        if isinstance(tg, ast.Name):
                            cs = self.expr_class(n.value, fi, lt)
                            if cs:
                                lt.setdefault(tg.id, set()).update(cs)
        return lt

    def _collect_calls(self, fi: FuncInfo) -> List[CallSite]:
        out: List[CallSite] = []
        locs = self.local_names(fi)
        lt = self.local_types(fi)
        mq = fi.module
        if fi.is_module_body:
            nodes = []
            for st in fi.node.body:
                if isinstance(st, (ast.FunctionDef, ast.ClassDef)):
                    # decorators / defaults / class-level statements run at import time
                    if isinstance(st, ast.ClassDef):
                        for m in st.body:
                            if not isinstance(m, ast.FunctionDef):
                                nodes.extend(ast.walk(m))
                    continue
                nodes.extend(ast.walk(st))
        else:
            nodes = list(ast.walk(fi.node))
        for n in nodes:
            if not isinstance(n, ast.Call):
                continue
            cs = self.resolve_call(n, fi, locs, lt)
            out.append(cs)
            if cs.kind == "unresolved":
                self.unresolved.append(cs)
            if cs.kind == "builtin" and cs.name in PRECONDITION_BREAKERS:
                # getattr / setattr / hasattr / delattr with a literal attribute name is an ordinary attribute access
                literal = cs.name in ("getattr", "setattr", "delattr") and len(n.args) >= 2 and isinstance(n.args[1], ast.Constant) \
                    and isinstance(n.args[1].value, str)
                if not literal:
                    self.precondition_lost.append((fi.qual, n, cs.name))
        return out

    def resolve_call(self, n: ast.Call, fi: FuncInfo, locs: Set[str], lt: Dict[str, Set[str]]) -> CallSite:
        f = n.func
        mq = fi.module
        li = self.local_imports.get(fi.qual)
        if li:
            root = f
            while isinstance(root, ast.Attribute):
                root = root.value
            if isinstance(root, ast.Name) and root.id in li:
                bd = li[root.id]
                if isinstance(f, ast.Attribute):
                    chain = []
                    x = f
                    while isinstance(x, ast.Attribute):
                        chain.insert(0, x.attr)
                        x = x.value
                    if bd.kind == "external":
                        bd = Binding("external", ".".join([bd.target] + chain))
                    elif bd.kind == "module" and len(chain) == 1 and bd.target in self.scopes and chain[0] in self.scopes[bd.target]:
                        bd = self.scopes[bd.target][chain[0]]
                    else:
                        bd = Binding("external", ".".join([bd.target] + chain))
                return self._site_for_binding(bd, n, fi, core.src(f))
        if isinstance(f, ast.Name):
            if f.id in locs and f.id not in self.scopes[mq]:
                return CallSite(fi.qual, n, [], "unresolved", name=f.id)
            bd = self.scopes[mq].get(f.id) if f.id not in locs else None
            if bd is None and f.id in locs:
                return CallSite(fi.qual, n, [], "unresolved", name=f.id)
            if bd is None:
                return CallSite(fi.qual, n, [], "builtin", name=f.id)
            return self._site_for_binding(bd, n, fi, f.id)
        if isinstance(f, ast.Attribute):
            # super().__init__(...)
            if isinstance(f.value, ast.Call) and isinstance(f.value.func, ast.Name) and f.value.func.id == "super" and fi.cls:
                for b in self.mro(fi.cls)[1:]:
                    m = self.classes[b].methods.get(f.attr)
                    if m:
                        return CallSite(fi.qual, n, [m], "method", name=f.attr)
                return CallSite(fi.qual, n, [], "external", name=f"super().{f.attr}")
            bd = self.resolve_expr_binding(f, mq) if self._is_static_path(f, locs) else None
            if bd is not None:
                return self._site_for_binding(bd, n, fi, core.src(f))
            # method call on an object
            classes = self.expr_class(f.value, fi, lt)
            callees = []
            for c in classes:
                m = self.find_method(c, f.attr)
                if m:
                    callees.append(m)
            if callees:
                return CallSite(fi.qual, n, sorted(set(callees)), "method", name=f.attr)
            if f.attr in BUILTIN_MUTATORS or f.attr in BUILTIN_READERS:
                return CallSite(fi.qual, n, [], "builtin-method", name=f.attr)
            cands = []
            for c in self.classes_with_method(f.attr):
                cands.append(self.classes[c].methods[f.attr])
            if cands:
                return CallSite(fi.qual, n, sorted(set(cands)), "method", name=f.attr, by_name=len(set(cands)) > 1)
            return CallSite(fi.qual, n, [], "unresolved", name=core.src(f))
        return CallSite(fi.qual, n, [], "unresolved", name=core.src(f))

    def _is_static_path(self, f: ast.Attribute, locs: Set[str]) -> bool:
        e = f
        while isinstance(e, ast.Attribute):
            e = e.value
        return isinstance(e, ast.Name) and e.id not in locs and e.id != "self"

    def _site_for_binding(self, bd: Binding, n: ast.Call, fi: FuncInfo, name: str) -> CallSite:
        if bd.kind == "func":
            return CallSite(fi.qual, n, [bd.target], "func", name=name)
        if bd.kind == "class":
            ci = self.classes[bd.target]
            init = self.find_method(bd.target, "__init__")
            return CallSite(fi.qual, n, [init] if init else [], "ctor", ctor_class=bd.target, name=name)
        if bd.kind == "external":
            return CallSite(fi.qual, n, [], "external", name=bd.target)
        if bd.kind == "var":
            # a module-level instance that is called:  SEARCH(point)  ==  type(SEARCH).__call__(SEARCH, point)
            cq = self.var_class.get(bd.target)
            m = self.find_method(cq, "__call__") if cq else None
            if m:
                return CallSite(fi.qual, n, [m], "method", name="__call__")
            return CallSite(fi.qual, n, [], "unresolved", name=name)
        return CallSite(fi.qual, n, [], "unresolved", name=name)

    # -- API roots and reachability --------------------------------------------------------
    def api_roots(self) -> List[str]:
        tree = self.sources.tree("a5/__init__.py")
        names: List[str] = []
        for n in tree.body:
            if isinstance(n, ast.Assign) and any(isinstance(t, ast.Name) and t.id == "__all__" for t in n.targets) \
                    and isinstance(n.value, (ast.List, ast.Tuple)):
                names = [e.value for e in n.value.elts if isinstance(e, ast.Constant) and isinstance(e.value, str)]
        roots = []
        self.wrapped_exports: List[str] = []       # exported names bound to the result of a call (`compact = _accepts_ids(core.compact)`)
        for nm in names:
            bd = self.scopes["a5"].get(nm)
            if bd is not None and bd.kind == "func":
                roots.append(bd.target)
                continue
            # name = factory(<core function>, ...): what is exported is whatever the factory returns; the functions named in the
            # expression are still analysed as roots (the wrapper itself is reported as not analysed by the caller)
            for n in tree.body:
                if isinstance(n, ast.Assign) and any(isinstance(t, ast.Name) and t.id == nm for t in n.targets):
                    found = False
                    for x in ast.walk(n.value):
                        if isinstance(x, (ast.Name, ast.Attribute)):
                            try:
                                b2 = self.resolve_expr_binding(x, "a5")
                            except Exception:
                                b2 = None
                            if b2 is not None and b2.kind == "func" and b2.target not in roots:
                                roots.append(b2.target)
                                found = True
                    if found or isinstance(n.value, ast.Call):
                        self.wrapped_exports.append(nm)
            if not any(r.rsplit(".", 1)[-1] == nm for r in roots):
                # exported lazily (module-level __getattr__ with a name -> module table): the one core function of that name
                cands = [q for q, fi in self.funcs.items() if q.rsplit(".", 1)[-1] == nm and not fi.cls and not fi.is_module_body
                         and q.startswith("a5.core.") and q.count(".") == 3]
                if len(cands) == 1:
                    roots.append(cands[0])
                    self.wrapped_exports.append(nm)
        return roots

    def reachable(self, roots: List[str]) -> Dict[str, Optional[Tuple[str, ast.Call]]]:
        """function -> (caller, call node) of one shortest call path from a root (None for roots)"""
        seen: Dict[str, Optional[Tuple[str, ast.Call]]] = {r: None for r in roots}
        todo = list(roots)
        while todo:
            f = todo.pop(0)
            for cs in self.calls.get(f, []):
                for c in cs.callees:
                    if c not in seen:
                        seen[c] = (f, cs.node)
                        todo.append(c)
        return seen

    def call_path(self, reach, f: str) -> List[str]:
        path = [f]
        while reach.get(path[0]) is not None:
            path.insert(0, reach[path[0]][0])
        return path

    KNOWN_DECORATORS = {"property", "staticmethod", "classmethod", "dataclass", "dataclasses.dataclass"}
    MEMO_DECORATORS = {"lru_cache", "functools.lru_cache", "cache", "functools.cache", "cached_property", "functools.cached_property"}

    def decorators(self, fq: str) -> List[str]:
        fi = self.funcs[fq]
        if fi.is_module_body:
            return []
        out = []
        for d in getattr(fi.node, "decorator_list", []):
            e = d.func if isinstance(d, ast.Call) else d
            out.append(core.src(e))
        return out

    def memoised(self, fq: str) -> bool:
        return any(d in self.MEMO_DECORATORS for d in self.decorators(fq))

    def unknown_decorators(self) -> List[Tuple[str, str]]:
        out = []
        for fq in self.funcs:
            for d in self.decorators(fq):
                if d not in self.KNOWN_DECORATORS and d not in self.MEMO_DECORATORS:
                    out.append((fq, d))
        return out

    def stats(self) -> Dict[str, int]:
        total = sum(len(v) for v in self.calls.values())
        unresolved = len(self.unresolved)
        return {"modules": len(self.modules), "functions": sum(1 for f in self.funcs.values() if not f.is_module_body),
                "classes": len(self.classes), "call_sites": total, "unresolved_call_sites": unresolved}
