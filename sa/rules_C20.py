"""C20 -- cell-count and area metadata agree with the actual hierarchy."""
from __future__ import annotations

import math
from typing import Any, Dict, List, Optional, Tuple

from . import core
from .absint import Budget, FloatV, Interp, ListV, _Unmodelled
from . import codec
from .codec import INFO, SER, describe_path
from .lin import Lin
from .rules_C06 import Raises, Setup, check_pair, children_family, const_call

QI = "a5.core.cell_info"
QS = "a5.core.serialization"

WGS84_A = 6378137.0
WGS84_INVF = 298.257223563


def wgs84_authalic_radius() -> float:
    f = 1.0 / WGS84_INVF
    e2 = f * (2 - f)
    e = math.sqrt(e2)
    return WGS84_A * math.sqrt((1 + (1 - e2) / (2 * e) * math.log((1 + e) / (1 - e))) / 2)


def fold(expr) -> Optional[float]:
    """constant-folds a float expression tree built by the interpreter (IEEE double arithmetic)"""
    k = expr[0]
    if k == "const":
        return float(expr[1])
    if k == "name":
        return fold(expr[2])
    if k == "int":
        l = expr[1]
        return float(l.const) if isinstance(l, Lin) and l.is_const() else None
    if k == "neg":
        v = fold(expr[1])
        return None if v is None else -v
    if k == "pow":
        return float(expr[1]) ** expr[2]
    if k in ("Mult", "Div", "Add", "Sub", "Pow"):
        a, b = fold(expr[1]), fold(expr[2])
        if a is None or b is None:
            return None
        try:
            if k == "Mult":
                return a * b
            if k == "Div":
                return a / b
            if k == "Add":
                return a + b
            if k == "Sub":
                return a - b
            return a ** b
        except (ZeroDivisionError, OverflowError):
            return None
    return None


def factors(expr) -> Optional[List[Any]]:
    """leaves of a pure product"""
    k = expr[0]
    if k == "Mult":
        a, b = factors(expr[1]), factors(expr[2])
        return None if a is None or b is None else a + b
    if k == "Pow" and expr[2][0] == "int" and expr[2][1].is_const() and 0 < expr[2][1].const <= 4:
        a = factors(expr[1])
        return None if a is None else a * expr[2][1].const
    if k == "name":
        return [("name", expr[1], fold(expr[2]))]
    if k == "const":
        return [("const", expr[2] if len(expr) > 2 else repr(expr[1]), float(expr[1]))]
    if k == "int":
        return [("const", str(expr[1]), fold(expr))]
    return None


def check_history(ctx, interp, MAX: int, where: str):
    """If get_num_cells / get_num_children keep results in module-level tables: every value any call may have left under a key
    is offered to every other call (saturation); a result that differs from the cold-table result is a history dependence."""
    cold: Dict[tuple, Any] = {}
    interp.saturated = False
    requests = [("get_num_cells", (r,)) for r in range(-1, MAX + 1)] + \
               [("get_num_children", (a, b)) for a in range(-1, MAX + 1) for b in range(a, MAX + 1)]
    for fn, args in requests:
        cold[(fn, args)] = const_call(interp, INFO, fn, list(args))
    if not any(interp.map_values.values()):
        ctx.ok("C20.5", f"{QI}: the count functions keep no results between calls", where, "no module-level table is written by get_num_cells / get_num_children")
        return
    interp.saturated = True
    bad = 0
    try:
        for fn, args in requests:
            interp.current_request = f"{fn}{args} (warm)"
            outs = interp.run_function(INFO, fn, [Lin(a) for a in args])
            for o in outs:
                v = o.value.const if (o.kind == "return" and isinstance(o.value, Lin) and o.value.is_const()) else (Raises(str(o.value)) if o.kind == "raise" else None)
                c = cold[(fn, args)]
                if v is None or c is None:
                    continue
                if repr(v) != repr(c):
                    bad += 1
                    if bad <= 5:
                        # who could have left the value that is picked up?
                        prov = []
                        for tbl, keys in interp.map_stores.items():
                            for key, vals in keys.items():
                                for rv, who in vals.items():
                                    if f"{tbl[1]}[{key!r}]" in " ".join(str(cn) for cn, _, _ in o.state.path) and who and "(warm)" not in who:
                                        prov.append(f"{tbl[1]}[{key!r}] = {rv} stored by {who}")
                        ctx.bad("C20.5", f"{QI}.{fn}{args} returns {v} instead of {c} after other calls", where,
                                f"a module-level table is read under a key that an earlier call with different arguments also writes: {prov[:3]}; "
                                f"the count used to size outputs then disagrees with the hierarchy")
    finally:
        interp.saturated = False
    if not bad:
        ctx.ok("C20.5", f"{QI}: results kept in module-level tables do not change any count", where,
               f"{len(requests)} requests re-evaluated with every value an earlier call could have stored")


def run(ctx):
    ctx.explanation = (
        "get_num_cells, get_num_children and cell_area are evaluated abstractly for every resolution / resolution pair "
        "(constant propagation through the interpreter; no list is built) and compared with the size summaries of the "
        "enumerating code: length of the cell_to_children family for every pair, expansion of the world cell, product rule "
        "N(a)*children(a,b) == N(b), strict monotonicity; cell_area's return expression is taken apart structurally "
        "(numerator = one module constant = 4*pi*R*R, denominator = get_num_cells(r)), R is compared with the WGS84 authalic "
        "radius, and exact representability of every count bounds the rounding of cell_area(r)*N(r).")
    ctx.trusted_base = ["sa/lin.py and sa/absint.py transfer functions", "IEEE-754 double arithmetic for the folded constants",
                        "WGS84 a and 1/f typed into the checker"]
    su = Setup(ctx)
    interp, consts = su.interp, su.consts
    for fn in ("get_num_cells", "get_num_children", "cell_area"):
        ctx.sources.func(INFO, fn)
    wn = core.loc(INFO, ctx.sources.func(INFO, "get_num_cells"))
    wc = core.loc(INFO, ctx.sources.func(INFO, "get_num_children"))
    wa = core.loc(INFO, ctx.sources.func(INFO, "cell_area"))
    MAX = consts.MAX

    # ---- C20.1 closed form of get_num_cells ------------------------------------------------------
    N: Dict[int, Optional[int]] = {}
    for r in range(-2, MAX + 2):
        N[r] = const_call(interp, INFO, "get_num_cells", [r])
        if isinstance(N[r], Raises):
            if -1 <= r <= MAX:
                ctx.bad("C20.1", f"{QI}.get_num_cells({r}) {N[r]}", wn, "the count function raises for a valid resolution")
            N[r] = None
        elif N[r] is None:
            ctx.unk("C20.1", f"{QI}.get_num_cells({r})", wn, "value not determined")
    known = [r for r in range(0, MAX + 1) if N[r] is not None]
    ctx.floor("get_num_cells values determined", len(known), 25, soft=True)
    for r in known:
        if r + 1 in N and N[r + 1] is not None and r + 1 <= MAX:
            if N[r + 1] > N[r] > 0:
                ctx.ok("C20.1", f"{QI}.get_num_cells strictly increasing at {r} -> {r + 1}", wn, f"{N[r]} < {N[r + 1]}")
            else:
                ctx.bad("C20.1", f"{QI}.get_num_cells not strictly increasing at {r} -> {r + 1}", wn, f"{N[r]} then {N[r + 1]}")
    pts = [(r, N[r]) for r in known if r >= 1]
    closed = all(n == pts[0][1] * 4 ** (r - pts[0][0]) for r, n in pts) if pts else False
    ctx.analysed["get_num_cells"] = {str(r): N[r] for r in range(-1, MAX + 1)}
    ctx.analysed["get_num_cells_closed_form"] = (f"N(0)={N.get(0)}, N(r)={pts[0][1]}*4**(r-1) for r>=1" if closed and pts else "not of the form c*4**(r-1)")

    # ---- C20.2 child-count rule == length of the enumeration, all pairs ------------------------------
    raising: Dict[int, List[int]] = {}

    def pair_task(a):
        rec = core.Recorder(ctx)
        out = []
        if su.ids.get(a) is None:
            return rec.obligations, out
        for b in range(a, MAX + 1):
            rets, raises = children_family(interp, su.ids[a], Lin(b))
            expect = const_call(interp, INFO, "get_num_children", [a, b])
            tag = f"len({QS}.cell_to_children(res {a} -> {b})) vs {QI}.get_num_children({a}, {b})"
            if raises and not rets:
                out.append((a, b, "raises", expect))
                continue
            if len(rets) == 1 and isinstance(rets[0].value, ListV) and rets[0].value.length() is not None and not rets[0].state.path:
                n = rets[0].value.length()
                out.append((a, b, n, expect))
                if isinstance(expect, Raises):
                    rec.bad("C20.2", f"{QI}.get_num_children({a}, {b}) {expect}", wc, f"the enumeration has {n} cells; the rule that sizes outputs raises")
                elif expect is None:
                    rec.unk("C20.2", tag, wc, "get_num_children not determined")
                elif n == expect:
                    rec.ok("C20.2", tag, wc, f"both {n}")
                else:
                    rec.bad("C20.2", tag + f": {n} != {expect}", wc,
                            f"enumeration has loop trip counts {[[c for _, c in s.binders] for s in rets[0].value.segs]}")
            else:
                rec.unk("C20.2", tag, wc, "length of the enumeration not determined")
        return rec.obligations, out

    lens: Dict[Tuple[int, int], Any] = {}
    try:
        for obs, out in core.parallel_map(pair_task, list(range(-1, MAX + 1))):
            ctx.obligations.extend(obs)
            for a, b, n, expect in out:
                lens[(a, b)] = n
                if n == "raises":
                    raising.setdefault(b, []).append(a)
    except (Budget, _Unmodelled) as e:
        ctx.unk("C20.2", f"{QS}.cell_to_children: interpretation stopped", SER, f"{type(e).__name__}: {e}")
    for b, lst in sorted(raising.items()):
        if su.ids.get(b) is None:
            # no valid id exists at that level at all (C05.3 / C06.0 report it); the statement's count clauses are
            # about resolutions whose cells exist, so there is nothing to compare the rule with
            ctx.notes.append(f"pairs with target resolution {b} not compared: serialize produces no id at that level "
                             f"(reported by C05/C06), parent resolutions {sorted(lst)}")
            continue
        ctx.bad("C20.2", f"{QS}.cell_to_children to resolution {b} raises: its length cannot equal get_num_children", wc,
                f"parent resolutions {sorted(lst)}; get_num_children(a, {b}) promises a positive count")
    ctx.floor("resolution pairs compared", len(lens), 400, soft=True)
    nzero = 0
    for a in range(-1, MAX + 1):
        for b in range(-1, a):
            v = const_call(interp, INFO, "get_num_children", [a, b])
            if isinstance(v, Raises) or v != 0:
                ctx.ob("C20.2", f"{QI}.get_num_children({a}, {b}) for a finer target is {v}, not 0",
                       core.VIOLATED if v is not None else core.UNDECIDED, wc, "no cell has descendants at a coarser level")
            else:
                nzero += 1
    ctx.ok("C20.2", f"{QI}.get_num_children(a, b) == 0 for all b < a", wc, f"{nzero} pairs")

    # ---- C20.6 the cells that are counted are distinct ---------------------------------------------------------------
    # "number of distinct cells": the lengths above count list entries.  That no cell is listed twice within one parent is what
    # C06.2 establishes per resolution pair (and C06.1 that every entry is a cell of the target level); the same analysis is run
    # here and whatever it does not discharge is reported under this property as well.  Across parents a collision witness is
    # searched for (two valuations of parent symbols and loop variables with the same id); finding none proves nothing more.
    from . import rules_C06

    def distinct_task(a):
        rec6 = core.Recorder(ctx)
        n6 = 0
        try:
            su6 = distinct_task.su
            su6.raising = {}
            if su6.ids.get(a) is not None:
                for b in range(a, MAX + 1):
                    rules_C06.check_pair(rec6, su6, a, b)
                    n6 += 1
                    if b == a:
                        continue
                    # children of two DIFFERENT parents: the id form is evaluated at two valuations of (parent symbols, loop
                    # variables); equal values are a witness that expanding level a lists a level-b cell twice
                    rets, _rz = children_family(su6.interp, su6.ids[a], Lin(b))
                    if len(rets) != 1 or not isinstance(rets[0].value, ListV) or rets[0].state.path:
                        continue
                    for seg in rets[0].value.segs:
                        e = seg.elem
                        if not isinstance(e, Lin) or e.has_opaque():
                            continue
                        bnames = {bs.name for bs, _ in seg.binders}
                        par = [(sy, sy.hi - sy.lo + 1) for sy in e.syms()
                               if sy.name not in bnames and sy.lo == 0 and sy.hi is not None and sy.hi >= 1]
                        w_ = codec.collision_witness(e, list(seg.binders) + par)
                        if w_ is not None:
                            p1, p2, val = w_
                            rec6.bad("C06.2", f"{QS}.cell_to_children(res {a} -> {b}): two different (parent, position) pairs give the same id",
                                     core.loc(SER, ctx.sources.func(SER, "cell_to_children")),
                                     f"child id {e} evaluates to {val:#x} both at {p1} and at {p2}: the level-{b} cells listed for level {a} are not distinct")
        except (Budget, _Unmodelled) as e:
            rec6.unk("C06.2", f"{QS}.cell_to_children from resolution {a}: interpretation stopped", SER, f"{type(e).__name__}: {e}")
        # (cell_to_parent is not part of this property: C06.1's parent obligations stay with C06)
        return [o for o in rec6.obligations if o.rule == "C06.2" or (o.rule == "C06.1" and "cell_to_parent(child" not in o.construct)], n6

    try:
        distinct_task.su = rules_C06.Setup(core.Recorder(ctx))
        held = open_ = 0
        for obs6, n6 in core.parallel_map(distinct_task, list(range(-1, MAX + 1))):
            for o in obs6:
                if o.state == core.DISCHARGED:
                    held += 1
                else:
                    open_ += 1
                    ctx.ob("C20.6", "distinct cells: " + o.construct, o.state, o.where, f"({o.rule}) {o.detail}")
        ctx.ob("C20.6", f"{QS}.cell_to_children lists no cell twice, all resolution pairs",
               core.DISCHARGED if not open_ and held else core.UNDECIDED, core.loc(SER, ctx.sources.func(SER, "cell_to_children")),
               f"{held} obligations hold (C06.1 resolution / validity of every child, C06.2 no repetition within a parent; no collision witness across parents), {open_} reported separately")
    except (Budget, _Unmodelled, core.AnalysisError) as e:
        ctx.unk("C20.6", f"{QS}.cell_to_children: distinctness of the listed cells", SER, f"{type(e).__name__}: {e}")

    # ---- C20.5 the count functions do not depend on earlier calls (module-level memo tables) ------------------------
    check_history(ctx, interp, MAX, wc)

    # ---- C20.3 expansion of the world cell and the product rule -----------------------------------------
    for r in range(0, MAX + 1):
        n = lens.get((-1, r))
        if n is None or n == "raises" or N[r] is None:
            continue
        if n == N[r]:
            ctx.ok("C20.3", f"world cell expands to get_num_cells({r}) cells", wn, f"{n}")
        else:
            ctx.bad("C20.3", f"world cell expands to {n} cells at resolution {r}, get_num_cells({r}) = {N[r]}", wn,
                    "count of the enumeration vs closed form")
    rec = core.Recorder(ctx)
    try:
        for r in range(0, min(MAX, 29) + 1):
            check_pair(rec, su, -1, r)
    except (Budget, _Unmodelled) as e:
        ctx.unk("C20.3", "distinctness of the expanded world cell: interpretation stopped", SER, str(e))
    for o in rec.obligations:
        if o.rule == "C06.2":
            ctx.ob("C20.3", o.construct.replace("children pairwise distinct", "expansion of the world cell has no repetition").replace("the same child is listed", "the expansion of the world cell lists the same cell"), o.state, o.where, o.detail)
    for a in range(0, MAX + 1):
        for b in range(a, MAX + 1):
            nc = const_call(interp, INFO, "get_num_children", [a, b])
            if nc is None or isinstance(nc, Raises) or N[a] is None or N[b] is None:
                continue
            if N[a] * nc == N[b]:
                ctx.ok("C20.3", f"get_num_cells({a}) * get_num_children({a}, {b}) == get_num_cells({b})", wc, f"{N[a]} * {nc} = {N[b]}")
            else:
                ctx.bad("C20.3", f"get_num_cells({a}) * get_num_children({a}, {b}) != get_num_cells({b})", wc, f"{N[a]} * {nc} = {N[a] * nc} vs {N[b]}")

    # ---- C20.4 cell_area ------------------------------------------------------------------------------
    R_env = interp.module_env(INFO).get("AUTHALIC_RADIUS")
    A_env = interp.module_env(INFO).get("AUTHALIC_AREA")
    areas: Dict[int, float] = {}
    numer_names = set()
    for r in range(-1, MAX + 1):
        outs = interp.run_function(INFO, "cell_area", [Lin(r)])
        tag = f"{QI}.cell_area({r})"
        if len(outs) != 1 or outs[0].kind != "return" or not isinstance(outs[0].value, FloatV):
            st = core.VIOLATED if any(o.kind == "raise" for o in outs) else core.UNDECIDED
            ctx.ob("C20.4", f"{tag}: not a single float result", st, wa, f"{[(o.kind, o.value) for o in outs]}"[:200])
            continue
        ex = outs[0].value.expr
        val = fold(ex)
        if val is None:
            ctx.unk("C20.4", f"{tag}: value", wa, f"expression {ex!r} not folded"[:200])
            continue
        areas[r] = val
        if r < 0:
            continue
        if ex[0] == "Div" and ex[1][0] == "name" and ex[2][0] == "int" and ex[2][1].is_const():
            numer_names.add(ex[1][1])
            den = ex[2][1].const
            if N[r] is not None and den == N[r]:
                ctx.ok("C20.4", f"{tag} == {ex[1][1].split(':')[1]} / get_num_cells({r})", wa, f"denominator {den}")
            else:
                ctx.bad("C20.4", f"{tag}: denominator {den} is not get_num_cells({r}) = {N[r]}", wa, f"expression {ex[1][1]} / {den}")
        else:
            K = fold(A_env.expr) if isinstance(A_env, FloatV) else None
            if K is not None and N[r]:
                err = abs(val * N[r] - K) / K
                st = core.DISCHARGED if err <= 4 * 2.0 ** -52 else core.VIOLATED
                ctx.ob("C20.4", f"{tag} * get_num_cells({r}) == AUTHALIC_AREA (by value)", st, wa, f"relative difference {err:.3e}")
            else:
                ctx.unk("C20.4", f"{tag}: structure", wa, f"expression not of the form CONST / get_num_cells: {ex!r}"[:200])
    if len(numer_names) > 1:
        ctx.bad("C20.4", f"{QI}.cell_area uses different numerators at different resolutions", wa, f"{sorted(numer_names)}")
    # the numerator is 4*pi*R*R with R the authalic radius
    if isinstance(A_env, FloatV):
        K = fold(A_env.expr)
        fs = factors(A_env.expr[2]) if A_env.expr[0] == "name" else factors(A_env.expr)
        Rv = fold(R_env.expr) if isinstance(R_env, FloatV) else None
        if K is not None and Rv is not None:
            want = 4 * math.pi * Rv * Rv
            rel = abs(K - want) / want
            ctx.ob("C20.4", f"{QI}.AUTHALIC_AREA == 4*pi*AUTHALIC_RADIUS**2", core.DISCHARGED if rel <= 8 * 2.0 ** -52 else core.VIOLATED,
                   core.loc(INFO, None), f"folded value {K!r}, 4*pi*R*R = {want!r} (relative difference {rel:.2e}); factors {[f[1] for f in fs] if fs else 'n/a'}")
            RA = wgs84_authalic_radius()
            ctx.ob("C20.4", f"{QI}.AUTHALIC_RADIUS is the WGS84 authalic radius", core.DISCHARGED if abs(Rv - RA) <= 0.05 else core.VIOLATED,
                   core.loc(INFO, None), f"literal {Rv!r} vs {RA!r} derived from a = {WGS84_A}, 1/f = {WGS84_INVF} (tolerance 0.05 m)")
            if -1 in areas:
                ctx.ob("C20.4", f"{QI}.cell_area(-1) is the whole sphere", core.DISCHARGED if areas[-1] == K else core.VIOLATED, wa, f"{areas[-1]!r} vs {K!r}")
        else:
            ctx.unk("C20.4", f"{QI}.AUTHALIC_AREA / AUTHALIC_RADIUS", core.loc(INFO, None), "constants not folded")
    else:
        ctx.unk("C20.4", f"{QI}.AUTHALIC_AREA", core.loc(INFO, None), "module constant not found as a float expression")
    # exact representability of the counts => cell_area(r) * N(r) within 2 roundings of the constant
    for r in known:
        n = N[r]
        sig = n.bit_length() - ((n & -n).bit_length() - 1) if n else 0
        if sig > 53:
            ctx.bad("C20.4", f"get_num_cells({r}) = {n} is not exactly representable as a double", wn, f"{sig} significant bits")
    ctx.ok("C20.4", "every get_num_cells(r) is exactly representable (<= 53 significant bits)", wn,
           "so cell_area(r) * get_num_cells(r) differs from AUTHALIC_AREA by at most two roundings (one division, one multiplication)")
    dec = [r for r in range(0, MAX) if r in areas and r + 1 in areas and not areas[r + 1] < areas[r]]
    if dec:
        ctx.bad("C20.4", f"{QI}.cell_area not strictly decreasing at resolutions {dec}", wa, f"{[(r, areas[r], areas[r + 1]) for r in dec[:3]]}")
    elif len(areas) >= 25:
        ctx.ok("C20.4", f"{QI}.cell_area strictly decreasing over 0..{MAX}", wa, "folded constants; ratios of consecutive counts are >= 4 >> 1 + 2**-52")
    # C20.7 (round 11): the counts describe what the enumerating functions return NOW -- a list of children that is kept in a memo /
    # module-level table and handed out by reference has, after a caller edited it, another length than the count functions say
    from . import purity
    purity.fresh_result(ctx, "C20.7", f"{QS}.cell_to_children", "the list of children that the count functions describe")
    purity.fresh_result(ctx, "C20.7", f"{QS}.get_res0_cells", "the list of resolution-0 cells that get_num_cells(0) describes")
    ctx.analysed.update({"pairs_compared": len(lens), "functions": [f"{QI}.get_num_cells", f"{QI}.get_num_children", f"{QI}.cell_area",
                                                                   f"{QS}.cell_to_children", f"{QS}.serialize", f"{QS}.deserialize"]})
