#!/bin/sh
# every claimed check on /repo (quick tier); prints one line per check and fails if any exits non-zero
cd "$(dirname "$0")/.." || exit 2
rc=0
for c in C02 C05 C06 C08 C09 C10 C12 C15 C16 C17 C19 C20; do
  A5_EVIDENCE_OUT=/dev/null ./check $c --tier quick > /tmp/.allchecks.$$ 2>&1; e=$?   # (does not touch the committed evidence files)
  tail -1 /tmp/.allchecks.$$ | cut -c1-120
  [ $e -ne 0 ] && { echo "  ^^^ exit $e"; rc=1; }
done
rm -f /tmp/.allchecks.$$
exit $rc
