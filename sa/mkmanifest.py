"""Writes /verif/MANIFEST.json from the table below (run by hand after adding a check):

    /venv/bin/python sa/mkmanifest.py
"""
import json
import os

HERE = os.path.dirname(os.path.dirname(os.path.abspath(__file__)))

NA = {
    "C01": "Containment of a continuous (lon, lat) in the polygon obtained by a numeric inverse projection depends on float values through acos, atan2, two slerps and a 26-sample neighbour search; no static domain in reach bounds them and no clause of the statement is structural (DESIGN.md section 4).",
    "C03": "Edge-to-edge coincidence of cells is equality of numerically unprojected points computed by different faces' code paths; a property of values, not of code shape.",
    "C04": "Equal area is a property of the numeric composition series -> rotation -> slice-and-dice -> boundary sampling; the only structural ingredient (split before unprojecting) is neither sufficient nor a clean necessary condition.",
    "C07": "Distance between numerically computed centres of a cell and its descendants; depends on the geometric meaning of the Hilbert digit tables, which is not visible syntactically.",
    "C11": "Worst-case metric bounds (quantisation error, corner distances) over a continuum; interval analysis through the projection diverges.",
    "C13": "Mutual inverse to 1e-11 of two numeric maps with data-dependent branch thresholds; correctness of the closed-form inverse is an analytic identity beyond a normal-form comparison.",
    "C14": "Area preservation of the same numeric map for arbitrary polygons; an integral identity, not a code-shape fact.",
    "C18": "Bijection between a table-driven, flip-state-dependent digit rewriting and a geometric inverse (triangle tests on float IJ); needs execution or model checking of the digit transducer, which is outside static analysis.",
}

PENDING_REASON = "claimed in DESIGN.md but the check is not built at this commit; not claimed until it is"

# id -> (technique, level text, level note, design ref)
_CODEC_NOTE = ("Trusted: Python integer semantics for + - * // % << >> & | as transcribed into sa/lin.py; the interpreter sa/absint.py "
               "(path enumeration, guard refinement, loop summarisation). Resolutions are enumerated as trace partitions (-1..31), "
               "everything else (face, segment, 56-bit position S, list contents) stays symbolic. Unmodelled code gives UNDECIDED, never an alarm.")

CHECKS = {
    "C02": (
        "float interval analysis with branch refinement and attained-bound flags (custom interprocedural ast interpreter) + memo-key analysis on the heap/effect model",
        "Only the clause 'cell_to_lonlat(c) has longitude in [-180, 180]' is decided: the returned tuple of a5.core.cell.cell_to_lonlat is evaluated over float intervals, inlining DodecahedronProjection.inverse, to_spherical, to_lonlat and rad_to_deg through the resolved call graph; theta is the result of math.atan2 (range [-pi, pi] by the library contract), comparisons with constants refine the interval on both branches, loops that shift by 360 are unrolled while feasible; record fields (origins[k].axis) are the hull of what the constructor calls in the repository give them; a bound counts as attained only if it is a constant, a full library range on unconstrained arguments or a record value carried through monotone arithmetic -- exceeding [-180, 180] through an attained bound is a violation, otherwise undecided. C02.2: no memo / cache / slot on the call trees of cell_to_lonlat and lonlat_to_cell has a definite key defect (incomplete or non-injective key, inexact hit test, read and written under different keys, decorator store shared by several functions), i.e. the two conversions answer from their arguments alone. The latitude range, 'strictly inside its own ring' and 'maps back to the same cell' are numeric and NOT decided (DESIGN.md section 4). math.fmod with a positive constant modulus is the identity inside (-y, y) and the hull of (-y, y) otherwise.",
        "Trusted: math.atan2 range; IEEE doubles (end points outward rounded, 1e-9 degree tolerance on the inclusion). Assumes atan2 attains its range over the globe (cells tile the sphere), so an out-of-range end point is attained.",
        "DESIGN.md section 3, C02",
    ),
    "C12": (
        "size summaries: sequence lengths as polynomials in the symbolic segment count (custom ast evaluator)",
        "Only the counting / closure / defaults clause is decided: cell_to_boundary and everything that builds its ring (_get_pentagon, tiling.get_*_vertices, PentagonShape.{__init__, clone, split_edges, get_vertices, transformers}, normalize_longitudes) are evaluated over a domain that tracks only sequence lengths, as polynomials in the symbolic `segments`, for a partition of resolutions and all combinations of the two options (absent / explicit; 'auto', None, 1, 3, symbolic s >= 2). Decided: length == (3 at resolution 1, else 5) * segments + [closed_ring]; the closing element is ring[0], appended exactly once iff closed_ring; None/'auto'/absent agree; split_edges keeps each corner first in its edge group; the example passes keys the callee reads. Simplicity, orientation, latitude range and longitude jumps are numeric and NOT decided. C12.7/C12.8 (heap/effect model): no list that outlives the call is grown or shrunk by the ring-building functions, and cell_to_boundary does not store into its options argument. C12.9: cell_to_boundary reads no slot of a module-level options / defaults object that an earlier call has overwritten with an argument-derived value (the C17.1 stale-slot finding restricted to this function).",
        "Trusted: Python list semantics. Appends under undecided conditions or in while loops give UNDECIDED.",
        "DESIGN.md section 3, C12",
    ),
    "C15": (
        "polynomial normal forms in Q[sin, cos, C_k] + independently derived oracle constants (mpmath) + derived error budget",
        "The evaluator body is turned into a polynomial in sin(phi), cos(phi), phi and symbolic coefficients, reduced modulo s^2 + c^2 = 1, and compared with the normal form of phi + sum C_k sin(2(k+1)phi) for all phi at once; a residual is bounded with the literal coefficients (the shipped recurrence omits one -C[5] term: <= 2e-14 rad). The two literal tables are compared with the Fourier coefficients of the exact WGS84 authalic latitude and of its exact inverse, computed by mpmath from the definition (never from repository code). Wiring of forward/inverse and from_lonlat/to_lonlat is checked structurally. Oddness, the fixed points, strict monotonicity, the floating-point error budget and the round-trip bound are derived from the literals. A deviation is reported as a violation only with a witness latitude that breaks the 1e-10 or the 1e-12 clause.",
        "Trusted: mpmath (zip-imported from the offline wheelhouse) at 30/50 digits, WGS84 1/f typed into the checker, IEEE doubles, libm sin/cos within 1 ulp. C15.11 (round 11): cos(phi) taken as sqrt(1 - sin(phi)**2) is judged by evaluating the extracted polynomial exactly at the doubles the code would pass, for latitudes 1e-4..1e-9 rad from the pole (witness or undecided).",
        "DESIGN.md section 3, C15",
    ),
    "C16": (
        "interprocedural effect / alias analysis over the resolved call graph (who-may-write shared state)",
        "Program model with 0 unresolved call sites + points-to/effect summaries (depth-limited access paths, summaries instantiated per call site, so writes through `out` parameters are attributed to what the caller passed). Every write whose target may be a module-level object, in a function reachable from the 13 public functions, is classified: verified idempotent key-complete cache fill (3 instances), verified write-only counter (1), or violation with object, statement and call path. Under arbitrary preemption private state cannot be observed by another thread, so absence of other shared writes implies the property. Keyed stores that look like caches but are not verified are UNDECIDED, never alarms. A synthetic positive control (scratch written through an out-parameter helper) must fire on every run.",
        "Trusted: single bytecode-level reference stores / list.append are atomic under the GIL; no reflection or monkey-patching (checked); callers do not mutate package internals. Flow-insensitive points-to (two exceptions where the position of a use decides: a parameter re-bound at the top level of a function, a name re-bound inside `if NAME is None:`): sound for may-write, may over-approximate aliases. C16.5 (round 11): per-call data kept in `nonlocal` variables of a repository-defined decorator's frame and read back to answer is shared state of all callers of the decorated function.",
        "DESIGN.md section 3, C16",
    ),
    "C17": (
        "interprocedural effect / alias analysis + cache-key injectivity by abstract interpretation",
        "Same heap model as C16, single thread, arbitrary history. Decided: every API-reachable write to module-level state is a verified cache fill, a write-only counter or a scratch buffer completely written before it is read in every activation (must-define walk); cache keys are complete (every variable the value is computed from feeds the key) and injective (list indices evaluated by the abstract interpreter for every combination of boolean arguments: mixed-radix forms with disjoint ranges; dict key covers the whole argument); no public function mutates a parameter (transitively); public functions return objects allocated in the call, never module-level objects; no nondeterminism source is reachable from the API or import-time code.",
        "Trusted: as C16. Bit-for-bit equality additionally assumes a deterministic libm. Round 11: C17.2 also reports a memo whose key rounds an argument (round / floor) while the stored value is computed from the argument as given; C17.4 counts a component of a module-level container that is itself the returned value (`return TABLE[key]`) as a shared object unless the declared result type is immutable; a one-slot memo kept in module-level variables is judged by what its key and its stored values are computed from, through the function's locals.",
        "DESIGN.md section 3, C17",
    ),
    "C05": (
        "abstract interpretation over bit-field linear forms (custom ast interpreter)",
        "serialize / get_resolution / deserialize are interpreted abstractly on the generic cell (face, segment, S symbolic, S a priori unbounded), one run per resolution. Per resolution the analysis decides: the fit check bounds S to exactly its admissible range, the fields are disjoint and the id lies in [1, 2**64), the marker scanner returns r independently of the data bits, the decoder recovers face/segment/S/resolution, re-encoding is the identity; face-table facts come from the import-time code of origin.py. All 2**56 positions are covered at once. A violated obligation names the construct and shows the two disagreeing forms (with a witness valuation when the forms are not syntactically comparable). C05.10 (heap/effect model): the record deserialize returns is allocated in the call, not a memoised or module-level object.",
        _CODEC_NOTE,
        "DESIGN.md section 3, C05",
    ),
    "C06": (
        "abstract interpretation with loop summarisation (custom ast interpreter)",
        "cell_to_children / cell_to_parent are interpreted on the generic valid cell for every resolution pair -1 <= a <= b <= 30 (496 pairs); the three nested loops are summarised into one family child(origin, segment, i). Decided per pair: count equals get_num_children, every child has resolution b and cell_to_parent(child, a) is exactly the parent form, the loop variables are recoverable from the decoded child (no repetition), for a >= 1 the children are consecutive level-b ids in ascending order; per resolution: parents keep face/segment, compose through every intermediate level, defaults are one level, out-of-order requests raise on every path.",
        _CODEC_NOTE + " Relies on C05 for the reading of decoded children.",
        "DESIGN.md section 3, C06",
    ),
    "C08": (
        "structural extraction + abstract interpretation of one generic scan iteration (path enumeration); shape-independent refutation: abstract interpretation of compact on small lists of symbolic cells",
        "compact's structure (sorted duplicate-free copy, pass loop, index scan) is extracted from the ast; one generic iteration of the scan body is interpreted abstractly for every resolution, with the current cell = generic child first + stride*A of a generic parent. Each path is summarised as (emitted element, index advance, flag, path condition). Decided: every path either copies the cell (+1) or emits exactly cell_to_parent(cell) and advances by the group size, and the merge path is guarded by: sibling position 0, equality of entries i+1..i+k-1 with the REAL sibling ids of the layout (from the summarised cell_to_children family), index window in range; world-cell entries are copied; the argument is never mutated. This is the local fact that makes coverage invariant for every input list, order and duplication.",
        _CODEC_NOTE + " List entries are valid cell ids. C08.7: when compact has been restructured the structural obligations are undecided; the witness search then interprets the function itself on about twenty list shapes over a symbolic family (complete / incomplete groups, duplicates, overlaps, cascades) and reports a list whose covered region changes. Scenarios that pass prove nothing.",
        "DESIGN.md section 3, C08",
    ),
    "C09": (
        "structural rules + order model decided on extracted id forms (monotone parent map, parent within children span); shape-independent refutation: abstract interpretation of compact on small lists of symbolic cells",
        "Decides the conditions that make the sorted-scan compaction canonical: working list duplicate-free and sorted (by the key function in use) before the scan; a group at the tail is merged; passes repeat until no change; the only rewriting step is exact (the C08 obligations, as premise C09.7); and the stated belief 'sort order is hierarchical order': for every level the parent map is a monotone function of the sort key (C09.4) and a parent's key lies within its children's key span (C09.5), decided on the id forms for all faces/segments/positions at once. When the order argument fails, a concrete interleaved antichain is searched on the finite face/segment grid of the extracted forms and reported as the violating input (this is how the res-0/res-1 coding defect was found before it was repaired).",
        _CODEC_NOTE + " The input is an antichain of valid ids (the property's precondition). C09.8: witness search on list shapes as for C08.7, comparing the returned set with the canonical antichain.",
        "DESIGN.md section 3, C09",
    ),
    "C10": (
        "structural extraction + inductive-invariant check by abstract interpretation of generic loop iterations; shape-independent refutation: abstract interpretation of uncompact on small lists of symbolic cells",
        "uncompact's two-pass shape is extracted; one generic iteration of each pass is interpreted for every pair (cell resolution, target) in [-1,30]^2: finer-than-target cells raise in the sizing pass on every path, before the result exists; sizing adds s(r,t); the filling pass writes exactly the block offset..offset+s-1 with the summarised cell_to_children(cell, target) family (or the cell itself), all of resolution t, and advances the offset by the same s; the allocation length is the accumulated size; both passes iterate the argument itself in order; the argument is never mutated. C10.6: neither the list cell_to_children hands over nor the result of uncompact is a shared (memoised / module-level) object.",
        _CODEC_NOTE + " List entries are valid cell ids. C10.7: witness search on list shapes (order, repeats, three resolutions interleaved, targets that must raise), compared position by position with the concatenated cell_to_children families; since round 11 also at the coarsest levels (world cell, faces, quintants) and through the function of that name DEFINED in a5/__init__.py when there is one (a wrapper that drops the world cell is reported with the input as witness).",
        "DESIGN.md section 3, C10",
    ),
    "C20": (
        "constant propagation + size summaries compared on the finite resolution lattice",
        "get_num_cells / get_num_children / cell_area are evaluated by the abstract interpreter (constant propagation) for every resolution and resolution pair and compared with the size summary of the code that enumerates cells (length of the summarised cell_to_children family), the expansion of the world cell, the product rule and strict monotonicity; cell_area's return expression is decomposed structurally (one module constant = 4*pi*R*R over get_num_cells(r)), R is compared with the WGS84 authalic radius derived in the checker, and exact representability of the counts bounds the rounding. C20.6 ('distinct' cells): per resolution pair, every listed child is a cell of the target level and no child is listed twice for one parent (the C06.1/C06.2 analysis without the cell_to_parent obligations), and a collision witness is searched for children of different parents (the child id form at two valuations with the same value); no witness proves nothing more. C20.7: the lists the counts describe (cell_to_children, get_res0_cells) are allocated in the call -- a memoised / module-level list handed out by reference has another length than the count functions say once a caller has edited it. An exported name of a5/__init__.py that is defined there instead of being imported from a5.core makes the property's obligations about the exported function undecided (rule <id>.0; same for every claimed property); the abstract interpreter follows repository-defined decorators (wrapper closures with *args / **kwargs) and with-statements over repository-defined context managers, anything else it cannot follow is undecided.",
        _CODEC_NOTE + " IEEE-754 doubles for the folded constants; WGS84 a, 1/f typed into the checker.",
        "DESIGN.md section 3, C20",
    ),
    "C19": (
        "string-shape abstract interpretation (custom ast analysis)",
        "Abstract interpretation of the two functions of a5/core/hex.py over a string-shape domain (base, case, prefix, sign, padding, minimality, emptiness). The producer is evaluated on the abstract argument 'int in [0, 2**64)', the parser on 'hexadecimal numeral, either case, leading zeros'; the required shapes are compared per return path, so the verdict covers all 2**64 values at once without enumerating any. Unmodelled constructs give UNDECIDED (exit 0), never an alarm.",
        "Trusted: CPython's documented behaviour of hex/int/format/str methods as transcribed into sa/strshape.py. Assumes the property's quantifier (int argument in [0, 2**64), str argument). C19.4 (round 11): a truncated true division of the id by an integer constant that reaches the returned text is reported with a witness id (int(n / c) != n // c) folded through the guards in front of the statement.",
        "DESIGN.md section 3, C19",
    ),
}

ALL = ["C%02d" % i for i in range(1, 21)]


def main():
    checks = []
    for pid in ALL:
        if pid not in CHECKS:
            continue
        tech, text, note, ref = CHECKS[pid]
        checks.append({
            "property_id": pid,
            "quick_cmd": f"./check {pid} --tier quick",
            "thorough_cmd": f"./check {pid} --tier thorough",
            "evidence_file": f"/verif/evidence/{pid}.json",
            "replay_cmd_template": f"./check {pid} --replay {{path}}",
            "engine": "sa",
            "level_claimed": {"category": "other", "text": text, "design_ref": ref},
            "level_note": note,
            "technique": tech,
        })
    na = []
    for pid in ALL:
        if pid in CHECKS:
            continue
        na.append({"property_id": pid, "reason": NA.get(pid, PENDING_REASON)})
    m = {
        "version": 1,
        "setup_cmd": "/venv/bin/python -B sa/cli.py C19 --tier quick >/dev/null && echo setup-ok",
        "hooks": {
            "guard": "A5_VERIF",
            "enable": "no source hooks are needed: every check parses /repo's working tree with ast and never imports it",
            "baseline_off_cmd": "cd /repo && /venv/bin/python -m pytest -q -p no:cacheprovider --timeout=900",
            "source_commits": [],
            "add_only": True,
        },
        "engines": [
            {"name": "sa", "path": "/verif/sa", "serves_properties": sorted(CHECKS),
             "kind_free_text": "repository-specific static analyser (Python ast; abstract interpretation over purpose-built domains; effect/alias summaries over the resolved call graph)"},
        ],
        "checks": checks,
        "not_applicable": na,
        "notes": "Technique family: static analysis only. ./check <id> parses /repo's current working tree on every run; exit 2 + ANALYSIS-ERROR means the checker lost its anchors (never a verdict). For every claimed property: an exported name of a5/__init__.py that is not a plain import of (or a pure delegation to) the analysed core function, and every function of the property's anchor files that carries a decorator other than the standard value-preserving ones, is reported as the UNDECIDED obligation <id>.0 (exit 0): wrappers and decorators are not analysed.",
    }
    with open(os.path.join(HERE, "MANIFEST.json"), "w") as fh:
        json.dump(m, fh, indent=1)
        fh.write("\n")


if __name__ == "__main__":
    main()
