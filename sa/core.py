"""Common infrastructure of the static checker: source loading, obligations,
known findings, evidence and replay files, exit-code protocol.

Nothing here imports or executes code of the analysed repository: files are read
as text and parsed with ``ast``.
"""
from __future__ import annotations

import ast
import hashlib
import json
import os
import sys
import time
from dataclasses import dataclass, field
from typing import Any, Dict, List, Optional, Tuple

VERIF = os.path.dirname(os.path.dirname(os.path.abspath(__file__)))


def repo_root() -> str:
    return os.environ.get("A5_REPO", "/repo")


class AnalysisError(Exception):
    """The checker no longer knows what it is looking at (vanished anchor, floor
    not met, unparsable file).  Mapped to exit code 2, never to a violation."""


# ---------------------------------------------------------------------------------
# source access
# ---------------------------------------------------------------------------------


class Sources:
    """Parsed source files of the repository's working tree."""

    def __init__(self, root: Optional[str] = None):
        self.root = root or repo_root()
        self.files: Dict[str, str] = {}       # relpath -> text
        self.trees: Dict[str, ast.Module] = {}  # relpath -> ast
        self.consulted: Dict[str, str] = {}   # relpath -> sha256 of text (files actually used)
        pkg = os.path.join(self.root, "a5")
        if not os.path.isdir(pkg):
            raise AnalysisError(f"package directory {pkg} not found")
        for dirpath, dirnames, filenames in os.walk(pkg):
            dirnames[:] = sorted(d for d in dirnames if d != "__pycache__")
            for fn in sorted(filenames):
                if fn.endswith(".py"):
                    p = os.path.join(dirpath, fn)
                    rel = os.path.relpath(p, self.root)
                    self._load(rel)
        ex = os.path.join(self.root, "examples", "wireframe", "index.py")
        if os.path.isfile(ex):
            self._load(os.path.relpath(ex, self.root))

    def _load(self, rel: str) -> None:
        p = os.path.join(self.root, rel)
        try:
            with open(p, "r", encoding="utf-8") as fh:
                text = fh.read()
            tree = ast.parse(text, filename=rel)
        except (OSError, SyntaxError, ValueError) as e:
            raise AnalysisError(f"cannot parse {rel}: {e}")
        self.files[rel] = text
        self.trees[rel] = tree

    def tree(self, rel: str) -> ast.Module:
        if rel not in self.trees:
            raise AnalysisError(f"anchor file {rel} not found in working tree")
        self.consulted[rel] = hashlib.sha256(self.files[rel].encode()).hexdigest()
        return self.trees[rel]

    def has(self, rel: str) -> bool:
        return rel in self.trees

    def func(self, rel: str, name: str, cls: Optional[str] = None) -> ast.FunctionDef:
        t = self.tree(rel)
        body = t.body
        if cls is not None:
            for n in body:
                if isinstance(n, ast.ClassDef) and n.name == cls:
                    body = n.body
                    break
            else:
                raise AnalysisError(f"anchor class {cls} not found in {rel}")
        for n in body:
            if isinstance(n, ast.FunctionDef) and n.name == name:
                return n
        if cls is None:
            # the module may only re-export the function (`from .codec import serialize`): the definition is the anchor
            where = self.locate(rel, name)
            if where is not None and where[0] != rel:
                return self.func(where[0], where[1])
        q = f"{cls}.{name}" if cls else name
        raise AnalysisError(f"anchor function {q} not found in {rel}")

    def locate(self, rel: str, name: str, depth: int = 0) -> Optional[Tuple[str, str]]:
        """(module file, function name) where the function known as `name` in module `rel` is defined, following
        `from .x import name [as alias]` re-exports inside the package; None if it is not found"""
        if rel not in self.trees or depth > 4:
            return None
        t = self.tree(rel)
        for n in t.body:
            if isinstance(n, ast.FunctionDef) and n.name == name:
                return rel, name
        for n in t.body:
            if isinstance(n, ast.ImportFrom):
                for a in n.names:
                    if (a.asname or a.name) != name:
                        continue
                    if n.level >= 1:
                        base = rel.split("/")[:-n.level]
                        parts = base + (n.module.split(".") if n.module else [])
                    elif n.module and n.module.startswith("a5"):
                        parts = n.module.split(".")
                    else:
                        continue
                    for cand in ("/".join(parts) + ".py", "/".join(parts) + "/__init__.py"):
                        got = self.locate(cand, a.name, depth + 1)
                        if got is not None:
                            return got
        return None

    def digest(self) -> str:
        h = hashlib.sha256()
        for rel in sorted(self.consulted):
            h.update(rel.encode())
            h.update(self.consulted[rel].encode())
        return h.hexdigest()


def loc(rel: str, node: Optional[ast.AST]) -> str:
    if node is None or not hasattr(node, "lineno"):
        return rel
    return f"{rel}:{node.lineno}"


def src(node: ast.AST) -> str:
    """Normalised source text of a node (used in finding keys: no line numbers)."""
    try:
        return ast.unparse(node)
    except Exception:  # pragma: no cover
        return ast.dump(node)


# ---------------------------------------------------------------------------------
# obligations
# ---------------------------------------------------------------------------------

DISCHARGED = "discharged"
VIOLATED = "violated"
UNDECIDED = "undecided"


@dataclass
class Obligation:
    rule: str               # e.g. "C05.3"
    construct: str          # qualified construct + normalised detail; part of the finding key
    state: str
    where: str              # file:line
    detail: str             # human readable: what was compared, with which result
    extra: Dict[str, Any] = field(default_factory=dict)

    @property
    def key(self) -> str:
        return f"{self.rule} :: {self.construct}"

    def to_json(self) -> Dict[str, Any]:
        d = {"rule": self.rule, "construct": self.construct, "state": self.state,
             "where": self.where, "detail": self.detail}
        if self.extra:
            d["extra"] = self.extra
        return d


class Context:
    """Per-run state of one property check."""

    def __init__(self, prop: str, tier: str, seed: int, sources: Sources):
        self.prop = prop
        self.tier = tier
        self.seed = seed
        self.sources = sources
        self.obligations: List[Obligation] = []
        self.analysed: Dict[str, Any] = {}      # what was analysed (counts, names)
        self.floors: List[Tuple[str, int, int]] = []  # (name, found, floor)
        self.notes: List[str] = []
        self.assumptions: List[str] = []
        self.trusted_base: List[str] = []
        self.explanation: str = ""
        self.extra_coverage: Dict[str, Any] = {}
        self.t0 = time.time()

    # -- recording ---------------------------------------------------------------
    def ob(self, rule: str, construct: str, state: str, where: str, detail: str, **extra) -> Obligation:
        o = Obligation(rule, construct, state, where, detail, dict(extra))
        self.obligations.append(o)
        return o

    def ok(self, rule, construct, where, detail, **extra):
        return self.ob(rule, construct, DISCHARGED, where, detail, **extra)

    def bad(self, rule, construct, where, detail, **extra):
        return self.ob(rule, construct, VIOLATED, where, detail, **extra)

    def unk(self, rule, construct, where, detail, **extra):
        return self.ob(rule, construct, UNDECIDED, where, detail, **extra)

    def floor(self, name: str, found: int, floor: int, soft: bool = False) -> None:
        """Instance floor: a rule that matches fewer constructs than were confirmed by hand must not pass vacuously.
        A hard floor (anchors of the analysis: modules, API roots) fails the run (exit 2).  A soft floor counts things the
        interpreter managed to model; when the code has been rewritten with constructs it does not follow, falling below it is
        reported as an UNDECIDED obligation: nothing was shown, and that is said, but it is neither a violation nor a broken run."""
        self.floors.append((name, found, floor))
        if found < floor:
            if soft:
                self.unk(f"{self.prop}.floor", f"analysis coverage: {name}", "", f"only {found} (expected at least {floor}): "
                         f"the code uses constructs the analysis does not follow; the obligations that depend on them are not decided")
                return
            raise AnalysisError(f"instance floor not met: {name}: found {found} < {floor}")

    def require(self, cond: bool, what: str) -> None:
        if not cond:
            raise AnalysisError(what)


BENIGN_DECORATORS = {"property", "staticmethod", "classmethod", "dataclass", "dataclasses.dataclass", "wraps", "functools.wraps",
                     "lru_cache", "functools.lru_cache", "cache", "functools.cache", "overload", "typing.overload", "final", "typing.final",
                     "no_type_check", "typing.no_type_check", "abstractmethod", "abc.abstractmethod"}


def opaque_decorators(fn) -> list:
    """decorators of a function definition that can change what a call does with its arguments or result (everything except the
    standard ones that keep both: property / staticmethod / classmethod, functools.wraps, lru_cache / cache -- whose effect on
    shared state is the business of C16 / C17 --, typing markers).  An evaluator that meets one does not follow the function."""
    out = []
    for d in getattr(fn, "decorator_list", None) or []:
        e = d.func if isinstance(d, ast.Call) else d
        text = src(e)
        if text.split(".")[-1] == "contextmanager" and any(isinstance(n, (ast.Yield, ast.YieldFrom)) for n in ast.walk(fn)):
            continue      # a generator context manager: only usable in a with-statement, which the interpreter follows or gives up on
        if text not in BENIGN_DECORATORS and text.split(".")[-1] not in ("setter", "getter", "deleter"):
            out.append("@" + src(d))
    return out


class Recorder:
    """Obligation sink with the Context API, used inside worker processes."""

    def __init__(self, ctx: "Context"):
        self.prop, self.tier, self.seed, self.sources = ctx.prop, ctx.tier, ctx.seed, ctx.sources
        self.obligations: List[Obligation] = []

    ob = Context.ob
    ok = Context.ok
    bad = Context.bad
    unk = Context.unk

    def floor(self, name: str, found: int, floor: int, soft: bool = False) -> None:     # floors belong to the check that owns the rule
        pass


_PAR_FN = None


def _par_call(arg):
    return _PAR_FN(arg)


def parallel_map(fn, items, jobs: Optional[int] = None):
    """Maps fn over items in forked worker processes (the analysis is CPU-bound pure Python).
    fn must be a picklable-result function of one item; state is inherited through fork."""
    import multiprocessing as mp
    global _PAR_FN
    items = list(items)
    jobs = jobs or int(os.environ.get("A5_JOBS", "0")) or min(16, os.cpu_count() or 1)
    if jobs <= 1 or len(items) <= 1:
        return [fn(x) for x in items]
    _PAR_FN = fn
    try:
        ctx = mp.get_context("fork")
        with ctx.Pool(min(jobs, len(items))) as pool:
            return pool.map(_par_call, items, chunksize=1)
    finally:
        _PAR_FN = None


# ---------------------------------------------------------------------------------
# known findings
# ---------------------------------------------------------------------------------


def load_known_findings() -> Dict[str, Any]:
    p = os.path.join(VERIF, "known_findings.json")
    if not os.path.isfile(p):
        return {"findings": [], "fixed": []}
    with open(p) as fh:
        return json.load(fh)


# ---------------------------------------------------------------------------------
# finishing a run: evidence, replay files, exit code
# ---------------------------------------------------------------------------------


def _replay_name(prop: str, key: str) -> str:
    h = hashlib.sha256(key.encode()).hexdigest()[:12]
    return f"{prop}-{h}.json"


def finish(ctx: Context, out=sys.stdout) -> int:
    known = load_known_findings()
    known_keys = {f["key"]: f for f in known.get("findings", []) if f.get("property") == ctx.prop}

    violated = [o for o in ctx.obligations if o.state == VIOLATED]
    undecided = [o for o in ctx.obligations if o.state == UNDECIDED]
    discharged = [o for o in ctx.obligations if o.state == DISCHARGED]

    new_violations: List[Obligation] = []
    known_hit: List[Obligation] = []
    for o in violated:
        if o.key in known_keys:
            known_hit.append(o)
        else:
            new_violations.append(o)

    for o in undecided:
        print(f"UNDECIDED rule={o.rule} at {o.where}: {o.construct}: {o.detail}", file=out)
    seen_known = set()
    for o in known_hit:
        if o.key in seen_known:
            continue
        seen_known.add(o.key)
        print(f"KNOWN-FINDING: property={ctx.prop} {o.key} -- {o.detail} ({o.where})", file=out)

    replay_dir = os.path.join(VERIF, "replay")
    os.makedirs(replay_dir, exist_ok=True)
    replay_paths = []
    seen_new = set()
    for o in new_violations:
        if o.key in seen_new:
            continue
        seen_new.add(o.key)
        path = os.path.join(replay_dir, _replay_name(ctx.prop, o.key))
        with open(path, "w") as fh:
            json.dump({"property": ctx.prop, "key": o.key, "obligation": o.to_json(),
                       "repo": ctx.sources.root,
                       "how_to_replay": f"./check {ctx.prop} --replay {path}"}, fh, indent=1)
        replay_paths.append(path)
        print(f"VIOLATION property={ctx.prop} replay={path}", file=out)
        print(f"  rule={o.rule} at {o.where}: {o.construct}", file=out)
        print(f"  {o.detail}", file=out)

    wall = time.time() - ctx.t0
    n = len(ctx.obligations)
    samples = [o.to_json() for o in (violated + undecided + discharged)[:10]]
    rules = sorted({o.rule for o in ctx.obligations})
    coverage: Dict[str, Any] = {
        "explanation": ctx.explanation or "static analysis of the working tree; see obligations",
        "obligations": n,
        "discharged": len(discharged),
        "undecided": len(undecided),
        "violated_known": len(known_hit),
        "violated_new": len(new_violations),
        "known_findings": sorted(seen_known),
        "evaluations": n,
        "distinct_nontrivial": len({o.key for o in ctx.obligations}),
        "rule": "one evaluation = one obligation (rule instance at a named construct of the working tree) "
                "decided by the analysis; distinct = distinct (rule, construct) keys",
        "samples": samples,
        "rules_applied": rules,
        "per_rule": {r: {s: sum(1 for o in ctx.obligations if o.rule == r and o.state == s)
                         for s in (DISCHARGED, VIOLATED, UNDECIDED)} for r in rules},
        "analysed": ctx.analysed,
        "instance_floors": [{"name": a, "found": b, "floor": c} for a, b, c in ctx.floors],
        "source_digest": ctx.sources.digest(),
        "consulted_files": sorted(ctx.sources.consulted),
        "checker_cmd": f"./check {ctx.prop} --tier {ctx.tier}",
        "trusted_base": ctx.trusted_base,
        "notes": ctx.notes,
        "exhaustive": False,
    }
    coverage.update(ctx.extra_coverage)
    evidence = {
        "property_id": ctx.prop,
        "tier": ctx.tier,
        "seed": ctx.seed,
        "level": "other",
        "coverage": coverage,
        "assumptions": ctx.assumptions,
        "wall_s": round(wall, 3),
        "violations": len(seen_new),
    }
    ev_dir = os.path.join(VERIF, "evidence")
    os.makedirs(ev_dir, exist_ok=True)
    ev_path = os.environ.get("A5_EVIDENCE_OUT") or os.path.join(ev_dir, f"{ctx.prop}.json")
    if ev_path != os.devnull:
        tmp = ev_path + ".tmp"
        with open(tmp, "w") as fh:
            json.dump(evidence, fh, indent=1, default=str)
        os.replace(tmp, ev_path)

    print(f"{ctx.prop} [{ctx.tier}] obligations={n} discharged={len(discharged)} "
          f"undecided={len(undecided)} known-findings={len(seen_known)} "
          f"violations={len(seen_new)} wall={wall:.2f}s", file=out)
    return 1 if new_violations else 0
