"""CLI of the static checker:  ./check <property> [--tier quick|thorough] [--replay path]

exit 0  property held on everything analysed (known findings are printed, not alarms)
exit 1  a violation not listed in known_findings.json ("VIOLATION property=.. replay=..")
exit 2  ANALYSIS-ERROR: the checker lost its anchors or crashed -- never a verdict
"""
from __future__ import annotations

import argparse
import importlib
import json
import os
import sys
import traceback

HERE = os.path.dirname(os.path.abspath(__file__))
sys.path.insert(0, os.path.dirname(HERE))
sys.dont_write_bytecode = True

from sa import core  # noqa: E402

CLAIMED = ["C02", "C05", "C06", "C08", "C09", "C10", "C12", "C15", "C16", "C17", "C19", "C20"]


EXPORTED = {          # the public names through which each property is observed (a5/__init__.py)
    "C02": ["cell_to_lonlat", "lonlat_to_cell"], "C05": ["get_resolution", "cell_to_children", "cell_to_parent", "get_res0_cells"],
    "C06": ["cell_to_children", "cell_to_parent", "get_res0_cells"], "C08": ["compact"], "C09": ["compact"], "C10": ["uncompact"],
    "C12": ["cell_to_boundary"], "C15": [], "C19": ["hex_to_u64", "u64_to_hex"], "C20": ["get_num_cells", "cell_area", "cell_to_children", "uncompact", "get_res0_cells"],
    "C16": ["cell_to_boundary", "cell_to_lonlat", "lonlat_to_cell", "hex_to_u64", "u64_to_hex", "cell_to_parent", "cell_to_children",
            "get_resolution", "get_res0_cells", "get_num_cells", "cell_area", "compact", "uncompact"],
}
EXPORTED["C17"] = EXPORTED["C16"]


def _exported_as_analysed(ctx, prop: str) -> None:
    """The rules analyse the functions of a5.core.*; users call what a5/__init__.py exports.  If an exported name is no longer a
    plain import of the core function (a wrapper or another object defined in a5/__init__.py), what the rules decided says
    nothing about the exported function: an undecided obligation, never a silent pass."""
    import ast as _ast
    from sa import core as _core
    try:
        tree = ctx.sources.tree("a5/__init__.py")
    except _core.AnalysisError:
        return
    imported, defined = set(), {}
    for n in tree.body:
        if isinstance(n, _ast.ImportFrom):
            for a in n.names:
                imported.add(a.asname or a.name)
        elif isinstance(n, (_ast.FunctionDef, _ast.ClassDef)):
            defined[n.name] = n
        elif isinstance(n, (_ast.Assign, _ast.AnnAssign)):
            for t in (n.targets if isinstance(n, _ast.Assign) else [n.target]):
                if isinstance(t, _ast.Name):
                    defined[t.id] = n
    for name in EXPORTED.get(prop, []):
        if name in defined:
            n = defined[name]
            ctx.unk(f"{prop}.0", f"a5.{name} is defined in a5/__init__.py, not imported from a5.core", f"a5/__init__.py:{n.lineno}",
                    "the obligations above are about the core function; what the exported wrapper does with arguments and results is not analysed")
        elif name not in imported:
            ctx.unk(f"{prop}.0", f"a5.{name} is not exported by a5/__init__.py as an import", "a5/__init__.py", "the public name the property is observed through was not found")


def main(argv=None) -> int:
    ap = argparse.ArgumentParser(prog="check")
    ap.add_argument("prop")
    ap.add_argument("--tier", default=os.environ.get("VERIF_TIER", "quick"), choices=["quick", "thorough"])
    ap.add_argument("--replay", default=None)
    ap.add_argument("--no-selftest", action="store_true", help="thorough tier without the mutant battery")
    args = ap.parse_args(argv)
    prop = args.prop.upper()
    try:
        seed = int(os.environ.get("VERIF_SEED", "0"))
    except ValueError:
        seed = 0
    try:
        if prop not in CLAIMED:
            raise core.AnalysisError(f"property {prop} is not claimed by this checker")
        try:
            mod = importlib.import_module(f"sa.rules_{prop}")
        except ModuleNotFoundError as e:
            raise core.AnalysisError(f"no rules module for {prop}: {e}")
        sources = core.Sources()
        ctx = core.Context(prop, args.tier, seed, sources)
        ctx.no_selftest = args.no_selftest
        try:
            mod.run(ctx)
        except Exception as e_:
            # the abstract interpreter gave up on a construct it does not follow: nothing further is decided, and that is what is
            # reported (a vanished anchor or a crash of the checker itself is an AnalysisError / traceback -> exit 2)
            from sa.absint import Budget as _Budget, _Unmodelled as _Unm
            if not isinstance(e_, (_Budget, _Unm, RecursionError)):
                raise
            ctx.unk(f"{prop}.0", f"analysis stopped: {type(e_).__name__}", "", f"{e_}: the obligations not listed above are not decided")
        _exported_as_analysed(ctx, prop)
        if args.tier == "thorough" and not args.no_selftest and not os.environ.get("A5_NO_SELFTEST") and not args.replay:
            # self-validation battery on scratch copies of the current tree; never changes the exit code
            try:
                from sa import selftest
                b = selftest.battery(prop, jobs=12, scope="thorough")
                ctx.extra_coverage["selftest"] = b
                print(f"selftest {prop}: breaking variants reported {b['breaking_reported']}/{b['breaking_variants']} "
                      f"(undecided {b['breaking_undecided']}, missed {b['breaking_missed']}), behaviour-preserving variants silent "
                      f"{b['preserving_silent']}/{b['preserving_variants']} (false alarms {b['false_alarms']}), skipped {b['skipped']}", file=sys.stderr)
            except Exception as e:   # the battery must never turn a verdict into a crash
                ctx.extra_coverage["selftest"] = {"error": repr(e)}
        if args.replay:
            with open(args.replay) as fh:
                want = json.load(fh)["key"]
            hit = [o for o in ctx.obligations if o.key == want and o.state == core.VIOLATED]
            if hit:
                print(f"VIOLATION property={prop} replay={args.replay}")
                print(f"  still present: {hit[0].key} at {hit[0].where}: {hit[0].detail}")
                return 1
            print(f"replay: {want} is no longer violated on this tree")
            return 0
        return core.finish(ctx)
    except core.AnalysisError as e:
        print(f"ANALYSIS-ERROR property={prop}: {e}")
        return 2
    except Exception:
        print(f"ANALYSIS-ERROR property={prop}: checker crashed")
        traceback.print_exc(file=sys.stdout)
        return 2


if __name__ == "__main__":
    sys.exit(main())
