"""CLI of the static checker:  ./check <property> [--tier quick|thorough] [--replay path]

exit 0  property held on everything analysed (known findings are printed, not alarms)
exit 1  a violation not listed in known_findings.json ("VIOLATION property=.. replay=..")
exit 2  ANALYSIS-ERROR: the checker lost its anchors or crashed -- never a verdict
"""
from __future__ import annotations

import argparse
import importlib
import json
import os
import sys
import traceback

HERE = os.path.dirname(os.path.abspath(__file__))
sys.path.insert(0, os.path.dirname(HERE))
sys.dont_write_bytecode = True

from sa import core  # noqa: E402

CLAIMED = ["C02", "C05", "C06", "C08", "C09", "C10", "C12", "C15", "C16", "C17", "C19", "C20"]


EXPORTED = {          # the public names through which each property is observed (a5/__init__.py)
    "C02": ["cell_to_lonlat", "lonlat_to_cell"], "C05": ["get_resolution", "cell_to_children", "cell_to_parent", "get_res0_cells"],
    "C06": ["cell_to_children", "cell_to_parent", "get_res0_cells"], "C08": ["compact"], "C09": ["compact"], "C10": ["uncompact"],
    "C12": ["cell_to_boundary"], "C15": [], "C19": ["hex_to_u64", "u64_to_hex"], "C20": ["get_num_cells", "cell_area", "cell_to_children", "uncompact", "get_res0_cells"],
    "C16": ["cell_to_boundary", "cell_to_lonlat", "lonlat_to_cell", "hex_to_u64", "u64_to_hex", "cell_to_parent", "cell_to_children",
            "get_resolution", "get_res0_cells", "get_num_cells", "cell_area", "compact", "uncompact"],
}
EXPORTED["C17"] = EXPORTED["C16"]


ANCHOR_FILES = {      # where the functions a property's rules take apart live (C16 / C17 judge decorators through the call graph)
    "C02": ["a5/core/cell.py", "a5/core/coordinate_transforms.py", "a5/projections/dodecahedron.py"],
    "C05": ["a5/core/serialization.py"], "C06": ["a5/core/serialization.py"],
    "C08": ["a5/core/compact.py", "a5/core/serialization.py"], "C09": ["a5/core/compact.py", "a5/core/serialization.py"],
    "C10": ["a5/core/compact.py", "a5/core/serialization.py"],
    "C12": ["a5/core/cell.py", "a5/core/tiling.py", "a5/geometry/pentagon.py"],
    "C15": ["a5/projections/authalic.py", "a5/core/coordinate_transforms.py"],
    "C19": ["a5/core/hex.py"], "C20": ["a5/core/cell_info.py", "a5/core/serialization.py", "a5/core/compact.py"],
}


def _decorated_anchors(ctx, prop: str) -> None:
    """The structural rules read the body of a function.  A decorator that is not one of the standard value-preserving ones
    (sa/core.py BENIGN_DECORATORS) can do anything to arguments and result before and after that body: every function of the
    property's anchor files that carries one is reported as an undecided obligation, whatever the rules concluded from the body."""
    import ast as _ast
    from sa import core as _core
    for rel in ANCHOR_FILES.get(prop, []):
        try:
            tree = ctx.sources.tree(rel)
        except _core.AnalysisError:
            continue
        for n in _ast.walk(tree):
            if isinstance(n, _ast.FunctionDef):
                op = _core.opaque_decorators(n)
                if op:
                    ctx.unk(f"{prop}.0", f"{rel.replace('/', '.')[:-3]}.{n.name} is wrapped by {', '.join(op)}", f"{rel}:{n.lineno}",
                            "the rules read the function body; what the decorator does with arguments and result before and after it is not analysed")


def _exported_as_analysed(ctx, prop: str) -> None:
    """The rules analyse the functions of a5.core.*; users call what a5/__init__.py exports.  If an exported name is no longer a
    plain import of the core function (a wrapper or another object defined in a5/__init__.py), what the rules decided says
    nothing about the exported function: an undecided obligation, never a silent pass."""
    import ast as _ast
    from sa import core as _core
    try:
        tree = ctx.sources.tree("a5/__init__.py")
    except _core.AnalysisError:
        return
    imported, defined = set(), {}
    for n in tree.body:
        if isinstance(n, _ast.ImportFrom):
            for a in n.names:
                imported.add(a.asname or a.name)
        elif isinstance(n, (_ast.FunctionDef, _ast.ClassDef)):
            defined[n.name] = n
        elif isinstance(n, (_ast.Assign, _ast.AnnAssign)):
            for t in (n.targets if isinstance(n, _ast.Assign) else [n.target]):
                if isinstance(t, _ast.Name):
                    defined[t.id] = n
    # names imported into a5/__init__.py (possibly under an alias): alias -> (module, original name)
    origin = {}
    for n in tree.body:
        if isinstance(n, _ast.ImportFrom) and n.module:
            for a in n.names:
                origin[a.asname or a.name] = (("a5." + n.module) if n.level == 1 else n.module, a.name)

    def pure_delegation(fn, name) -> bool:
        """def name(a, b=..): [docstring] return core_fn(a, b)  -- same parameters, same order, nothing else; the callee is the
        core function of the same name, and the defaults are the callee's own (checked textually against the core signature)"""
        if not isinstance(fn, _ast.FunctionDef) or fn.decorator_list or fn.args.vararg or fn.args.kwarg or fn.args.kwonlyargs or fn.args.posonlyargs:
            return False
        body = [st for st in fn.body if not (isinstance(st, _ast.Expr) and isinstance(st.value, _ast.Constant) and isinstance(st.value.value, str))]
        if len(body) != 1 or not isinstance(body[0], _ast.Return) or not isinstance(body[0].value, _ast.Call):
            return False
        call = body[0].value
        if not isinstance(call.func, _ast.Name) or call.func.id not in origin or origin[call.func.id][1] != name or call.keywords:
            return False
        params = [a.arg for a in fn.args.args]
        if [a.id if isinstance(a, _ast.Name) else None for a in call.args] != params:
            return False
        mod = origin[call.func.id][0]
        try:
            rel = mod.replace(".", "/") + ".py"
            target = ctx.sources.func(rel, name)
        except _core.AnalysisError:
            return False
        t_params = [a.arg for a in target.args.args]
        if t_params[:len(params)] != params or len(t_params) != len(params) or target.args.kwonlyargs or target.args.vararg or target.args.kwarg:
            return False
        return [_ast.dump(d) for d in fn.args.defaults] == [_ast.dump(d) for d in target.args.defaults]

    for name in EXPORTED.get(prop, []):
        if name in defined and pure_delegation(defined[name], name):
            continue
        if name in defined:
            n = defined[name]
            ctx.unk(f"{prop}.0", f"a5.{name} is defined in a5/__init__.py, not imported from a5.core", f"a5/__init__.py:{n.lineno}",
                    "the obligations above are about the core function; what the exported wrapper does with arguments and results is not analysed")
        elif name not in imported:
            ctx.unk(f"{prop}.0", f"a5.{name} is not exported by a5/__init__.py as an import", "a5/__init__.py", "the public name the property is observed through was not found")


def main(argv=None) -> int:
    ap = argparse.ArgumentParser(prog="check")
    ap.add_argument("prop")
    ap.add_argument("--tier", default=os.environ.get("VERIF_TIER", "quick"), choices=["quick", "thorough"])
    ap.add_argument("--replay", default=None)
    ap.add_argument("--no-selftest", action="store_true", help="thorough tier without the mutant battery")
    args = ap.parse_args(argv)
    prop = args.prop.upper()
    try:
        seed = int(os.environ.get("VERIF_SEED", "0"))
    except ValueError:
        seed = 0
    try:
        if prop not in CLAIMED:
            raise core.AnalysisError(f"property {prop} is not claimed by this checker")
        try:
            mod = importlib.import_module(f"sa.rules_{prop}")
        except ModuleNotFoundError as e:
            raise core.AnalysisError(f"no rules module for {prop}: {e}")
        sources = core.Sources()
        ctx = core.Context(prop, args.tier, seed, sources)
        ctx.no_selftest = args.no_selftest
        try:
            mod.run(ctx)
        except Exception as e_:
            # the abstract interpreter gave up on a construct it does not follow: nothing further is decided, and that is what is
            # reported (a vanished anchor or a crash of the checker itself is an AnalysisError / traceback -> exit 2)
            from sa.absint import Budget as _Budget, _Unmodelled as _Unm
            if not isinstance(e_, (_Budget, _Unm, RecursionError)):
                raise
            ctx.unk(f"{prop}.0", f"analysis stopped: {type(e_).__name__}", "", f"{e_}: the obligations not listed above are not decided")
        _exported_as_analysed(ctx, prop)
        _decorated_anchors(ctx, prop)
        if args.tier == "thorough" and not args.no_selftest and not os.environ.get("A5_NO_SELFTEST") and not args.replay:
            # self-validation battery on scratch copies of the current tree; never changes the exit code
            try:
                from sa import selftest
                b = selftest.battery(prop, jobs=12, scope="thorough")
                ctx.extra_coverage["selftest"] = b
                print(f"selftest {prop}: breaking variants reported {b['breaking_reported']}/{b['breaking_variants']} "
                      f"(undecided {b['breaking_undecided']}, missed {b['breaking_missed']}), behaviour-preserving variants silent "
                      f"{b['preserving_silent']}/{b['preserving_variants']} (false alarms {b['false_alarms']}), skipped {b['skipped']}", file=sys.stderr)
            except Exception as e:   # the battery must never turn a verdict into a crash
                ctx.extra_coverage["selftest"] = {"error": repr(e)}
        if args.replay:
            with open(args.replay) as fh:
                want = json.load(fh)["key"]
            hit = [o for o in ctx.obligations if o.key == want and o.state == core.VIOLATED]
            if hit:
                print(f"VIOLATION property={prop} replay={args.replay}")
                print(f"  still present: {hit[0].key} at {hit[0].where}: {hit[0].detail}")
                return 1
            print(f"replay: {want} is no longer violated on this tree")
            return 0
        return core.finish(ctx)
    except core.AnalysisError as e:
        print(f"ANALYSIS-ERROR property={prop}: {e}")
        return 2
    except Exception:
        print(f"ANALYSIS-ERROR property={prop}: checker crashed")
        traceback.print_exc(file=sys.stdout)
        return 2


if __name__ == "__main__":
    sys.exit(main())
