"""C12 -- only the counting / closure / defaults clause of "boundary rings are well-formed":

    cell_to_boundary returns exactly (3 at resolution 1, else 5) * segments vertices, plus the repeated first vertex
    iff closed_ring; defaults closed_ring=True, segments='auto' (None meaning auto, auto = max(1, 2**(6 - res)));
    the cell's corner points are kept, first in their edge group, whatever `segments` is.

Not decided here (numeric): simplicity, orientation, latitude range, longitude jumps / span."""
from __future__ import annotations

import ast
from typing import Any, Dict, List, Optional

from . import core
from .model import Model
from .sizes import Box, ConstV, DictV, IntV, Poly, RaisesV, SeqV, ShapeV, SizeEval, TupleV, Unknown

CELL = "a5.core.cell.cell_to_boundary"
RESOLUTIONS = [0, 1, 2, 3, 5, 6, 7, 12, 29]
CONCRETE_SEGMENT_RESOLUTIONS = [1, 7]     # the extra concrete segment counts are evaluated at one triangle and one pentagon level


def hooks_for(r: int) -> Dict[str, Any]:
    def deser(ev, args, kwargs):
        return DictV({"resolution": IntV(Poly.const(r)), "origin": Unknown("origin"), "segment": Unknown("segment"), "S": Unknown("S")})

    def unknown(ev, args, kwargs):
        return Unknown("geometry")

    def pair(ev, args, kwargs):
        return TupleV([Unknown("quintant"), Unknown("orientation")])
    return {
        "a5.core.serialization.deserialize": deser,
        "a5.core.origin.segment_to_quintant": pair,
        "a5.core.hilbert.s_to_anchor": unknown,
        "a5.projections.dodecahedron.DodecahedronProjection.inverse": unknown,
        "a5.core.coordinate_transforms.to_lonlat": unknown,
        "a5.core.coordinate_transforms.from_lonlat": unknown,
        "a5.core.coordinate_transforms.to_cartesian": unknown,
        "a5.core.coordinate_transforms.to_spherical": unknown,
    }


def expected(r: int, seg: Any, closed: bool) -> Poly:
    base = 3 if r == 1 else 5
    if seg == "auto":
        s = Poly.const(max(1, 2 ** (6 - r)) if r <= 6 else 1)
    elif isinstance(seg, int):
        s = Poly.const(seg)
    else:
        s = Poly.sym("s")
    return s * base + (1 if closed else 0)


def configs():
    out = []
    for seg_name, seg_val, seg_key in (
            ("segments absent", None, "auto"), ("segments='auto'", ConstV("auto"), "auto"), ("segments=None", ConstV(None), "auto"),
            ("segments=1", IntV(Poly.const(1)), 1), ("segments=3", IntV(Poly.const(3)), 3), ("segments=s (any int >= 2)", IntV(Poly.sym("s"), 2), "s")) + \
            tuple((f"segments={k}", IntV(Poly.const(k)), k) for k in (2, 4, 5, 6, 7, 10, 13)):
        for cr_name, cr_val, closed in (("closed_ring absent", None, True), ("closed_ring=True", ConstV(True), True), ("closed_ring=False", ConstV(False), False)):
            d = {}
            if seg_val is not None:
                d["segments"] = seg_val
            if cr_val is not None:
                d["closed_ring"] = cr_val
            out.append((f"{seg_name}, {cr_name}", DictV(d), seg_key, closed))
    out.append(("options=None", ConstV(None), "auto", True))
    return out


def run(ctx):
    ctx.explanation = (
        "Size-summary evaluation (sa/sizes.py: sequence lengths as polynomials in the symbolic `segments`) of cell_to_boundary and "
        "everything it calls to build the ring (_get_pentagon, tiling.get_*_vertices, PentagonShape.{__init__, clone, split_edges, "
        "get_vertices, transformers}, normalize_longitudes), for a partition of resolutions and every combination of the two options "
        "(absent / default / explicit; segments 'auto', None, 1, 3, symbolic s >= 2). The length of the returned list is compared with "
        "(3 if res == 1 else 5) * segments + [closed_ring]; the closing element must be ring[0] appended exactly once; split_edges must "
        "keep every original vertex first in its edge group. Only this clause of the property is decided.")
    ctx.trusted_base = ["Python list semantics (append adds one element, reverse/sort/comprehension without filter preserve length)"]
    model = Model(ctx.sources)
    if CELL not in model.funcs:
        raise core.AnalysisError("anchor a5.core.cell.cell_to_boundary not found")
    fi = model.funcs[CELL]
    where = f"{fi.rel}:{fi.node.lineno}"
    n_cfg = 0
    for r in RESOLUTIONS:
        for name, opts, seg_key, closed in configs():
            if isinstance(seg_key, int) and seg_key not in (1, 3) and r not in CONCRETE_SEGMENT_RESOLUTIONS:
                continue
            ev = SizeEval(model, hooks_for(r))
            try:
                # the id of a cell that is not the world cell (the statement is about cells with a boundary): a positive integer
                res = ev.run(fi, [IntV(Poly.sym("cell_id"), 1), opts], {})
            except RecursionError:
                res = Unknown("recursion")
            n_cfg += 1
            tag = f"{CELL}(resolution {r}; {name})"
            want = expected(r, seg_key, closed)
            if isinstance(res, RaisesV):
                ctx.bad("C12.5", f"{tag}: raises", where, f"{res.text}; every documented option combination must return a ring")
                continue
            if not isinstance(res, SeqV) or not isinstance(res.box.n, Poly):
                why = res.box.n.why if isinstance(res, SeqV) else repr(res)
                ctx.unk("C12.1", f"{tag}: ring length", where, f"not determined: {why}")
                continue
            got = res.box.n
            if got == want:
                ctx.ok("C12.1", f"{tag}: ring has {want} vertices", where, f"events on the ring: {res.box.events}")
            else:
                ctx.bad("C12.1", f"{tag}: ring has {got} vertices, expected {want}", where,
                        f"(3 at resolution 1, else 5) * segments + [closed_ring]; events on the ring: {res.box.events}")
            # closure: exactly one append of ring[0] iff closed
            apps = [e for e in res.box.events if e.startswith("cell_to_boundary: append(")]
            if closed:
                good = len(apps) == 1 and apps[0].replace(" ", "").endswith("[0])") and "[in loop]" not in apps[0]
                if got == want:
                    # an append of something other than element 0 is a definite defect; a ring of the right length that is closed by
                    # another construct (slices, concatenation, a deque) is outside the idiom this rule reads: undecided
                    st_ = core.DISCHARGED if good else (core.VIOLATED if apps else core.UNDECIDED)
                    ctx.ob("C12.4", f"{tag}: ring closed by repeating its first vertex", st_, where,
                           f"closing statements: {apps}" if apps else "no `append(ring[0])`: the closing vertex comes from a construct this rule does not read")
            else:
                if apps:
                    ctx.bad("C12.4", f"{tag}: open ring gets a closing vertex", where, f"{apps}")
    ctx.floor("(resolution, options) configurations evaluated", n_cfg, 100, soft=True)

    # ---- C12.2: split_edges keeps every original vertex, first in its group ------------------------------------------
    se = model.funcs.get("a5.geometry.pentagon.PentagonShape.split_edges")
    if se is None:
        raise core.AnalysisError("anchor PentagonShape.split_edges not found")
    w2 = f"{se.rel}:{se.node.lineno}"
    outer = [s for s in se.node.body if isinstance(s, ast.For)]
    ok = False
    wrong_corner = False
    detail = "outer loop over the vertices not found"
    if len(outer) == 1 and isinstance(outer[0].target, ast.Name):
        iv = outer[0].target.id
        first_append = None
        defs: Dict[str, ast.expr] = {}
        for s in outer[0].body:
            if isinstance(s, ast.Assign) and isinstance(s.targets[0], ast.Name):
                defs[s.targets[0].id] = s.value
            if isinstance(s, ast.Expr) and isinstance(s.value, ast.Call) and isinstance(s.value.func, ast.Attribute) and s.value.func.attr == "append":
                first_append = s.value
                break
            if isinstance(s, ast.For):
                break
        if first_append is not None and first_append.args:
            a = first_append.args[0]
            src_expr = defs.get(a.id) if isinstance(a, ast.Name) else a
            txt = core.src(src_expr).replace(" ", "") if src_expr is not None else ""
            ok = txt == f"self.vertices[{iv}]"
            detail = f"first append of each edge group is `{core.src(a)}` = `{txt}`"
            if not ok and txt.startswith("self.vertices["):
                wrong_corner = True
        inner = [s for s in outer[0].body if isinstance(s, ast.For)]
        if ok and len(inner) == 1:
            it = core.src(inner[0].iter).replace(" ", "")
            params = se.params
            segname = params[1] if len(params) > 1 else "segments"
            if it != f"range(1,{segname})":
                ok = False
                detail = f"interpolation loop is `{core.src(inner[0].iter)}`: end points are not excluded exactly"
    ctx.ob("C12.2", "a5.geometry.pentagon.PentagonShape.split_edges keeps each corner, first in its edge group", core.DISCHARGED if ok else (core.VIOLATED if wrong_corner else core.UNDECIDED), w2,
           detail + ("; edge group i must start with corner i, the interpolated points that follow run from corner i to corner i+1" if wrong_corner else ""))

    # ---- C12.5: keys read from the options ------------------------------------------------------------------------------
    read_keys = set()
    defaults: Dict[str, str] = {}

    def keys_read(fn_info, pname):
        for n in ast.walk(fn_info.node):
            if isinstance(n, ast.Call) and isinstance(n.func, ast.Attribute) and n.func.attr in ("get", "setdefault", "pop") and isinstance(n.func.value, ast.Name) \
                    and n.func.value.id == pname and n.args and isinstance(n.args[0], ast.Constant):
                read_keys.add(n.args[0].value)
                if n.func.attr == "get":
                    defaults[n.args[0].value] = core.src(n.args[1]) if len(n.args) > 1 else "None"
            if isinstance(n, ast.Subscript) and isinstance(n.value, ast.Name) and n.value.id == pname and isinstance(n.slice, ast.Constant):
                read_keys.add(n.slice.value)
            if isinstance(n, ast.Compare) and isinstance(n.left, ast.Constant) and any(isinstance(c, ast.Name) and c.id == pname for c in n.comparators):
                read_keys.add(n.left.value)
            # the options object handed on to a helper
            if isinstance(n, ast.Call):
                for cs in model.calls.get(fn_info.qual, []):
                    if cs.node is n and cs.kind == "func" and len(cs.callees) == 1:
                        for ai, a in enumerate(n.args):
                            if isinstance(a, ast.Name) and a.id == pname:
                                callee = model.funcs[cs.callees[0]]
                                if ai < len(callee.params) and callee.qual != fn_info.qual and callee.qual not in seen_fns:
                                    seen_fns.add(callee.qual)
                                    keys_read(callee, callee.params[ai])
    seen_fns = {fi.qual}
    keys_read(fi, fi.params[1])
    ctx.ob("C12.5", f"{CELL} reads the options 'closed_ring' and 'segments'", core.DISCHARGED if {"closed_ring", "segments"} <= read_keys else core.UNDECIDED,
           where, f"keys read: {sorted(map(str, read_keys))} with defaults {defaults}")
    # ---- C12.6: the example's use site spells the keys as the callee reads them -------------------------------------------
    ex = "examples/wireframe/index.py"
    if ctx.sources.has(ex):
        t = ctx.sources.tree(ex)
        sites = 0
        for n in ast.walk(t):
            if isinstance(n, ast.Call) and core.src(n.func).endswith("cell_to_boundary") and len(n.args) >= 2 and isinstance(n.args[1], ast.Dict):
                sites += 1
                keys = [k.value for k in n.args[1].keys if isinstance(k, ast.Constant)]
                unknown = [k for k in keys if k not in read_keys]
                ctx.ob("C12.6", f"{ex}: options {keys} are keys the callee reads", core.DISCHARGED if not unknown else (core.VIOLATED if read_keys else core.UNDECIDED),
                       f"{ex}:{n.lineno}", f"unknown keys {unknown} would be ignored silently" if unknown else f"callee reads {sorted(read_keys)}")
        ctx.analysed["example_call_sites"] = sites
    ctx.analysed.update({"configurations": n_cfg, "resolutions": RESOLUTIONS})
    # ---- C12.7 / C12.8: the count is the same on every call ------------------------------------------------------------------
    from . import purity
    from .sizes import SizeEval as _SE
    purity.grows_shared(ctx, "C12.7", CELL, "the number of vertices of the ring", within=set(_SE.VISITED))
    purity.keeps_arguments(ctx, "C12.8", CELL, "a later call with the same options object sees what this call wrote into it, not the caller's choice")
    # C12.9: the defaults are the same on every call -- cell_to_boundary reads no slot of a module-level options / defaults object
    # that an earlier call has overwritten with a value derived from that call's arguments (the C17.1 stale-slot finding,
    # restricted to cell_to_boundary itself)
    purity.no_stale_defaults(ctx, "C12.9", CELL, "what 'auto' / an absent option means")
