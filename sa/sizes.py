"""E5 -- output-size summaries: an evaluator that tracks only the LENGTH of sequences (as polynomials in symbolic
integers such as `segments`), through the functions that build a cell's boundary ring.

Values: IntV(poly) | SeqV(box) | ShapeV(vertices box) | ConstV(python constant) | DictV | Unknown.  Lists are boxes so
that aliases observe appends.  Loops multiply the effect of their body by their trip count (len of a sequence or
b - a for range(a, b)); an append under an undecided condition or in a `while` loop makes the length unknown."""
from __future__ import annotations

import ast
from dataclasses import dataclass, field
from typing import Any, Callable, Dict, List, Optional, Tuple

from . import core
from .model import FuncInfo, Model


class Poly:
    """integer polynomial in named symbols"""
    __slots__ = ("t",)

    def __init__(self, t=None):
        self.t: Dict[Tuple[str, ...], int] = {k: v for k, v in (t or {}).items() if v != 0}

    @staticmethod
    def const(c: int) -> "Poly":
        return Poly({(): c})

    @staticmethod
    def sym(name: str) -> "Poly":
        return Poly({(name,): 1})

    def __add__(self, o):
        o = o if isinstance(o, Poly) else Poly.const(o)
        t = dict(self.t)
        for k, v in o.t.items():
            t[k] = t.get(k, 0) + v
        return Poly(t)

    def __neg__(self):
        return Poly({k: -v for k, v in self.t.items()})

    def __sub__(self, o):
        return self + (-(o if isinstance(o, Poly) else Poly.const(o)))

    def __mul__(self, o):
        o = o if isinstance(o, Poly) else Poly.const(o)
        t: Dict[Tuple[str, ...], int] = {}
        for k1, v1 in self.t.items():
            for k2, v2 in o.t.items():
                k = tuple(sorted(k1 + k2))
                t[k] = t.get(k, 0) + v1 * v2
        return Poly(t)

    def __eq__(self, o):
        o = o if isinstance(o, Poly) else Poly.const(o)
        return self.t == o.t

    def __hash__(self):
        return hash(tuple(sorted(self.t.items())))

    def is_const(self) -> bool:
        return all(k == () for k in self.t)

    def value(self) -> int:
        return self.t.get((), 0)

    def __repr__(self):
        if not self.t:
            return "0"
        parts = []
        for k, v in sorted(self.t.items()):
            m = "*".join(k)
            parts.append(str(v) if not m else (m if v == 1 else f"{v}*{m}"))
        return " + ".join(parts)


class Unknown:
    def __init__(self, why=""):
        self.why = why

    def __repr__(self):
        return f"Unknown({self.why})"


@dataclass
class IntV:
    p: Poly
    lo: Optional[int] = None      # known lower bound of a symbolic integer


@dataclass
class ConstV:
    v: Any


class Box:
    """a mutable sequence of which only the length is known"""

    def __init__(self, n: Any, note: str = ""):
        self.n = n            # Poly or Unknown
        self.note = note
        self.last_append: Optional[str] = None
        self.events: List[str] = []

    def __repr__(self):
        return f"Seq(len={self.n})"


@dataclass
class SeqV:
    box: Box


@dataclass
class ShapeV:
    cls: str
    vertices: Box
    notes: List[str] = field(default_factory=list)


@dataclass
class DictV:
    d: Dict[str, Any]
    known: bool = True
    mutated: bool = False


@dataclass
class TupleV:
    items: List[Any]


@dataclass
class RaisesV:
    text: str


class Return(Exception):
    def __init__(self, v):
        self.v = v


class SizeEval:
    def __init__(self, model: Model, hooks: Optional[Dict[str, Callable]] = None):
        self.model = model
        self.hooks = hooks or {}
        self.mult: List[Any] = []       # trip counts of the enclosing loops (Poly) ; Unknown for while loops
        self.cond_depth = 0             # > 0: inside a branch whose condition is undecided
        self.depth = 0
        self.concrete = 0               # > 0: inside a loop that is being unrolled on concrete values
        self.trace: List[str] = []

    # -- helpers ------------------------------------------------------------------------------
    def times(self) -> Any:
        p: Any = Poly.const(1)
        for m in self.mult:
            if isinstance(m, Unknown) or isinstance(p, Unknown):
                return Unknown("loop with unknown trip count")
            p = p * m
        return p

    def const_of(self, v: Any) -> Any:
        if isinstance(v, ConstV):
            return v.v
        if isinstance(v, IntV) and v.p.is_const():
            return v.p.value()
        return Unknown

    # -- expressions -----------------------------------------------------------------------------
    def ev(self, e: ast.expr, env: Dict[str, Any], fi: FuncInfo) -> Any:
        if isinstance(e, ast.Constant):
            if isinstance(e.value, bool) or e.value is None or isinstance(e.value, (str, float)):
                return ConstV(e.value)
            if isinstance(e.value, int):
                return IntV(Poly.const(e.value))
            return Unknown("constant")
        if isinstance(e, ast.Name):
            if e.id in env:
                return env[e.id]
            bd = self.model.scopes[fi.module].get(e.id)
            if bd is not None and bd.kind == "var":
                return self.module_var(bd.target)
            return Unknown(f"name {e.id}")
        if isinstance(e, ast.Attribute):
            bd = self.model.resolve_expr_binding(e, fi.module) if isinstance(e.value, ast.Name) and e.value.id not in env else None
            if bd is not None and bd.kind == "var":
                return self.module_var(bd.target)
            base = self.ev(e.value, env, fi)
            if isinstance(base, ShapeV) and e.attr == "vertices":
                return SeqV(base.vertices)
            return Unknown(f"attribute .{e.attr}")
        if isinstance(e, (ast.List, ast.Tuple)):
            if any(isinstance(x, ast.Starred) for x in e.elts):
                return Unknown("starred literal")
            items = [self.ev(x, env, fi) for x in e.elts]
            if isinstance(e, ast.Tuple):
                return TupleV(items)
            return SeqV(Box(Poly.const(len(items)), "literal"))
        if isinstance(e, ast.Dict):
            d = {}
            for k, v in zip(e.keys, e.values):
                if isinstance(k, ast.Constant) and isinstance(k.value, str):
                    d[k.value] = self.ev(v, env, fi)
                else:
                    return DictV({}, False)
            return DictV(d)
        if isinstance(e, (ast.ListComp, ast.GeneratorExp)):
            if len(e.generators) == 1 and not e.generators[0].ifs:
                it = self.ev(e.generators[0].iter, env, fi)
                n = self.length_of(it)
                return SeqV(Box(n, "comprehension"))
            return SeqV(Box(Unknown("filtered / nested comprehension")))
        if isinstance(e, ast.BinOp):
            l, r = self.ev(e.left, env, fi), self.ev(e.right, env, fi)
            if isinstance(l, IntV) and isinstance(r, IntV):
                if isinstance(e.op, ast.Add):
                    return IntV(l.p + r.p)
                if isinstance(e.op, ast.Sub):
                    return IntV(l.p - r.p)
                if isinstance(e.op, ast.Mult):
                    return IntV(l.p * r.p)
                if l.p.is_const() and r.p.is_const():
                    a, b = l.p.value(), r.p.value()
                    try:
                        if isinstance(e.op, ast.Pow):
                            v = a ** b
                            return IntV(Poly.const(v)) if isinstance(v, int) else ConstV(v)
                        if isinstance(e.op, ast.FloorDiv):
                            return IntV(Poly.const(a // b))
                        if isinstance(e.op, ast.Mod):
                            return IntV(Poly.const(a % b))
                    except (ZeroDivisionError, OverflowError):
                        return Unknown("arithmetic")
            lc, rc = self.const_of(l), self.const_of(r)
            if lc is not Unknown and rc is not Unknown and isinstance(lc, (int, float)) and isinstance(rc, (int, float)) \
                    and not isinstance(lc, bool) and not isinstance(rc, bool):
                try:
                    if isinstance(e.op, ast.Add):
                        v = lc + rc
                    elif isinstance(e.op, ast.Sub):
                        v = lc - rc
                    elif isinstance(e.op, ast.Mult):
                        v = lc * rc
                    elif isinstance(e.op, ast.Div):
                        v = lc / rc
                    else:
                        v = None
                    if v is not None:
                        return IntV(Poly.const(v)) if isinstance(v, int) else ConstV(v)
                except (ZeroDivisionError, OverflowError):
                    return Unknown("arithmetic")
            if isinstance(l, SeqV) and isinstance(r, SeqV) and isinstance(e.op, ast.Add):
                if isinstance(l.box.n, Poly) and isinstance(r.box.n, Poly):
                    return SeqV(Box(l.box.n + r.box.n, "concatenation"))
            return Unknown("binop")
        if isinstance(e, ast.UnaryOp) and isinstance(e.op, ast.Not):
            v = self.truth(self.ev(e.operand, env, fi))
            return ConstV(not v) if v is not None else Unknown("not")
        if isinstance(e, ast.UnaryOp) and isinstance(e.op, ast.USub):
            v = self.ev(e.operand, env, fi)
            return IntV(-v.p) if isinstance(v, IntV) else Unknown("neg")
        if isinstance(e, ast.Compare) and len(e.ops) == 1:
            return self.compare(e, env, fi)
        if isinstance(e, ast.BoolOp):
            vals = [self.truth(self.ev(v, env, fi)) for v in e.values]
            if isinstance(e.op, ast.Or):
                if any(v is True for v in vals):
                    return ConstV(True)
                if all(v is False for v in vals):
                    return ConstV(False)
            else:
                if any(v is False for v in vals):
                    return ConstV(False)
                if all(v is True for v in vals):
                    return ConstV(True)
            return Unknown("boolean")
        if isinstance(e, ast.IfExp):
            t = self.truth(self.ev(e.test, env, fi))
            if t is not None:
                return self.ev(e.body if t else e.orelse, env, fi)
            a, b = self.ev(e.body, env, fi), self.ev(e.orelse, env, fi)
            return a if self.same(a, b) else Unknown("conditional expression")
        if isinstance(e, ast.Subscript):
            base = self.ev(e.value, env, fi)
            if isinstance(base, DictV) and isinstance(e.slice, ast.Constant) and e.slice.value in base.d:
                return base.d[e.slice.value]
            if isinstance(base, DictV):
                return Unknown("dictionary entry")
            if isinstance(base, TupleV) and isinstance(e.slice, ast.Constant) and isinstance(e.slice.value, int) and -len(base.items) <= e.slice.value < len(base.items):
                return base.items[e.slice.value]
            if isinstance(base, SeqV) and isinstance(e.slice, ast.Slice):
                def cb(x):
                    if x is None:
                        return None
                    v = self.const_of(self.ev(x, env, fi))
                    return v if isinstance(v, int) else Unknown
                lo, hi, st_ = cb(e.slice.lower), cb(e.slice.upper), cb(e.slice.step)
                if Unknown not in (lo, hi, st_) and isinstance(base.box.n, Poly) and base.box.n.is_const():
                    return SeqV(Box(Poly.const(len(range(base.box.n.value())[slice(lo, hi, st_)])), "slice"))
                return SeqV(Box(Unknown("slice of a sequence of symbolic length")))
            if isinstance(base, SeqV):
                return ConstV(("elem", id(base.box), core.src(e.slice)))
            return Unknown("subscript")
        if isinstance(e, ast.Call):
            return self.call(e, env, fi)
        if isinstance(e, ast.JoinedStr):
            return ConstV("<str>")
        return Unknown(type(e).__name__)

    def same(self, a: Any, b: Any) -> bool:
        if isinstance(a, IntV) and isinstance(b, IntV):
            return a.p == b.p
        if isinstance(a, ConstV) and isinstance(b, ConstV):
            return a.v == b.v
        if isinstance(a, ShapeV) and isinstance(b, ShapeV):
            return a.vertices is b.vertices or (isinstance(a.vertices.n, Poly) and isinstance(b.vertices.n, Poly) and a.vertices.n == b.vertices.n)
        return a is b

    def truth(self, v: Any) -> Optional[bool]:
        if isinstance(v, ConstV):
            if isinstance(v.v, tuple):
                return None
            return bool(v.v)
        if isinstance(v, IntV) and v.p.is_const():
            return v.p.value() != 0
        if isinstance(v, IntV) and v.lo is not None and v.lo > 0:
            return True
        if isinstance(v, (ShapeV, DictV)) and not isinstance(v, DictV):
            return True
        return None

    def compare(self, e: ast.Compare, env, fi) -> Any:
        l, r = self.ev(e.left, env, fi), self.ev(e.comparators[0], env, fi)
        op = e.ops[0]
        if isinstance(op, (ast.In, ast.NotIn)):
            if isinstance(r, TupleV) and all(isinstance(x, ConstV) and not isinstance(x.v, tuple) for x in r.items):
                vals = [x.v for x in r.items]
                if isinstance(l, ConstV) and not isinstance(l.v, tuple):
                    res = any((l.v is x) or (l.v == x and type(l.v) is type(x)) for x in vals)
                    return ConstV(res if isinstance(op, ast.In) else not res)
                if isinstance(l, IntV) and all(not isinstance(x, (int, float)) or isinstance(x, bool) for x in vals):
                    return ConstV(isinstance(op, ast.NotIn))
            return Unknown("membership")
        if isinstance(op, (ast.Is, ast.IsNot)):
            if isinstance(l, ConstV) and isinstance(r, ConstV) and (l.v is None or r.v is None):
                res = (l.v is None) == (r.v is None) if (l.v is None and r.v is None) or True else False
                res = (l.v is None and r.v is None)
                return ConstV(res if isinstance(op, ast.Is) else not res)
            if isinstance(r, ConstV) and r.v is None and isinstance(l, (IntV, ShapeV, SeqV, DictV)):
                return ConstV(isinstance(op, ast.IsNot))
            return Unknown("identity")
        if isinstance(op, (ast.Lt, ast.LtE, ast.Gt, ast.GtE)):
            for a, b in ((l, r), (r, l)):
                if isinstance(a, ConstV) and a.v is None and isinstance(b, IntV):
                    if not self.cond_depth and not self.mult:
                        raise Return(RaisesV(f"TypeError: `{core.src(e)}` compares None with an int"))
                if isinstance(a, ConstV) and isinstance(a.v, str) and isinstance(b, IntV):
                    if not self.cond_depth and not self.mult:
                        raise Return(RaisesV(f"TypeError: `{core.src(e)}` compares a str with an int"))
        if isinstance(l, ConstV) and isinstance(r, ConstV) and isinstance(op, (ast.Eq, ast.NotEq)) and not isinstance(l.v, tuple) and not isinstance(r.v, tuple):
            return ConstV((l.v == r.v) == isinstance(op, ast.Eq))
        if isinstance(l, IntV) and isinstance(r, ConstV) and isinstance(op, (ast.Eq, ast.NotEq)) and isinstance(r.v, (str, type(None))):
            return ConstV(isinstance(op, ast.NotEq))
        lc, rc = self.const_of(l), self.const_of(r)
        if lc is not Unknown and rc is not Unknown and isinstance(lc, (int, float)) and isinstance(rc, (int, float)) \
                and not isinstance(lc, bool) and not isinstance(rc, bool) and isinstance(op, (ast.Lt, ast.LtE, ast.Gt, ast.GtE, ast.Eq, ast.NotEq)):
            return ConstV({ast.Eq: lc == rc, ast.NotEq: lc != rc, ast.Lt: lc < rc, ast.LtE: lc <= rc, ast.Gt: lc > rc, ast.GtE: lc >= rc}[type(op)])
        if isinstance(l, IntV) and isinstance(r, IntV):
            d = l.p - r.p
            if d.is_const():
                c = d.value()
                return ConstV({ast.Eq: c == 0, ast.NotEq: c != 0, ast.Lt: c < 0, ast.LtE: c <= 0, ast.Gt: c > 0, ast.GtE: c >= 0}[type(op)])
            # symbolic integer with a known lower bound against a constant
            if r.p.is_const() and l.lo is not None and len(l.p.t) == 1 and list(l.p.t.values()) == [1]:
                c = r.p.value()
                if isinstance(op, ast.LtE) and l.lo > c:
                    return ConstV(False)
                if isinstance(op, ast.Lt) and l.lo >= c:
                    return ConstV(False)
                if isinstance(op, ast.Gt) and l.lo > c:
                    return ConstV(True)
                if isinstance(op, ast.GtE) and l.lo >= c:
                    return ConstV(True)
                if isinstance(op, ast.Eq) and l.lo > c:
                    return ConstV(False)
                if isinstance(op, ast.NotEq) and l.lo > c:
                    return ConstV(True)
        return Unknown("comparison")

    def length_of(self, v: Any) -> Any:
        if isinstance(v, SeqV):
            return v.box.n
        if isinstance(v, TupleV):
            return Poly.const(len(v.items))
        if isinstance(v, ConstV) and isinstance(v.v, tuple) and v.v and v.v[0] == "range":
            return v.v[1]
        return Unknown("length")

    def module_var(self, qual: str) -> Any:
        key = f"var:{qual}"
        if key in self.hooks:
            return self.hooks[key](self)
        bd = self.model.module_vars.get(qual)
        if bd is None or bd.node is None:
            return Unknown(f"module variable {qual}")
        mq = qual.rsplit(".", 1)[0]
        fi = self.model.funcs[f"<module {mq}>"]
        cache = getattr(self, "_mv", None)
        if cache is None:
            cache = self._mv = {}
        if qual not in cache:
            cache[qual] = Unknown("recursive module variable")
            cache[qual] = self.ev(bd.node, {}, fi)
        return cache[qual]

    # -- calls ------------------------------------------------------------------------------------
    def call(self, e: ast.Call, env, fi) -> Any:
        v = self._call(e, env, fi)
        if isinstance(v, RaisesV) and not self.cond_depth and not self.mult:
            raise Return(v)
        return v

    def _call(self, e: ast.Call, env, fi) -> Any:
        cs = None
        for c in self.model.calls.get(fi.qual, []):
            if c.node is e:
                cs = c
                break
        if cs is None:
            return Unknown("call not indexed")
        if cs.kind == "builtin-method" and isinstance(e.func, ast.Attribute):
            recv = self.ev(e.func.value, env, fi)
            args = [self.ev(a, env, fi) for a in e.args]
            nm = cs.name
            if isinstance(recv, SeqV):
                b = recv.box
                if nm == "append":
                    t = self.times()
                    if self.cond_depth or isinstance(t, Unknown) or isinstance(b.n, Unknown):
                        b.n = Unknown("append under an undecided condition / unbounded loop")
                    else:
                        b.n = b.n + t
                    b.last_append = core.src(e.args[0]) if e.args else None
                    b.events.append(f"{fi.qual.rsplit('.', 1)[-1]}: append({b.last_append})" + (" [in loop]" if self.mult else ""))
                    return ConstV(None)
                if nm in ("reverse", "sort"):
                    b.events.append(f"{fi.qual.rsplit('.', 1)[-1]}: {nm}")
                    return ConstV(None)
                if nm == "extend":
                    n2 = self.length_of(args[0]) if args else Unknown("extend")
                    t = self.times()
                    if self.cond_depth or isinstance(t, Unknown) or isinstance(n2, Unknown) or isinstance(b.n, Unknown):
                        b.n = Unknown("extend not summarised")
                    else:
                        b.n = b.n + n2 * t
                    b.events.append("extend")
                    return ConstV(None)
                if nm in ("pop", "remove", "insert", "clear"):
                    b.n = Unknown(f".{nm}() changes the length")
                    return Unknown(nm)
                if nm in ("index", "count", "copy"):
                    return Unknown(nm)
            if isinstance(recv, DictV) and nm == "get" and args and isinstance(args[0], ConstV) and recv.known:
                if args[0].v in recv.d:
                    return recv.d[args[0].v]
                return args[1] if len(args) > 1 else ConstV(None)
            if isinstance(recv, DictV) and nm == "setdefault" and len(args) == 2 and isinstance(args[0], ConstV) and recv.known \
                    and not self.cond_depth and not self.mult:
                if args[0].v not in recv.d:
                    recv.d[args[0].v] = args[1]
                recv.mutated = True
                return recv.d[args[0].v]
            if isinstance(recv, DictV) and nm in ("setdefault", "update", "pop", "clear", "popitem"):
                recv.known = False
                recv.mutated = True
                return Unknown(f"dict.{nm}")
            return Unknown(f"method .{nm}")
        args = [self.ev(a, env, fi) for a in e.args]
        kwargs = {k.arg: self.ev(k.value, env, fi) for k in e.keywords if k.arg}
        if cs.kind == "external":
            if cs.name == "typing.cast" and len(args) == 2:
                return args[1]
            return Unknown(f"external {cs.name}")
        if cs.kind == "builtin":
            nm = cs.name
            if nm == "len" and args:
                n = self.length_of(args[0])
                return IntV(n) if isinstance(n, Poly) else Unknown("len")
            if nm in ("list", "tuple", "sorted", "reversed") and len(args) == 1:
                return SeqV(Box(self.length_of(args[0]), nm))
            if nm == "range":
                if len(args) == 1 and isinstance(args[0], IntV):
                    return ConstV(("range", args[0].p))
                if len(args) == 2 and all(isinstance(a, IntV) for a in args):
                    return ConstV(("range", args[1].p - args[0].p))
                return Unknown("range")
            if nm == "enumerate" and args:
                n = self.length_of(args[0])
                return ConstV(("range", n)) if isinstance(n, Poly) else Unknown("enumerate")
            if nm == "max" and len(args) == 2:
                a, b = self.const_of(args[0]), self.const_of(args[1])
                if a is not Unknown and b is not Unknown:
                    v = max(a, b)
                    return IntV(Poly.const(v)) if isinstance(v, int) and not isinstance(v, bool) else ConstV(v)
                return Unknown("max")
            if nm == "isinstance":
                return Unknown("isinstance")
            return Unknown(f"builtin {nm}")
        hook = self.hooks.get(cs.callees[0]) if cs.callees else None
        if hook is not None:
            return hook(self, args, kwargs)
        if cs.kind == "ctor":
            inst = ShapeV(cs.ctor_class or "", Box(Unknown("not initialised")))
            if cs.callees:
                self.run(self.model.funcs[cs.callees[0]], [inst] + args, kwargs)
            return inst
        if cs.kind in ("func", "method") and cs.callees:
            results = []
            recv = []
            if cs.kind == "method" and isinstance(e.func, ast.Attribute):
                r = self.ev(e.func.value, env, fi)
                recv = [r]
                if isinstance(r, ShapeV):
                    m = self.model.find_method(r.cls, e.func.attr)
                    if m:
                        return self.run(self.model.funcs[m], recv + args, kwargs)
            if len(cs.callees) == 1:
                return self.run(self.model.funcs[cs.callees[0]], recv + args, kwargs)
            return Unknown(f"call of {cs.name} has several candidate callees")
        return Unknown(f"call {cs.name}")

    # -- functions / statements ------------------------------------------------------------------------
    VISITED: set = set()       # qualified names of every function whose body a size evaluation went through (per process)

    def run(self, fi: FuncInfo, args: List[Any], kwargs: Dict[str, Any]) -> Any:
        if self.depth > 10:
            return Unknown("call depth")
        SizeEval.VISITED.add(fi.qual)
        self.depth += 1
        saved_mult, saved_cond = self.mult, self.cond_depth
        self.mult, self.cond_depth = [], 0
        try:
            fn = fi.node
            env: Dict[str, Any] = {}
            params = fi.params
            defaults = fn.args.defaults
            for i, p in enumerate(params):
                if i < len(args):
                    env[p] = args[i]
                elif p in kwargs:
                    env[p] = kwargs[p]
                else:
                    di = i - (len(params) - len(defaults))
                    env[p] = self.ev(defaults[di], {}, fi) if di >= 0 else Unknown(f"missing argument {p}")
            try:
                self.block(fn.body, env, fi)
                v = ConstV(None)
            except Return as r:
                v = r.v
            # returns met under conditions that were not decided are alternatives to `v`: the call has one value only if they agree
            alts = env.get("__alt_returns__") or []
            if any(not self.same(a, v) for a in alts):
                return Unknown("the function returns different values under conditions that are not decided")
            return v
        finally:
            self.depth -= 1
            self.mult, self.cond_depth = saved_mult, saved_cond

    def block(self, stmts, env, fi) -> None:
        for st in stmts:
            self.stmt(st, env, fi)

    def stmt(self, st: ast.stmt, env, fi) -> None:
        if isinstance(st, ast.Expr):
            if not isinstance(st.value, ast.Constant):
                self.ev(st.value, env, fi)
            return
        if isinstance(st, ast.Return):
            v = self.ev(st.value, env, fi) if st.value is not None else ConstV(None)
            if self.cond_depth or self.mult:
                # return under an undecided condition: the caller sees one of several values
                raise Return(v if not self.cond_depth else self._ambiguous(v))
            raise Return(v)
        if isinstance(st, (ast.Assign, ast.AnnAssign)):
            if isinstance(st, ast.AnnAssign) and st.value is None:
                return
            v = self.ev(st.value, env, fi)
            for t in (st.targets if isinstance(st, ast.Assign) else [st.target]):
                self.assign(t, v, env, fi)
            return
        if isinstance(st, ast.AugAssign):
            if isinstance(st.target, ast.Name):
                cur = env.get(st.target.id, Unknown("undefined"))
                r = self.ev(st.value, env, fi)
                if isinstance(cur, IntV) and isinstance(r, IntV) and isinstance(st.op, (ast.Add, ast.Sub)) and not self.mult and not self.cond_depth:
                    env[st.target.id] = IntV(cur.p + r.p if isinstance(st.op, ast.Add) else cur.p - r.p)
                elif self.concrete and not self.cond_depth:
                    fake = ast.BinOp(left=ast.Name(id="__l", ctx=ast.Load()), op=st.op, right=ast.Name(id="__r", ctx=ast.Load()))
                    env[st.target.id] = self.ev(fake, {"__l": cur, "__r": r}, fi)
                else:
                    env[st.target.id] = Unknown("augmented assignment")
            return
        if isinstance(st, ast.If):
            t = self.truth(self.ev(st.test, env, fi))
            if t is True:
                self.block(st.body, env, fi)
            elif t is False:
                self.block(st.orelse, env, fi)
            else:
                self.cond_depth += 1
                try:
                    rets = []
                    for br in (st.body, st.orelse):
                        try:
                            self.block(br, env, fi)
                        except Return as r:
                            rets.append(r.v)
                    if rets:
                        # a return on an undecided branch: continue with the rest as the other alternative; remember it
                        env.setdefault("__alt_returns__", []).extend(rets)
                finally:
                    self.cond_depth -= 1
            return
        if isinstance(st, ast.For):
            it = self.ev(st.iter, env, fi)
            n = self.length_of(it)
            for nm in [x.id for x in ast.walk(st.target) if isinstance(x, ast.Name)]:
                env[nm] = Unknown("loop variable")
            self.mult.append(n if isinstance(n, Poly) else Unknown("trip count"))
            try:
                self.block(st.body, env, fi)
            finally:
                self.mult.pop()
            return
        if isinstance(st, ast.While):
            # concrete unrolling: every variable of the condition has a concrete value (constant folding of a counting loop)
            t = self.truth(self.ev(st.test, env, fi))
            if t is not None and not self.cond_depth:
                self.concrete += 1
                try:
                    n_iter = 0
                    while t:
                        n_iter += 1
                        if n_iter > 4096:
                            t = None
                            break
                        self.block(st.body, env, fi)
                        t = self.truth(self.ev(st.test, env, fi))
                finally:
                    self.concrete -= 1
                if t is not None:
                    return
                # the condition stopped being decidable: what the loop appended so far is not the whole story
                for v in env.values():
                    if isinstance(v, SeqV):
                        v.box.n = Unknown("while loop whose condition is not decided")
                return
            self.mult.append(Unknown("while loop"))
            try:
                self.block(st.body, env, fi)
            finally:
                self.mult.pop()
            return
        if isinstance(st, ast.Raise):
            if not self.cond_depth and not self.mult:
                raise Return(Unknown("raises"))
            return
        # other statements have no effect on lengths we track

    def _ambiguous(self, v):
        return v

    def assign(self, t: ast.expr, v: Any, env, fi) -> None:
        if isinstance(t, ast.Name):
            if self.concrete and not self.cond_depth:
                env[t.id] = v
            elif (self.mult or self.cond_depth) and t.id in env and not self.same(env[t.id], v):
                env[t.id] = Unknown("assigned under a condition / in a loop")
            else:
                env[t.id] = v
        elif isinstance(t, (ast.Tuple, ast.List)):
            items = v.items if isinstance(v, TupleV) and len(v.items) == len(t.elts) else [Unknown("unpacking")] * len(t.elts)
            for x, y in zip(t.elts, items):
                self.assign(x, y, env, fi)
        elif isinstance(t, ast.Attribute):
            base = self.ev(t.value, env, fi)
            if isinstance(base, ShapeV) and t.attr == "vertices":
                if isinstance(v, SeqV):
                    base.vertices = v.box
                else:
                    base.vertices = Box(Unknown("vertices assigned a non-sequence"))
        elif isinstance(t, ast.Subscript):
            base = self.ev(t.value, env, fi)
            if isinstance(base, SeqV) and isinstance(t.slice, ast.Slice):
                base.box.n = Unknown("slice assignment")
            if isinstance(base, DictV):
                base.mutated = True
                k = self.ev(t.slice, env, fi)
                if isinstance(k, ConstV) and isinstance(k.v, str) and not self.mult:
                    if self.cond_depth and k.v in base.d and not self.same(base.d[k.v], v):
                        base.d[k.v] = Unknown("assigned under an undecided condition")
                    elif self.cond_depth and k.v not in base.d:
                        base.known = False
                    else:
                        base.d[k.v] = v
                else:
                    base.known = False
