"""E2 -- heap, alias and effect summaries over the resolved call graph of E1.

Abstract objects (AO)
    ('A', func, site)        allocated in this activation of func (list/dict/tuple literal, comprehension, instance, ...)
    ('R', func, site, k)     fresh object k of a callee's summary, instantiated at a call site of func
    ('P', i, d)              the i-th parameter of the function under analysis, d levels inside it (d = 2: anything deeper)
    ('G', qual, d)           a module-level object (or a named field of a module-level singleton), d levels inside it
Immutable leaves (numbers, strings, None) are not represented: their points-to set is empty.

Per function (flow-insensitive, to a fix-point): points-to sets of locals, contents of fresh objects, the set of
mutation sites with their targets, stores into parameter/global regions, returned objects.  Summaries are
parametric in the parameters and are instantiated at every resolved call site (callee fresh objects become 'R'
objects of the caller), so `vec3.add(out, a, b)` mutates whatever the caller passed as `out` -- the gl-matrix
"out" convention is derived, not assumed.
"""
from __future__ import annotations

import ast
from dataclasses import dataclass, field
from typing import Dict, FrozenSet, List, Optional, Set, Tuple

from . import core
from .model import BUILTIN_MUTATORS, CallSite, FuncInfo, Model

AO = tuple
IMM_ANNOT = {"int", "float", "str", "bool", "bytes", "complex", "None",
             "Degrees", "Radians", "Quaternary", "Flip", "Orientation", "OriginId", "FaceTriangleIndex"}
IMM_TUPLE_ANNOT = {"Face", "Polar", "IJ", "KJ", "Cartesian", "Spherical", "LonLat", "Barycentric", "Vec2", "Vec3"}
FRESH_BUILTINS = {"list", "tuple", "sorted", "set", "frozenset", "dict", "reversed", "enumerate", "zip", "map", "filter", "iter"}
IMM_BUILTINS = {"len", "abs", "sum", "round", "int", "float", "str", "bool", "isinstance", "hasattr", "print", "repr", "format",
                "hex", "divmod", "pow", "any", "all", "range", "id", "hash", "ord", "chr", "callable", "type", "bin", "oct", "issubclass"}
EXC_BUILTINS = {"ValueError", "TypeError", "IndexError", "KeyError", "Exception", "RuntimeError", "AssertionError", "NotImplementedError",
                "OverflowError", "ZeroDivisionError", "ArithmeticError"}
NONDET_CALLS = ("random.", "time.", "datetime.", "uuid.", "secrets.", "os.environ", "os.getenv", "os.urandom")


@dataclass(frozen=True)
class MutRec:
    target: AO                  # P or G node (after lifting), or fresh object
    kind: str                   # 'subscript-store' | 'attr-store:x' | 'attr-aug:x' | 'method:append' | 'global-rebind:x' | 'del' ...
    origin_func: str
    origin_line: int
    origin_text: str
    chain: Tuple[Tuple[str, int], ...] = ()    # call sites (func, line) from the function that owns the record down to the origin

    def where(self) -> str:
        return f"{self.origin_func}:{self.origin_line}"


@dataclass
class Summary:
    mut: Set[Tuple[AO, str, str, int, str, Tuple[Tuple[str, int], ...]]] = field(default_factory=set)   # P-node targets only
    stores: Set[Tuple[AO, AO]] = field(default_factory=set)      # (P node, source node) ; source: P / G / ('F', k)
    ret: Set[AO] = field(default_factory=set)                   # P / G / ('F', k)
    fcont: Dict[int, Set[AO]] = field(default_factory=dict)      # fresh node k -> contents (P / G / F)
    fkind: Dict[int, str] = field(default_factory=dict)

    def key(self):
        return (frozenset(self.mut), frozenset(self.stores), frozenset(self.ret),
                tuple(sorted((k, frozenset(v)) for k, v in self.fcont.items())))


class FuncAnalysis:
    def __init__(self, eff: "Effects", fi: FuncInfo):
        self.eff, self.fi, self.model = eff, fi, eff.model
        self.pts: Dict[str, Set[AO]] = {}
        self.cont: Dict[AO, Set[AO]] = {}
        self.kind: Dict[AO, str] = {}
        self.escaped_to: Dict[AO, Set[AO]] = {}
        self.muts: Set[MutRec] = set()
        self.store_edges: Set[Tuple[AO, AO]] = set()
        self.ret: Set[AO] = set()
        self.reads_glob: Dict[str, int] = {}
        self.nondet: List[Tuple[int, str]] = []
        self.locals = self.model.local_names(fi)
        self.callsites: Dict[int, CallSite] = {id(cs.node): cs for cs in self.model.calls.get(fi.qual, [])}
        self.globals_declared: Set[str] = set()
        self.changed = False
        # A parameter that a statement of the function's top level re-binds (`options = normalise(options)`): what the name holds
        # after that statement is a different variable from the parameter -- everything else is flow-insensitive.  Code at the top
        # level of a function runs in textual order, so the position of a use decides which of the two it is.
        self.rebound: Dict[str, Tuple[int, int]] = {}
        if not fi.is_module_body:
            pnames_ = {a.arg for a in fi.node.args.args + fi.node.args.kwonlyargs}
            for st_ in fi.node.body:
                if isinstance(st_, ast.Assign) and len(st_.targets) == 1 and isinstance(st_.targets[0], ast.Name) \
                        and st_.targets[0].id in pnames_ and st_.targets[0].id not in self.rebound:
                    self.rebound[st_.targets[0].id] = (st_.targets[0].lineno, st_.targets[0].col_offset,
                                                       st_.end_lineno or st_.lineno, st_.end_col_offset or 0)
        # `x = TABLE[k]` ... `if x is None: x = [TABLE[k] =] make(); x.fill()`: inside the `if`, after the assignment, `x` is the
        # object just made, not what the table held (that was None) -- the one other place where the position of a use decides.
        # name -> [(target line, target col, from (line, col), to (line, col))]; such a binding also reaches the plain name, which is
        # what the code after the `if` sees.
        self.none_rebound: Dict[str, List[Tuple[int, int, Tuple[int, int], Tuple[int, int]]]] = {}
        if not fi.is_module_body:
            for n in ast.walk(fi.node):
                if isinstance(n, ast.If) and isinstance(n.test, ast.Compare) and len(n.test.ops) == 1 and isinstance(n.test.ops[0], ast.Is) \
                        and isinstance(n.test.left, ast.Name) and isinstance(n.test.comparators[0], ast.Constant) and n.test.comparators[0].value is None:
                    nm_ = n.test.left.id
                    for st_ in n.body:
                        if isinstance(st_, ast.Assign) and any(isinstance(t, ast.Name) and t.id == nm_ for t in st_.targets) \
                                and not any(isinstance(x, ast.Name) and x.id == nm_ for x in ast.walk(st_.value)):
                            tg = next(t for t in st_.targets if isinstance(t, ast.Name) and t.id == nm_)
                            last = n.body[-1]
                            self.none_rebound.setdefault(nm_, []).append(
                                (tg.lineno, tg.col_offset, (st_.end_lineno or st_.lineno, st_.end_col_offset or 0),
                                 (last.end_lineno or last.lineno, (last.end_col_offset or 0) + 1)))
                            break
                        if any(isinstance(x, ast.Name) and x.id == nm_ and isinstance(x.ctx, ast.Store) for x in ast.walk(st_)):
                            break
        if not fi.is_module_body:
            for n in ast.walk(fi.node):
                if isinstance(n, ast.Global):
                    self.globals_declared.update(n.names)
            self.imm_elems: Set[int] = set()      # parameters annotated as containers of immutable values (List[int], ...)
            for i, a in enumerate(fi.node.args.args):
                if self._imm_annotation(a.annotation):
                    self.pts[a.arg] = set()
                else:
                    self.pts[a.arg] = {("P", i, 0)}
                    if self._imm_elements(a.annotation):
                        self.imm_elems.add(i)
            # a mutable default value is ONE object created when the function is defined and shared by every call that omits the argument
            pos = fi.node.args.args
            for a, d in list(zip(pos[len(pos) - len(fi.node.args.defaults):], fi.node.args.defaults)) + \
                    [(a, d) for a, d in zip(fi.node.args.kwonlyargs, fi.node.args.kw_defaults) if d is not None]:
                if isinstance(d, (ast.List, ast.Dict, ast.Set, ast.ListComp, ast.DictComp, ast.SetComp)) or \
                        (isinstance(d, ast.Call) and isinstance(d.func, ast.Name) and d.func.id in ("list", "dict", "set", "bytearray", "defaultdict", "OrderedDict", "deque")):
                    self.pts.setdefault(a.arg, set()).add(("G", f"<default value of {fi.qual}({a.arg})>", 0))

    # -- helpers ----------------------------------------------------------------------------
    @staticmethod
    def _imm_annotation(ann: Optional[ast.expr]) -> bool:
        if ann is None:
            return False
        t = core.src(ann).strip("'\"")
        if t in IMM_ANNOT:
            return True
        if t.startswith("Optional[") and t[9:-1] in IMM_ANNOT:
            return True
        if t.startswith("Union[") and all(x.strip() in IMM_ANNOT for x in t[6:-1].split(",")):
            return True
        return False

    @staticmethod
    def _imm_elements(ann: Optional[ast.expr]) -> bool:
        """List[int], Sequence[float], Tuple[int, ...], Set[str], Dict[int, str], Iterable[int]: what the container holds cannot be mutated"""
        if ann is None:
            return False
        t = core.src(ann).strip("'\"").replace(" ", "")
        for pre in ("Optional[",):
            if t.startswith(pre) and t.endswith("]"):
                t = t[len(pre):-1]
        if t in IMM_TUPLE_ANNOT:
            return True        # coordinate vectors: whatever the container is (tuple or list), what it holds are numbers
        for pre in ("List[", "Sequence[", "Tuple[", "Set[", "FrozenSet[", "Dict[", "Iterable[", "Collection[", "Mapping[", "list[", "tuple[", "set[", "dict["):
            if t.startswith(pre) and t.endswith("]"):
                inner = t[len(pre):-1]
                return all(x in IMM_ANNOT or x == "..." for x in inner.split(","))
        return False

    def add(self, s: Set[AO], items) -> None:
        n = len(s)
        s.update(items)
        if len(s) != n:
            self.changed = True

    def alloc(self, node: ast.AST, kind: str, tag: str = "") -> AO:
        ao = ("A", self.fi.qual, (getattr(node, "lineno", 0), getattr(node, "col_offset", 0), tag))
        self.cont.setdefault(ao, set())
        self.kind.setdefault(ao, kind)
        return ao

    def contents(self, ao: AO) -> Set[AO]:
        if ao[0] in ("A", "R"):
            return self.cont.setdefault(ao, set())
        if ao[0] == "P":
            if ao[2] == 0 and ao[1] in getattr(self, "imm_elems", ()):
                return set()
            return {("P", ao[1], min(ao[2] + 1, 2))}
        if ao[0] == "G":
            return {("G", ao[1], min(ao[2] + 1, 2))}
        return set()

    def deref(self, objs: Set[AO], d: int) -> Set[AO]:
        cur = set(objs)
        for _ in range(d):
            nxt: Set[AO] = set()
            for o in cur:
                nxt |= self.contents(o)
            cur = nxt
        return cur

    def attr_load(self, objs: Set[AO], attr: str) -> Set[AO]:
        out: Set[AO] = set(self.eff.class_mutables.get(attr, ()))
        for o in objs:
            if o[0] == "G" and o[2] == 0 and self.eff.is_instance_object(o[1]):
                out.add(("G", f"{o[1]}.{attr}", 0))
            else:
                out |= self.contents(o)
        return out

    def gain(self, o: AO, vals: Set[AO]) -> None:
        if not vals:
            return
        if o[0] in ("A", "R"):
            self.add(self.cont.setdefault(o, set()), vals)
            # if o has escaped, what it now holds escapes too
            if o in self.escaped_to:
                for v in vals:
                    if v[0] in ("A", "R"):
                        self.add(self.escaped_to.setdefault(v, set()), self.escaped_to[o])
        else:
            for v in vals:
                if (o, v) not in self.store_edges:
                    self.store_edges.add((o, v))
                    self.changed = True
                if v[0] in ("A", "R"):
                    self._escape(v, o)

    def _escape(self, v: AO, region: AO, seen=None) -> None:
        seen = seen or set()
        if v in seen:
            return
        seen.add(v)
        self.add(self.escaped_to.setdefault(v, set()), {region})
        for c in list(self.cont.get(v, ())):
            if c[0] in ("A", "R"):
                self._escape(c, region, seen)

    def mutate(self, o: AO, kind: str, node: ast.AST, origin: Optional[Tuple[str, int, str]] = None,
               chain: Tuple[Tuple[str, int], ...] = ()) -> None:
        of, ol, ot = origin or (self.fi.qual, getattr(node, "lineno", 0), core.src(node)[:100])
        rec = MutRec(o, kind, of, ol, ot, chain)
        if rec not in self.muts:
            self.muts.add(rec)
            self.changed = True

    # -- expressions ------------------------------------------------------------------------
    def ev(self, e: Optional[ast.expr]) -> Set[AO]:
        if e is None:
            return set()
        if isinstance(e, ast.Constant):
            return set()
        if isinstance(e, ast.Name):
            return self.name_load(e)
        if isinstance(e, ast.Attribute):
            bd = self.model.resolve_expr_binding(e, self.fi.module) if self._static_path(e) else None
            if bd is not None:
                return self.binding_objects(bd, e)
            return self.attr_load(self.ev(e.value), e.attr)
        if isinstance(e, ast.Subscript):
            base = self.ev(e.value)
            self.ev(e.slice) if not isinstance(e.slice, ast.Slice) else None
            if isinstance(e.slice, ast.Slice):
                ao = self.alloc(e, "list", "slice")
                self.gain(ao, self.deref(base, 1))
                return {ao}
            if isinstance(e.ctx, ast.Load):
                for o in base:
                    if o[0] == "G" and o[2] == 0 and self.eff.is_defaultdict_var(o[1]):
                        # reading a missing key of a defaultdict INSERTS it: a read that writes
                        self.mutate(o, "defaultdict-read", e)
            return self.deref(base, 1)
        if isinstance(e, (ast.Tuple, ast.List, ast.Set)):
            ao = self.alloc(e, {"Tuple": "tuple", "List": "list", "Set": "set"}[type(e).__name__])
            for x in e.elts:
                self.gain(ao, self.ev(x))
            return {ao}
        if isinstance(e, ast.Dict):
            ao = self.alloc(e, "dict")
            for k in e.keys:
                if k is not None:
                    self.ev(k)
            for v in e.values:
                self.gain(ao, self.ev(v))
            return {ao}
        if isinstance(e, (ast.ListComp, ast.SetComp, ast.GeneratorExp, ast.DictComp)):
            for g in e.generators:
                self.bind_target(g.target, self.iter_elements(g.iter))
                for c in g.ifs:
                    self.ev(c)
            ao = self.alloc(e, "list" if not isinstance(e, ast.DictComp) else "dict")
            if isinstance(e, ast.DictComp):
                self.ev(e.key)
                self.gain(ao, self.ev(e.value))
            else:
                self.gain(ao, self.ev(e.elt))
            return {ao}
        if isinstance(e, ast.BinOp):
            l, r = self.ev(e.left), self.ev(e.right)
            if isinstance(e.op, ast.Add) and (l or r):
                ao = self.alloc(e, "list", "concat")
                self.gain(ao, self.deref(l, 1) | self.deref(r, 1))
                return {ao}
            if isinstance(e.op, ast.Mult):
                for side, objs in ((e.left, l), (e.right, r)):
                    if isinstance(side, (ast.List, ast.Tuple)):
                        ao = self.alloc(e, "list", "repeat")
                        self.gain(ao, self.deref(objs, 1))
                        return {ao}
            return set()
        if isinstance(e, ast.BoolOp):
            out: Set[AO] = set()
            for v in e.values:
                out |= self.ev(v)
            return out
        if isinstance(e, ast.IfExp):
            self.ev(e.test)
            return self.ev(e.body) | self.ev(e.orelse)
        if isinstance(e, ast.Compare):
            self.ev(e.left)
            for c in e.comparators:
                self.ev(c)
            return set()
        if isinstance(e, ast.UnaryOp):
            self.ev(e.operand)
            return set()
        if isinstance(e, ast.Call):
            return self.call(e)
        if isinstance(e, ast.Starred):
            return self.ev(e.value)
        if isinstance(e, ast.JoinedStr):
            for v in e.values:
                if isinstance(v, ast.FormattedValue):
                    self.ev(v.value)
            return set()
        if isinstance(e, ast.Lambda):
            self.ev(e.body)
            return set()
        if isinstance(e, ast.NamedExpr):
            v = self.ev(e.value)
            self.bind_target(e.target, v)
            return v
        return set()

    def _static_path(self, e: ast.Attribute) -> bool:
        x = e
        while isinstance(x, ast.Attribute):
            x = x.value
        return isinstance(x, ast.Name) and x.id not in self.locals and x.id != "self"

    def _key(self, e: ast.Name) -> str:
        for tl_, tc_, frm_, to_ in self.none_rebound.get(e.id, ()):
            pos_ = (getattr(e, "lineno", 0), getattr(e, "col_offset", 0))
            if pos_ == (tl_, tc_) or frm_ <= pos_ < to_:
                return f"{e.id}#made@{tl_}"
        rb = self.rebound.get(e.id)
        if rb is None:
            return e.id
        tl, tc, el, ec = rb
        pos = (getattr(e, "lineno", 0), getattr(e, "col_offset", 0))
        if pos == (tl, tc) or pos >= (el, ec):
            return e.id + "#rebound"
        return e.id

    def name_load(self, e: ast.Name) -> Set[AO]:
        nm = e.id
        if nm in self.locals and nm not in self.globals_declared:
            return self.pts.setdefault(self._key(e), set())
        bd = self.model.scopes[self.fi.module].get(nm)
        if bd is None:
            return set()
        return self.binding_objects(bd, e)

    def binding_objects(self, bd, node) -> Set[AO]:
        if bd.kind == "var":
            if self.eff.is_immutable_var(bd.target):
                return set()
            self.reads_glob.setdefault(bd.target, getattr(node, "lineno", 0))
            return {("G", bd.target, 0)}
        return set()

    def iter_elements(self, it: ast.expr) -> Set[AO]:
        """objects a `for` target may be bound to"""
        if isinstance(it, ast.Call) and isinstance(it.func, ast.Name) and it.func.id in ("enumerate", "zip", "reversed", "sorted", "list", "tuple", "set", "iter") \
                and it.func.id not in self.locals and self.model.scopes[self.fi.module].get(it.func.id) is None:
            out: Set[AO] = set()
            for a in it.args:
                out |= self.deref(self.ev(a), 1)
            return out
        return self.deref(self.ev(it), 1)

    def bind_target(self, t: ast.expr, vals: Set[AO], unpack: bool = False) -> None:
        if isinstance(t, ast.Name):
            if t.id in self.globals_declared or self.fi.is_module_body:
                return
            k_ = self._key(t)
            self.add(self.pts.setdefault(k_, set()), vals)
            if "#made@" in k_:
                self.add(self.pts.setdefault(t.id, set()), vals)       # what the code after the `if` sees
        elif isinstance(t, (ast.Tuple, ast.List)):
            inner = vals | self.deref(vals, 1)
            for x in t.elts:
                self.bind_target(x, inner)
        elif isinstance(t, ast.Starred):
            self.bind_target(t.value, vals)
        elif isinstance(t, ast.Subscript):
            base = self.ev(t.value)
            self.ev(t.slice) if not isinstance(t.slice, ast.Slice) else None
            kind = "subscript-store:const" if isinstance(t.slice, ast.Constant) else "subscript-store:key"
            for o in base:
                self.mutate(o, kind, t)
                self.gain(o, vals)
        elif isinstance(t, ast.Attribute):
            # `othermodule.NAME = value`: re-binding a module-level variable of another module of the package
            if isinstance(t.value, ast.Name) and t.value.id not in self.locals:
                bd = self.model.scopes[self.fi.module].get(t.value.id)
                if bd is not None and bd.kind == "module" and f"{bd.target}.{t.attr}" in self.model.module_vars and not self.fi.is_module_body:
                    self.mutate(("G", f"{bd.target}.{t.attr}", 0), f"global-rebind:{t.attr}", t)
                    return
            base = self.ev(t.value)
            for o in base:
                self.mutate(o, f"attr-store:{t.attr}", t)
                self.gain(o, vals)

    # -- statements -------------------------------------------------------------------------
    def run(self) -> None:
        body = self.fi.node.body
        for _ in range(12):
            self.changed = False
            self.block(body)
            if not self.changed:
                break

    def block(self, stmts) -> None:
        for st in stmts:
            self.stmt(st)

    def stmt(self, st: ast.stmt) -> None:
        if isinstance(st, (ast.FunctionDef, ast.ClassDef)):
            if isinstance(st, ast.ClassDef) and self.fi.is_module_body:
                for m in st.body:
                    if not isinstance(m, ast.FunctionDef):
                        self.stmt(m)
            return
        if isinstance(st, ast.Assign):
            v = self.ev(st.value)
            for t in st.targets:
                if isinstance(t, ast.Name) and (t.id in self.globals_declared):
                    self.mutate(("G", f"{self.fi.module}.{t.id}", 0), f"global-rebind:{t.id}", st)
                if isinstance(t, (ast.Tuple, ast.List)):
                    self.bind_target(t, self.deref(v, 1) if v else set())
                else:
                    self.bind_target(t, v)
            return
        if isinstance(st, ast.AnnAssign):
            if st.value is not None:
                self.bind_target(st.target, self.ev(st.value))
            return
        if isinstance(st, ast.AugAssign):
            v = self.ev(st.value)
            t = st.target
            if isinstance(t, ast.Name):
                if t.id in self.globals_declared:
                    self.mutate(("G", f"{self.fi.module}.{t.id}", 0), f"global-rebind:{t.id}", st)
                else:
                    cur = self.pts.setdefault(self._key(t), set())
                    # x += [..] on a list mutates it in place
                    for o in list(cur):
                        if v:
                            self.mutate(o, "aug-assign", st)
                            self.gain(o, self.deref(v, 1))
            elif isinstance(t, ast.Attribute):
                for o in self.ev(t.value):
                    self.mutate(o, f"attr-aug:{t.attr}", st)
            elif isinstance(t, ast.Subscript):
                self.ev(t.slice) if not isinstance(t.slice, ast.Slice) else None
                for o in self.ev(t.value):
                    self.mutate(o, "subscript-aug", st)
            return
        if isinstance(st, ast.Expr):
            self.ev(st.value)
            return
        if isinstance(st, ast.Return):
            self.add(self.ret, self.ev(st.value))
            return
        if isinstance(st, ast.If):
            self.ev(st.test)
            self.block(st.body)
            self.block(st.orelse)
            return
        if isinstance(st, ast.While):
            self.ev(st.test)
            self.block(st.body)
            self.block(st.orelse)
            return
        if isinstance(st, ast.For):
            self.bind_target(st.target, self.iter_elements(st.iter))
            self.block(st.body)
            self.block(st.orelse)
            return
        if isinstance(st, ast.Delete):
            for t in st.targets:
                if isinstance(t, ast.Subscript):
                    for o in self.ev(t.value):
                        self.mutate(o, "del", st)
                elif isinstance(t, ast.Attribute):
                    for o in self.ev(t.value):
                        self.mutate(o, f"del-attr:{t.attr}", st)
            return
        if isinstance(st, ast.Raise):
            self.ev(st.exc)
            return
        if isinstance(st, (ast.With, ast.AsyncWith)):
            for it in st.items:
                v = self.ev(it.context_expr)
                if it.optional_vars is not None:
                    self.bind_target(it.optional_vars, v)
            self.block(st.body)
            return
        if isinstance(st, ast.Try):
            self.block(st.body)
            for h in st.handlers:
                self.block(h.body)
            self.block(st.orelse)
            self.block(st.finalbody)
            return
        if isinstance(st, ast.Assert):
            self.ev(st.test)
            return
        # Pass, Break, Continue, Global, Import...: nothing

    # -- calls -----------------------------------------------------------------------------------
    def call(self, n: ast.Call) -> Set[AO]:
        cs = self.callsites.get(id(n))
        args = [self.ev(a) for a in n.args]
        kwargs = {k.arg: self.ev(k.value) for k in n.keywords if k.arg}
        if cs is None:
            # call inside a nested scope we did not index (lambda body): conservative no-effect
            return set()
        if cs.kind == "external":
            if cs.name in ("typing.cast", "cast") and len(args) == 2:
                return args[1]
            if any(cs.name.startswith(p) or cs.name == p.rstrip(".") for p in NONDET_CALLS):
                self.nondet.append((n.lineno, cs.name))
            last = cs.name.rsplit(".", 1)[-1]
            if last == "ChainMap" and args:
                # a view: reads search every mapping, writes and deletions go to the FIRST one (the caller's object, not a copy)
                ao = self.alloc(n, "dict", "ChainMap")
                for a in args:
                    self.gain(ao, self.deref(a, 1))
                return set(args[0]) | {ao}
            if last in ("deque", "OrderedDict", "defaultdict", "Counter") or cs.name in ("copy.copy", "copy.deepcopy"):
                ao = self.alloc(n, "dict" if last in ("OrderedDict", "defaultdict", "Counter") else "list", last)
                for a in args:
                    self.gain(ao, self.deref(a, 1 if cs.name != "copy.deepcopy" else 2) if cs.name != "copy.deepcopy" else set())
                return {ao}
            if last in ("MappingProxyType",) and args:
                return set(args[0])
            return set()
        if cs.kind == "builtin":
            nm = cs.name
            if nm == "map" and len(n.args) >= 2:
                # map(f, xs, ...): the elements of the result are what f returns for the elements of xs
                bd = self.model.resolve_expr_binding(n.args[0], self.fi.module) if isinstance(n.args[0], (ast.Name, ast.Attribute)) else None
                callee = bd.target if bd is not None and bd.kind == "func" else None
                sm = self.eff.summaries.get(callee) if callee else None
                if sm is not None:
                    bound = {i: self.deref(a, 1) for i, a in enumerate(args[1:])}
                    r = self.apply_summary(sm, bound, n, callee)
                    ao = self.alloc(n, "list", "map")
                    self.gain(ao, r)
                    return {ao}
            if nm in FRESH_BUILTINS:
                ao = self.alloc(n, "tuple" if nm in ("tuple", "frozenset") else ("dict" if nm == "dict" else "list"), nm)
                for a in args:
                    self.gain(ao, self.deref(a, 1))
                return {ao}
            if nm in ("min", "max"):
                out: Set[AO] = set()
                for a in args:
                    out |= a | self.deref(a, 1)
                return out
            if nm in EXC_BUILTINS:
                return {self.alloc(n, "instance", nm)}
            if nm in ("id", "hash"):
                self.nondet.append((n.lineno, nm + "()"))
            if nm == "getattr" and len(n.args) >= 2 and isinstance(n.args[1], ast.Constant) and isinstance(n.args[1].value, str):
                out = self.attr_load(args[0], n.args[1].value)
                if len(args) >= 3:
                    out = out | args[2]
                return out
            if nm == "setattr" and len(n.args) == 3 and isinstance(n.args[1], ast.Constant) and isinstance(n.args[1].value, str):
                fake = ast.Attribute(value=n.args[0], attr=n.args[1].value, ctx=ast.Store())
                ast.copy_location(fake, n)
                for o in args[0]:
                    self.mutate(o, f"attr-store:{n.args[1].value}", n)
                    self.gain(o, args[2])
            return set()
        if cs.kind == "builtin-method":
            recv = self.ev(n.func.value)
            nm = cs.name
            if nm in BUILTIN_MUTATORS:
                for o in recv:
                    self.mutate(o, f"method:{nm}", n)
                    if nm in ("append", "add", "insert", "setdefault", "appendleft"):
                        for a in args:
                            self.gain(o, a)
                    elif nm in ("extend", "update", "extendleft"):
                        for a in args:
                            self.gain(o, self.deref(a, 1))
                        for a in kwargs.values():
                            self.gain(o, a)
                if nm in ("pop", "setdefault", "popitem", "popleft"):
                    return self.deref(recv, 1)
                return set()
            if nm in ("get", "pop"):
                out = self.deref(recv, 1)
                if len(args) > 1:
                    out = out | args[1]
                return out
            if nm in ("copy", "items", "keys", "values", "union", "intersection", "difference"):
                ao = self.alloc(n, "list", nm)
                self.gain(ao, self.deref(recv, 1))
                return {ao}
            return set()
        if cs.kind == "unresolved":
            return set()
        # repository function / method / constructor
        result: Set[AO] = set()
        recv_objs: Optional[Set[AO]] = None
        if cs.kind == "method":
            f = n.func
            if isinstance(f, ast.Attribute) and isinstance(f.value, ast.Call) and isinstance(f.value.func, ast.Name) and f.value.func.id == "super":
                recv_objs = self.pts.get("self", set())
            elif isinstance(f, ast.Attribute):
                recv_objs = self.ev(f.value)
            elif isinstance(f, ast.Name) and cs.name == "__call__":
                recv_objs = self.ev(f)          # the called instance itself is `self`
        inst: Optional[AO] = None
        if cs.kind == "ctor":
            inst = self.alloc(n, "instance", cs.ctor_class or "")
            if cs.ctor_class and self.eff.is_singleton_class(cs.ctor_class):
                # `__new__` keeps the instance in a class attribute and hands the same object to every caller: constructing it again
                # runs __init__ on the shared object
                inst = ("G", f"<singleton instance of {cs.ctor_class}>", 0)
            result.add(inst)
            recv_objs = {inst}
        for callee in cs.callees:
            s = self.eff.summaries.get(callee)
            cfi = self.model.funcs[callee]
            if s is None:
                continue
            bound: Dict[int, Set[AO]] = {}
            params = cfi.params
            off = 0
            if recv_objs is not None:
                bound[0] = recv_objs
                off = 1
            for i, a in enumerate(args):
                if i + off < len(params):
                    bound[i + off] = a
            for k, v in kwargs.items():
                if k in params:
                    bound[params.index(k)] = v
            # defaults: immutable in this package
            r = self.apply_summary(s, bound, n, callee)
            if cs.kind != "ctor":
                result |= r
        return result

    def apply_summary(self, s: Summary, bound: Dict[int, Set[AO]], n: ast.Call, callee: str) -> Set[AO]:
        site = (n.lineno, n.col_offset)
        fresh_map: Dict[int, AO] = {}

        def fresh(k: int) -> AO:
            if k not in fresh_map:
                ao = ("R", self.fi.qual, site, callee, k)
                fresh_map[k] = ao
                self.cont.setdefault(ao, set())
                self.kind.setdefault(ao, s.fkind.get(k, "list"))
            return fresh_map[k]

        def mp(node: AO) -> Set[AO]:
            if node[0] == "P":
                return self.deref(bound.get(node[1], set()), node[2])
            if node[0] == "G":
                return {node}
            if node[0] == "F":
                return {fresh(node[1])}
            return set()
        for k, cont in s.fcont.items():
            ao = fresh(k)
            for c in cont:
                self.gain(ao, mp(c))
        for (tgt, kind, of, ol, ot, chain) in s.mut:
            for o in mp(tgt):
                self.mutate(o, kind, n, (of, ol, ot), ((self.fi.qual, n.lineno),) + chain)
        for (tgt, src_node) in s.stores:
            vals = mp(src_node)
            for o in mp(tgt):
                self.gain(o, vals)
        out: Set[AO] = set()
        for r in s.ret:
            out |= mp(r)
        return out

    # -- summary ---------------------------------------------------------------------------------
    def summary(self) -> Summary:
        s = Summary()
        index: Dict[AO, int] = {}

        def node_of(ao: AO) -> Optional[AO]:
            if ao[0] in ("P", "G"):
                return ao
            if ao[0] in ("A", "R"):
                if ao not in index:
                    index[ao] = len(index)
                    k = index[ao]
                    s.fkind[k] = self.kind.get(ao, "list")
                    s.fcont[k] = set()
                    for c in list(self.cont.get(ao, ())):
                        nc = node_of(c)
                        if nc is not None:
                            s.fcont[k].add(nc)
                return ("F", index[ao])
            return None
        for r in self.ret:
            nr = node_of(r)
            if nr is not None:
                s.ret.add(nr)
        if not self.fi.is_module_body and self.model.memoised(self.fi.qual) and s.ret:
            # functools.lru_cache / cache: every caller with equal arguments receives the SAME object
            s.ret.add(("G", f"<memoised results of {self.fi.qual}>", 0))
        for (tgt, v) in self.store_edges:
            if tgt[0] == "P":
                nv = node_of(v)
                if nv is not None:
                    s.stores.add((tgt, nv))
        for m in self.muts:
            targets = [m.target] if m.target[0] == "P" else [t for t in self.escaped_to.get(m.target, ()) if t[0] == "P"]
            for t in targets:
                if t[0] == "P":
                    tt = t if m.target[0] == "P" else ("P", t[1], min(t[2] + 1, 2))
                    kind = m.kind
                    if m.target[0] != "P" and "(object stored in shared state)" not in kind:
                        # the object was allocated in this activation and handed to the parameter's region: its own
                        # initialisation is not a modification of data that existed before the call
                        kind = kind + " (object stored in shared state)"
                    s.mut.add((tt, kind, m.origin_func, m.origin_line, m.origin_text, m.chain))
        return s

    def global_mutations(self) -> List[MutRec]:
        """mutation records of this function whose target is (or has escaped into) a module-level object"""
        out = []
        for m in self.muts:
            if m.target[0] == "G":
                out.append(m)
            elif m.target[0] in ("A", "R"):
                for t in self.escaped_to.get(m.target, ()):
                    if t[0] == "G":
                        out.append(MutRec(("G", t[1], min(t[2] + 1, 2)), m.kind + " (object stored in shared state)", m.origin_func,
                                          m.origin_line, m.origin_text, m.chain))
        return out


class Effects:
    def __init__(self, model: Model):
        self.model = model
        self.summaries: Dict[str, Summary] = {}
        self.analyses: Dict[str, FuncAnalysis] = {}
        self._imm_cache: Dict[str, bool] = {}
        self.rounds = 0
        self.class_mutables: Dict[str, Set[AO]] = self._class_mutables()
        self._solve()

    def _class_mutables(self) -> Dict[str, Set[AO]]:
        """attribute name -> the objects created ONCE in a class body (`pending = deque()`, `cache: Dict = {}`) and therefore shared by
        every instance that does not re-bind the attribute: reading `self.pending` / `plan.pending` may yield that object.  An
        attribute that some method of the class assigns through `self.<attr> = ...` is an instance attribute and is left out."""
        out: Dict[str, Set[AO]] = {}
        for cq, ci in self.model.classes.items():
            rebound = {t.attr for n in ast.walk(ci.node) if isinstance(n, (ast.Assign, ast.AnnAssign, ast.AugAssign))
                       for t in (n.targets if isinstance(n, ast.Assign) else [n.target])
                       if isinstance(t, ast.Attribute) and isinstance(t.value, ast.Name) and t.value.id in ("self", "cls")}
            for st in ci.node.body:
                if isinstance(st, (ast.Assign, ast.AnnAssign)) and st.value is not None:
                    d = st.value
                    mutable = isinstance(d, (ast.List, ast.Dict, ast.Set, ast.ListComp, ast.DictComp, ast.SetComp)) or \
                        (isinstance(d, ast.Call) and isinstance(d.func, ast.Name) and
                         d.func.id in ("list", "dict", "set", "bytearray", "defaultdict", "OrderedDict", "deque", "Counter"))
                    if not mutable:
                        continue
                    for t in (st.targets if isinstance(st, ast.Assign) else [st.target]):
                        if isinstance(t, ast.Name) and t.id not in rebound and not (t.id.startswith("__") and t.id.endswith("__")):
                            out.setdefault(t.id, set()).add(("G", f"<class attribute {cq}.{t.id}>", 0))
        return out

    # -- classification of module-level objects -------------------------------------------------
    def is_instance_object(self, qual: str) -> bool:
        """module-level singleton (or a field of one that is itself an instance of a repository class)"""
        if qual in self.model.var_class:
            return True
        if "." in qual:
            base, attr = qual.rsplit(".", 1)
            cq = self.object_class(base)
            if cq:
                for k in self.model.mro(cq):
                    if attr in self.model.classes[k].fields:
                        return True
        return False

    def object_class(self, qual: str) -> Optional[str]:
        if qual in self.model.var_class:
            return self.model.var_class[qual]
        if "." in qual:
            base, attr = qual.rsplit(".", 1)
            cq = self.object_class(base)
            if cq:
                for k in self.model.mro(cq):
                    if attr in self.model.classes[k].fields:
                        return self.model.classes[k].fields[attr]
        return None

    def is_singleton_class(self, cq: str) -> bool:
        for k in self.model.mro(cq):
            ci = self.model.classes.get(k)
            if ci is None:
                continue
            for st in ci.node.body:
                if isinstance(st, ast.FunctionDef) and st.name == "__new__":
                    first = st.args.args[0].arg if st.args.args else "cls"
                    for n in ast.walk(st):
                        if isinstance(n, ast.Assign) and any(isinstance(t, ast.Attribute) and isinstance(t.value, ast.Name) and t.value.id in (first, ci.node.name)
                                                             for t in n.targets):
                            return True
        return False

    def is_defaultdict_var(self, qual: str) -> bool:
        bd = self.model.module_vars.get(qual)
        v = bd.node if bd is not None else None
        return isinstance(v, ast.Call) and core.src(v.func).split(".")[-1] == "defaultdict"

    def is_immutable_var(self, qual: str) -> bool:
        if qual in self._imm_cache:
            return self._imm_cache[qual]
        self._imm_cache[qual] = False      # cycles: assume mutable
        bd = self.model.module_vars.get(qual)
        res = False
        if bd is not None and bd.node is not None:
            res = self._imm_expr(bd.node, qual.rsplit(".", 1)[0])
            # every later assignment to the same name must be immutable too
            rel = bd.rel
            mq = qual.rsplit(".", 1)[0]
            nm = qual.rsplit(".", 1)[1]
            for n in self.model.sources.trees[rel].body:
                if isinstance(n, (ast.Assign, ast.AnnAssign)) and n.value is not None:
                    tgs = n.targets if isinstance(n, ast.Assign) else [n.target]
                    if any(isinstance(t, ast.Name) and t.id == nm for t in tgs):
                        res = res and self._imm_expr(n.value, mq)
        self._imm_cache[qual] = res
        return res

    def _imm_expr(self, e: ast.expr, mq: str) -> bool:
        if isinstance(e, ast.Constant):
            return True
        if isinstance(e, ast.Tuple):
            return all(self._imm_expr(x, mq) for x in e.elts)
        if isinstance(e, (ast.UnaryOp,)):
            return self._imm_expr(e.operand, mq)
        if isinstance(e, ast.BinOp):
            return self._imm_expr(e.left, mq) and self._imm_expr(e.right, mq) and not isinstance(e.op, ast.Add) or \
                (isinstance(e.op, ast.Add) and self._imm_expr(e.left, mq) and self._imm_expr(e.right, mq))
        if isinstance(e, ast.Name):
            bd = self.model.scopes[mq].get(e.id)
            if bd is None:
                return e.id in ("True", "False", "None")
            if bd.kind == "var":
                return self.is_immutable_var(bd.target)
            return bd.kind in ("func", "class", "module", "external")
        if isinstance(e, ast.Attribute):
            bd = self.model.resolve_expr_binding(e, mq)
            if bd is not None and bd.kind == "var":
                return self.is_immutable_var(bd.target)
            return bd is not None and bd.kind in ("external", "func", "class", "module")
        if isinstance(e, ast.Subscript):
            return self._imm_expr(e.value, mq)
        if isinstance(e, ast.Call):
            bd = self.model.resolve_expr_binding(e.func, mq) if isinstance(e.func, (ast.Name, ast.Attribute)) else None
            if bd is not None and bd.kind == "external":
                if bd.target in ("typing.cast",) and len(e.args) == 2:
                    return self._imm_expr(e.args[1], mq)
                if bd.target.startswith("math.") or bd.target in ("typing.NewType", "typing.TypeVar"):
                    return True
                return True if bd.target.startswith("typing.") else False
            if bd is not None and bd.kind == "func":
                ret = self.model.funcs[bd.target].node.returns
                t = core.src(ret).strip("'\"") if ret is not None else ""
                return t in IMM_ANNOT or t in IMM_TUPLE_ANNOT
            if bd is None and isinstance(e.func, ast.Name) and e.func.id in ("float", "int", "str", "bool", "abs", "round", "len", "max", "min", "sum"):
                return True
            return False
        if isinstance(e, ast.IfExp):
            return self._imm_expr(e.body, mq) and self._imm_expr(e.orelse, mq)
        if isinstance(e, (ast.Compare, ast.BoolOp, ast.JoinedStr)):
            return True
        return False

    # -- solving ---------------------------------------------------------------------------------
    def _solve(self) -> None:
        order = self._postorder()
        for fq in order:
            self.summaries[fq] = Summary()
        for rnd in range(8):
            self.rounds = rnd + 1
            changed = False
            for fq in order:
                fa = FuncAnalysis(self, self.model.funcs[fq])
                fa.run()
                s = fa.summary()
                if s.key() != self.summaries[fq].key():
                    changed = True
                self.summaries[fq] = s
                self.analyses[fq] = fa
            if not changed:
                break

    def _postorder(self) -> List[str]:
        seen: Set[str] = set()
        out: List[str] = []

        def visit(f: str):
            if f in seen:
                return
            seen.add(f)
            for cs in self.model.calls.get(f, []):
                for c in cs.callees:
                    visit(c)
            out.append(f)
        import sys
        sys.setrecursionlimit(max(sys.getrecursionlimit(), 5000))
        for f in sorted(self.model.funcs):
            visit(f)
        return out
