"""Per-property freshness / no-carry-over clauses, decided with the same heap model as C16/C17 (sa/model.py, sa/effects.py).

Each clause is a necessary condition of the property that uses it and nothing more:

  fresh_result     the object a function returns is allocated in the call (not a module-level or memoised object), so a caller
                   that edits an earlier result cannot change what a later call returns;
  grows_shared     no list owned by module-level state or by a memo is grown (append / extend / insert / +=) from the call tree
                   of a function, so the number of elements it hands out does not depend on earlier calls;
  keeps_arguments  the function does not store into the objects passed to it.

Thread-only defects do not fire these (no read-modify-write is needed for them; they are C16's)."""
from __future__ import annotations

from typing import List, Optional, Tuple

from . import core
from .shared_state import World

_WORLDS = {}


def world(ctx) -> World:
    w = _WORLDS.get(id(ctx))
    if w is None:
        w = _WORLDS[id(ctx)] = World(ctx)
    return w


def _resolve(w, func: str) -> str:
    """the qualified name under which the function is DEFINED (a module may only re-export it)"""
    if func in w.model.funcs:
        return func
    mod, _, name = func.rpartition(".")
    for _ in range(4):
        bd = w.model.scopes.get(mod, {}).get(name)
        if bd is None or bd.kind != "func":
            break
        if bd.target in w.model.funcs:
            return bd.target
        mod, _, name = bd.target.rpartition(".")
    return func


def fresh_result(ctx, rule: str, func: str, what: str) -> None:
    w = world(ctx)
    func = _resolve(w, func)
    fi = w.model.funcs.get(func)
    if fi is None:
        raise core.AnalysisError(f"anchor {func} not found")
    where = f"{fi.rel}:{fi.node.lineno}"
    for f, d in w.model.unknown_decorators():
        if f == func:
            ctx.unk(rule, f"{func} is wrapped by the decorator @{d}", where, f"what the wrapper returns is not modelled; whether {what} is allocated per call is not decided")
            return
    s = w.eff.summaries[func]
    from .effects import IMM_ANNOT, IMM_TUPLE_ANNOT
    ann = core.src(fi.node.returns).strip("'\"") if fi.node.returns is not None else ""
    imm_result = ann in IMM_ANNOT or ann in IMM_TUPLE_ANNOT
    # the returned value is a module-level object or a component of one (`return TABLE[key]`), and the declared result type is
    # not an immutable one
    shared = sorted((n for n in s.ret if n[0] == "G" and (n[2] == 0 or (not imm_result and ann))), key=lambda n: (n[2], str(n)))
    if shared:
        ctx.bad(rule, f"{func} returns the shared object {shared[0][1]}", where,
                f"{what} is handed out by reference: a caller that edits it changes what every later call returns")
    else:
        ctx.ok(rule, f"{func} returns an object allocated in the call", where, f"returned nodes {sorted(map(str, s.ret))[:4]}")


GROWTH = ("method:append", "method:extend", "method:insert", "aug-assign", "method:pop", "method:remove", "method:clear", "del")


def grows_shared(ctx, rule: str, func: str, what: str, within=None) -> None:
    """no list that outlives the call is grown or shrunk from the call tree of func (verified cache fills aside); `within`
    restricts the statements looked at to those functions (the ones whose lists make up the result)"""
    from .rules_C16 import classify
    w = world(ctx)
    func = _resolve(w, func)
    fi = w.model.funcs.get(func)
    if fi is None:
        raise core.AnalysisError(f"anchor {func} not found")
    where = f"{fi.rel}:{fi.node.lineno}"
    rec = core.Recorder(ctx)
    caches, counters, bad = classify(rec, w, threads=False)
    reach = w.model.reachable([func])
    hits = []
    for sw in bad:
        if sw.owner not in reach and sw.origin_func not in reach:
            continue
        if within is not None and sw.origin_func not in within:
            continue
        for k in sw.kinds:
            base = k.split(" (")[0]
            if "(object stored in shared state)" in k:
                continue
            if base in GROWTH:
                hits.append((sw, base))
    if hits:
        sw, base = hits[0]
        ctx.bad(rule, f"{func}: the shared object {sw.name} changes size in {sw.origin_func}", f"{w.rel_of(sw.origin_func)}:{sw.origin_line}",
                f"`{sw.origin_text}` ({base}) changes the length of an object that outlives the call: {what} depends on the calls made before")
    else:
        ctx.ok(rule, f"{func}: no list that outlives the call changes size in its call tree", where,
               f"{len(reach)} functions reachable" + (f", {len(within)} of them build the result" if within is not None else "") + f"; shared writes examined: {len(bad)}")


def keeps_arguments(ctx, rule: str, func: str, what: str) -> None:
    w = world(ctx)
    func = _resolve(w, func)
    fi = w.model.funcs.get(func)
    if fi is None:
        raise core.AnalysisError(f"anchor {func} not found")
    where = f"{fi.rel}:{fi.node.lineno}"
    s = w.eff.summaries[func]
    pm = sorted({(t, k, of, ol, ot) for t, k, of, ol, ot, _ in s.mut}, key=str)
    if pm:
        t, k, of, ol, ot = pm[0]
        pname = fi.params[t[1]] if t[1] < len(fi.params) else f"#{t[1]}"
        ctx.bad(rule, f"{func} modifies its argument `{pname}`", f"{w.rel_of(of)}:{ol}", f"`{ot}` in {of} ({k}): {what}")
    else:
        ctx.ok(rule, f"{func} does not modify its arguments", where, "no mutation of a parameter region in its transitive summary")


def no_stale_defaults(ctx, rule: str, func: str, what: str) -> None:
    """`func` itself does not read a slot of a module-level options / defaults object that an earlier call of `func` has
    overwritten with a value derived from that call's arguments (the C17.1 stale-slot finding, restricted to this function)."""
    from .codec import OriginModel
    from .rules_C17 import check_shared_writes
    w = world(ctx)
    func = _resolve(w, func)
    fi = w.model.funcs.get(func)
    if fi is None:
        raise core.AnalysisError(f"anchor {func} not found")
    where = f"{fi.rel}:{fi.node.lineno}"
    rec = core.Recorder(ctx)
    check_shared_writes(rec, w, OriginModel(ctx.sources))
    hits = [o for o in rec.obligations if o.state == core.VIOLATED and "carries a value from one call into the next" in o.construct
            and func in set(o.extra.get("owners", ()))]
    for o in hits:
        ctx.bad(rule, o.construct, o.where, o.detail + f" -- so {what} depends on the calls made before")
    if not hits:
        ctx.ok(rule, f"{func} reads no module-level slot that an earlier call of it has overwritten with an argument-derived value", where,
               f"{len(rec.obligations)} shared-state obligations examined (see C17 for each)")


def no_stale_memo(ctx, rule: str, funcs: List[str], what: str) -> None:
    """No function in the call trees of `funcs` answers from a memo / cache / slot that can hold a value computed for a
    DIFFERENT argument (incomplete or non-injective cache key, one-slot memo compared on part of its input, keyed memo read and
    written under different keys).  These are the C17.1/C17.2 findings with a definite witness of the key defect, restricted to
    the functions this property observes; undecided memo idioms are reported as undecided."""
    from .codec import OriginModel
    from .rules_C17 import check_shared_writes
    w = world(ctx)
    funcs = [_resolve(w, f) for f in funcs]
    for f in funcs:
        if f not in w.model.funcs:
            raise core.AnalysisError(f"anchor {f} not found")
    reach = set(w.model.reachable(funcs))
    fi = w.model.funcs[funcs[0]]
    where = f"{fi.rel}:{fi.node.lineno}"
    for f, d in w.model.unknown_decorators():
        if f in reach:
            ctx.unk(rule, f"{f} is wrapped by the decorator @{d}", f"{w.rel_of(f)}:{w.model.funcs[f].node.lineno}",
                    f"what the wrapper remembers between calls is not modelled: whether {what} depends only on the arguments is not decided")
    rec = core.Recorder(ctx)
    check_shared_writes(rec, w, OriginModel(ctx.sources))
    n = 0
    for o in rec.obligations:
        owners = set(o.extra.get("owners", ()))
        if not (owners & reach):
            continue
        n += 1
        stale = o.rule == "C17.2" or "remembered for a different argument" in o.construct or "carries history into results" in o.construct
        if o.state == core.VIOLATED and stale:
            ctx.bad(rule, o.construct, o.where, o.detail + f" -- so {what} is not a function of the arguments alone")
        elif o.state == core.UNDECIDED and not o.construct.startswith("shared buffer"):
            ctx.unk(rule, o.construct, o.where, o.detail)
    ctx.ok(rule, f"{', '.join(f.rsplit('.', 1)[-1] for f in funcs)}: no memo with a defective key in the call tree", where,
           f"{len(reach)} functions reachable, {n} shared-state obligations examined (see C17 for each)")
