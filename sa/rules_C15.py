"""C15 -- geodetic <-> authalic latitude conversion is accurate and invertible.

The code is a fixed polynomial in sin(phi), cos(phi) with literal coefficients, so its value at EVERY latitude is
determined by two things visible in the source: which polynomial it is (C15.1, exact normal-form comparison in
Q[s, c, C0..C5]/(s^2 + c^2 - 1)) and what the coefficients are (C15.2, comparison with the Fourier coefficients of the
exact WGS84 authalic latitude computed by mpmath from its definition -- mpmath never sees repository code)."""
from __future__ import annotations

import ast
import math
import os
import sys
from fractions import Fraction
from typing import Any, Dict, List, Optional, Tuple

from . import core

AUTH = "a5/projections/authalic.py"
CT = "a5/core/coordinate_transforms.py"
MPMATH_WHEEL = "/opt/veriftools/wheels/mpmath-1.3.0-py3-none-any.whl"
WGS84_INVF = "298.257223563"
TABLE_TOL = 1e-13          # sum |literal_k - c_k| + sum_{k>6} |c_k|, per table (rad)


# ---------------------------------------------------------------------------------
# E6: polynomials in s = sin(phi), c = cos(phi), phi, C0..Cn with s^2 -> 1 - c^2
# ---------------------------------------------------------------------------------

class TP:
    """sparse polynomial: {((sym, power), ...): Fraction}; normal form has power(s) <= 1"""

    def __init__(self, t=None):
        self.t: Dict[tuple, Fraction] = {}
        for k, v in (t or {}).items():
            if v != 0:
                self.t[k] = self.t.get(k, Fraction(0)) + Fraction(v)
        self.t = {k: v for k, v in self.t.items() if v != 0}

    @staticmethod
    def const(c) -> "TP":
        return TP({(): Fraction(c)})

    @staticmethod
    def sym(name: str) -> "TP":
        return TP({((name, 1),): Fraction(1)})

    def __add__(self, o: "TP") -> "TP":
        t = dict(self.t)
        for k, v in o.t.items():
            t[k] = t.get(k, Fraction(0)) + v
        return TP(t)

    def __neg__(self):
        return TP({k: -v for k, v in self.t.items()})

    def __sub__(self, o):
        return self + (-o)

    def __mul__(self, o: "TP") -> "TP":
        t: Dict[tuple, Fraction] = {}
        for k1, v1 in self.t.items():
            for k2, v2 in o.t.items():
                d = dict(k1)
                for s, p in k2:
                    d[s] = d.get(s, 0) + p
                k = tuple(sorted(d.items()))
                t[k] = t.get(k, Fraction(0)) + v1 * v2
        return TP(t).reduce()

    def reduce(self) -> "TP":
        """s^2 -> 1 - c^2 until power(s) <= 1"""
        cur = self
        while True:
            out: Dict[tuple, Fraction] = {}
            changed = False
            for k, v in cur.t.items():
                d = dict(k)
                ps = d.get("s", 0)
                if ps >= 2:
                    changed = True
                    d["s"] = ps - 2
                    if d["s"] == 0:
                        del d["s"]
                    k1 = tuple(sorted(d.items()))
                    out[k1] = out.get(k1, Fraction(0)) + v
                    d2 = dict(d)
                    d2["c"] = d2.get("c", 0) + 2
                    k2 = tuple(sorted(d2.items()))
                    out[k2] = out.get(k2, Fraction(0)) - v
                else:
                    out[k] = out.get(k, Fraction(0)) + v
            cur = TP(out)
            if not changed:
                return cur

    def __eq__(self, o):
        return isinstance(o, TP) and self.reduce().t == o.reduce().t

    def __repr__(self):
        if not self.t:
            return "0"
        return " + ".join(f"{v}*" + "*".join(f"{s}^{p}" for s, p in k) if k else str(v) for k, v in sorted(self.t.items())[:8]) + \
            (" + ..." if len(self.t) > 8 else "")


def residual_bound(res: "TP", lit: List[float]) -> float:
    """sup bound of |res| over all phi, using |s|, |c| <= 1, |phi| <= pi/2 and the literal coefficients"""
    total = 0.0
    for k, v in res.t.items():
        m = abs(float(v))
        for sym, p in k:
            if sym.startswith("C"):
                i = int(sym[1:])
                m *= abs(lit[i]) ** p if i < len(lit) else float("inf")
            elif sym == "phi":
                m *= (math.pi / 2) ** p
        total += m
    return total


WITNESS_POINTS = ((Fraction(3, 5), Fraction(4, 5)), (Fraction(5, 13), Fraction(12, 13)), (Fraction(8, 17), Fraction(15, 17)),
                  (Fraction(7, 25), Fraction(24, 25)), (Fraction(20, 29), Fraction(21, 29)), (Fraction(4, 5), Fraction(3, 5)),
                  (Fraction(12, 13), Fraction(5, 13)), (Fraction(9, 41), Fraction(40, 41)), (Fraction(28, 53), Fraction(45, 53)))


def residual_at(res: "TP", lit: List[float], sn: Fraction, cn: Fraction) -> Optional[Fraction]:
    phi = Fraction(math.atan2(float(sn), float(cn)))
    tot = Fraction(0)
    for k, v in res.t.items():
        m = Fraction(v)
        for sym, p in k:
            if sym == "s":
                m *= sn ** p
            elif sym == "c":
                m *= cn ** p
            elif sym == "phi":
                m *= phi ** p
            elif sym.startswith("C"):
                i = int(sym[1:])
                if i >= len(lit):
                    return None
                m *= Fraction(lit[i]) ** p
        tot += m
    return tot


def residual_lipschitz(res: "TP", lit: List[float]) -> float:
    """crude bound of |d res / d phi|"""
    total = 0.0
    for k, v in res.t.items():
        m = abs(float(v))
        deg = 0
        for sym, p in k:
            if sym.startswith("C"):
                i = int(sym[1:])
                m *= abs(lit[i]) ** p if i < len(lit) else float("inf")
            elif sym in ("s", "c"):
                deg += p
            elif sym == "phi":
                m *= (math.pi / 2) ** p
                deg += p
        total += m * max(deg, 1)
    return total


def roundtrip_witness(res: "TP", lit_f: List[float], lit_i: List[float]):
    """a latitude at which the structural residuals alone push inverse(forward(phi)) - phi beyond 1e-12.
    The round-trip error is R_i(xi) + I'(.) R_f(phi) with xi = forward(phi) and |I' - 1| <= 5e-3; the extracted residual
    polynomial is evaluated in exact rational arithmetic at the double values of sin/cos (they miss the unit circle by
    1e-16, which changes a residual of size 1e-8 * |C| by less than 1e-22)."""
    for i in range(1, 90):
        phi = math.radians(i)
        sn, cn = Fraction(math.sin(phi)), Fraction(math.cos(phi))
        rf = residual_at(res, lit_f, sn, cn)
        xi = phi + sum(c * math.sin(2 * (k + 1) * phi) for k, c in enumerate(lit_f))
        ri = residual_at(res, lit_i, Fraction(math.sin(xi)), Fraction(math.cos(xi)))
        if rf is None or ri is None:
            return None
        tot = abs(float(rf + ri))
        slack = 5e-3 * abs(float(rf)) + 2e-13
        if tot - slack > 1e-12:
            return (f"{math.sin(phi):.6f}", f"{math.cos(phi):.6f}"), float(rf), float(ri), slack
    return None


def eval_tp(res: "TP", lit: List[float], sn: Fraction, cn: Fraction, phi: Fraction) -> Optional[Fraction]:
    """the extracted polynomial at given values of s, c, phi and the literal table, in exact rational arithmetic"""
    tot = Fraction(0)
    for k, v in res.t.items():
        m = Fraction(v)
        for sym, p in k:
            if sym == "s":
                m *= sn ** p
            elif sym == "c":
                m *= cn ** p
            elif sym == "phi":
                m *= phi ** p
            elif sym.startswith("C"):
                i = int(sym[1:])
                if i >= len(lit):
                    return None
                m *= Fraction(lit[i]) ** p
            else:
                return None
        tot += m
    return tot


def sqrt_cos_witness(ret: "TP", lit_f: List[float], lit_i: List[float]):
    """C15.11: the evaluator takes cos(phi) as sqrt(1 - sin(phi)**2).  Near a pole sin(phi)**2 is within a few ulp of 1 and the
    subtraction keeps only the rounding error of the square: the absolute error of the 'cosine' grows like 1e-16 / cos(phi).
    The checker evaluates ITS OWN extracted polynomial (exact rational arithmetic) at the doubles the code would hand to it --
    s = sin(phi) and c = sqrt(1 - s*s), both computed with the checker's math library -- for forward and then inverse, and
    compares the round trip with the 1e-12 clause; the same computation with c = cos(phi) must stay within the clause, so that the
    difference is the substitution's and not the series'.  -> (phi, error with sqrt, error with cos) or None."""
    def once(lit, x, alt: bool) -> Optional[float]:
        sn = math.sin(x)
        cn = math.sqrt(1.0 - sn * sn) if alt else math.cos(x)
        v = eval_tp(ret, lit, Fraction(sn), Fraction(cn), Fraction(x))
        return None if v is None else float(v)
    worst = None
    for k in range(4, 10):
        for m in (1.0, 1.82, 3.3, 5.7):
            phi = math.pi / 2 - m * 10.0 ** -k
            xi_a, xi_t = once(lit_f, phi, True), once(lit_f, phi, False)
            if xi_a is None or xi_t is None:
                return None
            back_a, back_t = once(lit_i, xi_a, True), once(lit_i, xi_t, False)
            if back_a is None or back_t is None:
                return None
            err_a, err_t = abs(back_a - phi), abs(back_t - phi)
            if err_t <= 5e-13 and err_a > 1e-12 + 1e-13 and (worst is None or err_a > worst[1]):
                worst = (phi, err_a, err_t)
    return worst


def residual_witness(res: "TP", lit: List[float]):
    """a latitude (given by a rational point on the unit circle) at which |res| > 1e-10, evaluated exactly"""
    for sn, cn in ((Fraction(3, 5), Fraction(4, 5)), (Fraction(5, 13), Fraction(12, 13)), (Fraction(8, 17), Fraction(15, 17)),
                   (Fraction(7, 25), Fraction(24, 25)), (Fraction(20, 29), Fraction(21, 29)), (Fraction(4, 5), Fraction(3, 5))):
        phi = Fraction(math.atan2(float(sn), float(cn)))
        tot = Fraction(0)
        for k, v in res.t.items():
            m = Fraction(v)
            for sym, p in k:
                if sym == "s":
                    m *= sn ** p
                elif sym == "c":
                    m *= cn ** p
                elif sym == "phi":
                    m *= phi ** p
                elif sym.startswith("C"):
                    i = int(sym[1:])
                    if i >= len(lit):
                        return None
                    m *= Fraction(lit[i]) ** p
            tot += m
        if abs(float(tot)) > 1e-10:
            return (sn, cn), float(tot)
    return None


def reference_series(n: int) -> TP:
    """phi + sum_{k=1..n} C_{k-1} * sin(2 k phi), expanded in s, c by the angle-addition recurrence"""
    s, c = TP.sym("s"), TP.sym("c")
    sin2 = TP.const(2) * s * c
    cos2 = c * c - s * s
    sk, ck = sin2, cos2           # sin(2k phi), cos(2k phi) for k = 1
    total = TP.sym("phi")
    for k in range(1, n + 1):
        total = total + TP.sym(f"C{k - 1}") * sk
        sk, ck = (sk * cos2 + ck * sin2), (ck * cos2 - sk * sin2)
    return total.reduce()


class SeriesBody:
    """straight-line interpretation of _apply_coefficients into a TP, plus a parity analysis; helper methods of the same
    class are inlined and `self.<attr>` values written by them are tracked like locals"""

    def __init__(self, fn: ast.FunctionDef, methods: Optional[Dict[str, ast.FunctionDef]] = None,
                 module_funcs: Optional[Dict[str, ast.FunctionDef]] = None, module_consts: Optional[Dict[str, float]] = None):
        self.fn = fn
        self.methods = methods or {}
        self.module_funcs = module_funcs or {}
        self.module_consts = module_consts or {}
        self.premaps: List[tuple] = []     # input normalisations  phi = f(phi): (threshold, snapped value, strict?, node)
        self.depth = 0
        self.pieces: List[tuple] = []      # small-angle shortcuts: (bound, other conditions, slope expression, node)
        params = [a.arg for a in fn.args.args]
        if params and params[0] == "self":
            params = params[1:]
        if len(params) != 2:
            raise core.AnalysisError(f"{fn.name}: expected (phi, coefficients) parameters, found {params}")
        self.phi, self.C = params
        self.env: Dict[str, TP] = {self.phi: TP.sym("phi")}
        self.parity: Dict[str, str] = {self.phi: "odd"}
        self.max_index = -1
        self.problem: Optional[str] = None
        self.ret: Optional[TP] = None
        self.ret_parity: Optional[str] = None
        self.ret_node: Optional[ast.AST] = None
        self._run()

    def _run(self):
        r = self._block(self.fn.body, top=True)
        if r is None and not self.problem and self.ret is None:
            self.problem = "no return statement"

    def _block(self, stmts, top=False):
        """-> value of a `return` (TP, parity) or None"""
        for st in stmts:
            if isinstance(st, ast.Expr) and isinstance(st.value, ast.Constant):
                continue
            if isinstance(st, ast.Expr) and isinstance(st.value, ast.Call):
                if self.ev(st.value, allow_none=True) is None and self.problem:
                    return None
                continue
            if isinstance(st, (ast.Assign, ast.AnnAssign)) and (isinstance(st, ast.AnnAssign) or len(st.targets) == 1):
                tgt = st.targets[0] if isinstance(st, ast.Assign) else st.target
                if st.value is None:
                    continue
                name = tgt.id if isinstance(tgt, ast.Name) else (f"self.{tgt.attr}" if isinstance(tgt, ast.Attribute) and core.src(tgt.value) == "self" else None)
                if top and name == self.phi and self._premap(st.value, st):
                    continue
                if name is not None:
                    v = self.ev(st.value)
                    if v is None:
                        return None
                    self.env[name] = v[0]
                    self.parity[name] = v[1]
                    continue
            if isinstance(st, ast.Return):
                if st.value is None:
                    return (TP.const(0), "zero")
                v = self.ev(st.value)
                if v is None:
                    return None
                if top:
                    self.ret, self.ret_parity, self.ret_node = v[0].reduce(), v[1], st
                return v
            if isinstance(st, ast.If) and top and not st.orelse and len(st.body) == 1 and isinstance(st.body[0], ast.Return) and st.body[0].value is not None:
                piece = self._small_angle_piece(st)
                if piece is not None:
                    self.pieces.append(piece)
                    continue
            self.problem = f"statement `{core.src(st)[:60]}` is not a plain assignment, helper call or return"
            return None
        return None

    def _premap(self, value: ast.expr, st: ast.stmt) -> bool:
        """`phi = f(phi)` with a module-level f of the clamp / snap form
               if abs(x) >= A: return copysign(B, x)      [or  > A]
               return x
        is recorded as an input normalisation (identity below the threshold) and phi keeps its meaning"""
        e = value
        while isinstance(e, ast.Call) and core.src(e.func) == "cast" and len(e.args) == 2:
            e = e.args[1]
        if not (isinstance(e, ast.Call) and isinstance(e.func, ast.Name) and e.func.id in self.module_funcs and len(e.args) == 1
                and isinstance(e.args[0], ast.Name) and e.args[0].id == self.phi and not e.keywords):
            return False
        f = self.module_funcs[e.func.id]
        if len(f.args.args) != 1:
            return False
        x = f.args.args[0].arg
        body = [b for b in f.body if not (isinstance(b, ast.Expr) and isinstance(b.value, ast.Constant))]
        if not (len(body) == 2 and isinstance(body[0], ast.If) and not body[0].orelse and len(body[0].body) == 1 and isinstance(body[0].body[0], ast.Return)
                and isinstance(body[1], ast.Return)):
            return False
        def strip(v):
            while isinstance(v, ast.Call) and core.src(v.func) == "cast" and len(v.args) == 2:
                v = v.args[1]
            return v
        if not (isinstance(strip(body[1].value), ast.Name) and strip(body[1].value).id == x):
            return False
        t = body[0].test
        if not (isinstance(t, ast.Compare) and len(t.ops) == 1 and isinstance(t.ops[0], (ast.GtE, ast.Gt)) and isinstance(t.left, ast.Call)
                and core.src(t.left.func) in ("abs", "math.fabs") and len(t.left.args) == 1 and core.src(t.left.args[0]) == x):
            return False
        thr = fold_const(t.comparators[0], self.module_consts)
        r = strip(body[0].body[0].value)
        if not (isinstance(r, ast.Call) and core.src(r.func) in ("math.copysign", "copysign") and len(r.args) == 2 and core.src(r.args[1]) == x):
            return False
        snap = fold_const(r.args[0], self.module_consts)
        if thr is None or snap is None:
            return False
        self.premaps.append((thr, snap, isinstance(t.ops[0], ast.Gt), st, f.name))
        return True

    def _small_angle_piece(self, st: ast.If):
        """`if abs(phi) < T [and other conditions]: return phi * X`  ->  (T expression, other conditions, X expression, node);
        None if the statement is not of that form"""
        tests = st.test.values if isinstance(st.test, ast.BoolOp) and isinstance(st.test.op, ast.And) else [st.test]
        bound, others = None, []
        for t in tests:
            if isinstance(t, ast.Compare) and len(t.ops) == 1 and isinstance(t.ops[0], (ast.Lt, ast.LtE)) and isinstance(t.left, ast.Call) \
                    and core.src(t.left.func) in ("abs", "math.fabs") and len(t.left.args) == 1 and isinstance(t.left.args[0], ast.Name) \
                    and t.left.args[0].id == self.phi:
                bound = t.comparators[0]
            else:
                others.append(t)
        if bound is None:
            return None
        e = st.body[0].value
        while isinstance(e, ast.Call) and core.src(e.func) == "cast" and len(e.args) == 2:
            e = e.args[1]
        if not (isinstance(e, ast.BinOp) and isinstance(e.op, ast.Mult)):
            return None
        for a, b in ((e.left, e.right), (e.right, e.left)):
            if isinstance(a, ast.Name) and a.id == self.phi and not any(isinstance(n, ast.Name) and n.id == self.phi for n in ast.walk(b)) \
                    and not any(isinstance(n, ast.Call) and core.src(n.func) in ("math.sin", "math.cos", "sin", "cos") for n in ast.walk(b)):
                return (bound, others, b, st)
        return None

    def _inline(self, name: str, args: List[ast.expr]):
        fn = self.methods.get(name)
        if fn is None or self.depth > 3:
            self.problem = f"helper method {name} not found"
            return None
        params = [a.arg for a in fn.args.args][1:]
        vals = []
        for a in args:
            if isinstance(a, ast.Name) and a.id == self.C:
                vals.append((TP.const(0), "even"))     # the coefficient table itself: only ever subscripted
                continue
            v = self.ev(a)
            if v is None:
                return None
            vals.append(v)
        saved_env, saved_par = dict(self.env), dict(self.parity)
        saved_phi, saved_C = self.phi, self.C
        for p_, a, v in zip(params, args, vals):
            self.env[p_] = v[0]
            self.parity[p_] = v[1]
            # the coefficient table keeps its role when handed on under another name
            if isinstance(a, ast.Name) and a.id == saved_C:
                self.C = p_
            if isinstance(a, ast.Name) and a.id == saved_phi:
                self.phi = p_
        self.depth += 1
        try:
            r = self._block(fn.body)
        finally:
            self.depth -= 1
            self.phi, self.C = saved_phi, saved_C
            # locals of the helper disappear, instance attributes stay
            for k in list(self.env):
                if not k.startswith("self.") and k not in saved_env:
                    del self.env[k]
            for k, v in saved_env.items():
                if not k.startswith("self."):
                    self.env[k] = v
                    self.parity[k] = saved_par[k]
        return r

    @staticmethod
    def _par_mul(a: str, b: str) -> str:
        if "none" in (a, b):
            return "none"
        return "even" if a == b else "odd"

    @staticmethod
    def _par_add(a: str, b: str) -> str:
        if a == "zero":
            return b
        if b == "zero":
            return a
        return a if a == b else "none"

    def ev(self, e: ast.expr, allow_none: bool = False) -> Optional[Tuple[TP, str]]:
        if isinstance(e, ast.Attribute) and core.src(e.value) == "self":
            k = f"self.{e.attr}"
            if k in self.env:
                return self.env[k], self.parity[k]
            self.problem = f"instance attribute {k} read before it is computed from the argument (value of an earlier call?)"
            return None
        if isinstance(e, ast.Call) and isinstance(e.func, ast.Attribute) and core.src(e.func.value) == "self" and e.func.attr in self.methods:
            r = self._inline(e.func.attr, e.args)
            if r is None and allow_none and not self.problem:
                return (TP.const(0), "zero")
            return r
        if isinstance(e, ast.Constant) and isinstance(e.value, (int, float)) and not isinstance(e.value, bool):
            return TP.const(Fraction(e.value)), "even"
        if isinstance(e, ast.Name):
            if e.id in self.env:
                return self.env[e.id], self.parity[e.id]
            self.problem = f"unknown name {e.id}"
            return None
        if isinstance(e, ast.Subscript) and isinstance(e.value, ast.Name) and e.value.id == self.C and isinstance(e.slice, ast.Constant) \
                and isinstance(e.slice.value, int) and e.slice.value >= 0:
            self.max_index = max(self.max_index, e.slice.value)
            return TP.sym(f"C{e.slice.value}"), "even"
        if isinstance(e, ast.Call):
            fn = core.src(e.func)
            if fn in ("math.sin", "sin") and len(e.args) == 1 and isinstance(e.args[0], ast.Name) and e.args[0].id == self.phi:
                return TP.sym("s"), "odd"
            if fn in ("math.cos", "cos") and len(e.args) == 1 and isinstance(e.args[0], ast.Name) and e.args[0].id == self.phi:
                return TP.sym("c"), "even"
            if fn == "cast" and len(e.args) == 2:
                return self.ev(e.args[1])
            if fn in ("math.sqrt", "sqrt") and len(e.args) == 1 and not e.keywords:
                # sqrt(1 - sin(phi)**2): on the latitude domain this IS cos(phi) -- as a real number.  The normal form treats it as c;
                # what the subtraction does in floating point near the poles is judged separately (C15.11)
                saved_problem = self.problem
                inner = self.ev(e.args[0])
                if inner is not None and inner[0] == TP.sym("c") * TP.sym("c"):
                    self.cos_via_sqrt = core.src(e)
                    return TP.sym("c"), "even"
                self.problem = saved_problem
            self.problem = f"call `{core.src(e)[:50]}` is not sin(phi)/cos(phi)"
            return None
        if isinstance(e, ast.UnaryOp) and isinstance(e.op, ast.USub):
            v = self.ev(e.operand)
            return None if v is None else (-v[0], v[1])
        if isinstance(e, ast.BinOp):
            l, r = self.ev(e.left), self.ev(e.right)
            if l is None or r is None:
                return None
            if isinstance(e.op, ast.Add):
                return l[0] + r[0], self._par_add(l[1], r[1])
            if isinstance(e.op, ast.Sub):
                return l[0] - r[0], self._par_add(l[1], r[1])
            if isinstance(e.op, ast.Mult):
                return l[0] * r[0], self._par_mul(l[1], r[1])
            self.problem = f"operator {type(e.op).__name__} in `{core.src(e)[:50]}`"
            return None
        self.problem = f"expression `{core.src(e)[:50]}` not modelled"
        return None


# ---------------------------------------------------------------------------------
# oracle: Fourier coefficients of the exact maps (mpmath)
# ---------------------------------------------------------------------------------

def oracle_tables(digits: int, kmax: int):
    if MPMATH_WHEEL not in sys.path:
        if not os.path.exists(MPMATH_WHEEL):
            raise core.AnalysisError(f"mpmath wheel not found at {MPMATH_WHEEL}")
        sys.path.insert(0, MPMATH_WHEEL)
    import mpmath as mp
    mp.mp.dps = digits
    f = 1 / mp.mpf(WGS84_INVF)
    e2 = f * (2 - f)
    e = mp.sqrt(e2)

    def q(phi):
        s = mp.sin(phi)
        return (1 - e2) * (s / (1 - e2 * s * s) - (1 / (2 * e)) * mp.log((1 - e * s) / (1 + e * s)))
    qp = q(mp.pi / 2)

    def xi(phi):
        r = q(phi) / qp
        return mp.asin(r if r < 1 else mp.mpf(1))

    def dxi(phi):
        s, c = mp.sin(phi), mp.cos(phi)
        dq = 2 * (1 - e2) * c / (1 - e2 * s * s) ** 2
        r = q(phi) / qp
        return dq / (qp * mp.sqrt(1 - r * r))
    pts = [0, mp.pi / 4, mp.pi / 2]
    fwd = [mp.re((4 / mp.pi) * mp.quad(lambda p, k=k: (xi(p) - p) * mp.sin(2 * k * p), pts)) for k in range(1, kmax + 1)]
    # inverse map phi(xi): integrate over phi with the substitution xi = xi(phi) (no numerical inversion needed)
    inv = [mp.re((4 / mp.pi) * mp.quad(lambda p, k=k: (p - xi(p)) * mp.sin(2 * k * xi(p)) * dxi(p), pts)) for k in range(1, kmax + 1)]
    return [float(x) for x in fwd], [float(x) for x in inv], [x for x in fwd], [x for x in inv]


def literal_table(tree: ast.Module, name: str) -> Tuple[Optional[List[float]], Optional[ast.AST]]:
    for n in tree.body:
        if isinstance(n, ast.Assign) and any(isinstance(t, ast.Name) and t.id == name for t in n.targets):
            v = n.value
            if isinstance(v, (ast.Tuple, ast.List)):
                vals = []
                for e in v.elts:
                    neg = False
                    if isinstance(e, ast.UnaryOp) and isinstance(e.op, ast.USub):
                        neg, e = True, e.operand
                    if isinstance(e, ast.Constant) and isinstance(e.value, (int, float)):
                        vals.append(-float(e.value) if neg else float(e.value))
                    else:
                        return None, n
                return vals, n
            return None, n
    return None, None


# ---------------------------------------------------------------------------------

def run(ctx):
    thorough = ctx.tier == "thorough"
    digits, kmax = (50, 12) if thorough else (30, 9)
    ctx.explanation = (
        "C15.1: the body of AuthalicProjection._apply_coefficients is turned into a polynomial in Q[s, c, phi, C0..C5]/(s^2+c^2-1) and "
        "compared (exact rational arithmetic, all phi at once) with the normal form of phi + sum C_{k-1} sin(2k phi). C15.2: the two literal "
        f"tables are compared with the Fourier sine coefficients of the exact WGS84 authalic latitude and of its exact inverse, computed by "
        f"mpmath at {digits} digits from the definition (orders 1..{kmax}); tolerance sum|literal - exact| + sum_(k>6)|exact| <= {TABLE_TOL} per "
        "table. C15.3: wiring of forward/inverse and of from_lonlat/to_lonlat (structural). C15.4-C15.7: error budget, oddness, fixed "
        "points, strict monotonicity and the round-trip bound derived from the literals with a parity domain and explicit bounds.")
    ctx.trusted_base = ["mpmath elementary functions and quadrature", f"WGS84 inverse flattening {WGS84_INVF} typed into the checker",
                        "IEEE-754 doubles; libm sin/cos within 1 ulp and sign-symmetric"]
    tree = ctx.sources.tree(AUTH)
    fn = ctx.sources.func(AUTH, "_apply_coefficients", "AuthalicProjection")
    where = core.loc(AUTH, fn)

    # ---- C15.1 ---------------------------------------------------------------------------------------------
    cls_node = [n for n in tree.body if isinstance(n, ast.ClassDef) and n.name == "AuthalicProjection"]
    methods = {m.name: m for m in cls_node[0].body if isinstance(m, ast.FunctionDef)} if cls_node else {}
    module_funcs = {n.name: n for n in tree.body if isinstance(n, ast.FunctionDef)}
    module_consts: Dict[str, float] = {}
    for n in tree.body:
        if isinstance(n, (ast.Assign, ast.AnnAssign)) and n.value is not None:
            tg = n.targets[0] if isinstance(n, ast.Assign) else n.target
            if isinstance(tg, ast.Name):
                v = fold_const(n.value, module_consts)
                if v is not None:
                    module_consts[tg.id] = v
    # ---- C15.0: the methods analysed are the ones that run (no wrapper that the analysis does not see through) -------------
    from .model import Model as _Model
    from .shared_state import wrapper_memo_collisions
    collided = set()
    for wm, fs in wrapper_memo_collisions(_Model(ctx.sources)):
        mine = [f for f in fs if f.startswith("a5.projections.authalic.AuthalicProjection.")]
        if len(mine) >= 2:
            collided |= {f.rsplit(".", 1)[-1] for f in mine}
            ctx.bad("C15.0", f"{' and '.join(f.rsplit('.', 1)[-1] for f in mine)} share the memo of @{wm.decorator.rsplit('.', 1)[-1]}, keyed by `{wm.key_text}` only", f"{wm.rel}:{wm.line}",
                    f"both conversions store their results in the per-instance attribute {wm.storage[1]!r} under the bare argument: after one direction has been "
                    f"asked for a latitude, the other direction returns that value for the same number (error up to the size of the series, ~4.5e-3 rad)")
    for mname in ("forward", "inverse", "_apply_coefficients"):
        if mname in collided:
            continue
        m_ = methods_of(tree).get(mname)
        if m_ is not None:
            for d in m_.decorator_list:
                dn = core.src(d.func if isinstance(d, ast.Call) else d)
                if dn not in ("staticmethod", "classmethod"):
                    ctx.unk("C15.0", f"AuthalicProjection.{mname} is wrapped by the decorator @{dn}", core.loc(AUTH, m_),
                            "what the wrapper returns (and remembers between calls) is not modelled: the obligations below describe the undecorated body only")
    sb = SeriesBody(fn, methods, module_funcs, module_consts)
    check_result_memo(ctx, methods)
    for thr, snap, strict, node, fname in sb.premaps:
        w_ = core.loc(AUTH, node)
        half = math.pi / 2
        if thr >= half and abs(snap - half) <= 4e-16:
            ctx.ok("C15.10", f"input normalisation {fname}: only values at or beyond the poles are moved (to the pole)", w_,
                   f"|phi| >= {thr!r} -> +-{snap!r}; identity on the open interval")
        elif half - thr > 1e-15:
            x = thr + (half - thr) / 2
            ctx.bad("C15.10", f"input normalisation {fname} maps every latitude with |phi| in [{thr!r}, pi/2) to +-{snap!r}", w_,
                    f"the conversion is constant on an interval of width {half - thr:.3g} rad inside the domain (e.g. at phi = {x!r} and phi = {thr!r}): "
                    f"not strictly increasing there, and off the closed form by up to about {half - thr:.3g} rad (bound 1e-10), round trip by the same amount (bound 1e-12)")
        else:
            ctx.unk("C15.10", f"input normalisation {fname}", w_, f"threshold {thr!r} is within a few ulp of pi/2: effect on the last representable latitudes not decided")
    order = None
    if sb.problem or sb.ret is None:
        ctx.unk("C15.1", "AuthalicProjection._apply_coefficients computes phi + sum C_k sin(2(k+1) phi)", where, f"body not modelled: {sb.problem}")
    else:
        order = sb.max_index + 1
        ref = reference_series(order)
        sb.residual = (sb.ret - ref).reduce()
        if sb.ret == ref:
            ctx.ok("C15.1", "AuthalicProjection._apply_coefficients computes phi + sum C_k sin(2(k+1) phi)", where,
                   f"normal forms agree ({len(ref.t)} monomials, order {order}); holds for every phi")
    # ---- C15.2 ---------------------------------------------------------------------------------------------
    g2a, n1 = literal_table(tree, "GEODETIC_TO_AUTHALIC")
    a2g, n2 = literal_table(tree, "AUTHALIC_TO_GEODETIC")
    fwd, inv, _, _ = oracle_tables(digits, kmax)
    tables_ok = True
    devs: Dict[str, List[float]] = {}
    tails: Dict[str, float] = {}
    pending = []
    for name, lit, node, exact in (("GEODETIC_TO_AUTHALIC", g2a, n1, fwd), ("AUTHALIC_TO_GEODETIC", a2g, n2, inv)):
        w = core.loc(AUTH, node)
        if lit is None:
            ctx.unk("C15.2", f"table {name} matches the exact WGS84 series", w, "table is not a literal tuple of numbers")
            tables_ok = False
            continue
        if order is not None and len(lit) < order:
            ctx.bad("C15.2", f"table {name} has {len(lit)} entries, the evaluator reads {order}", w, "IndexError at run time")
            tables_ok = False
            continue
        n = len(lit)
        dev = [lit[k] - exact[k] for k in range(min(n, len(exact)))]
        tail = sum(abs(x) for x in exact[n:])
        devs[name], tails[name] = dev, tail
        total = sum(abs(d) for d in dev) + tail
        worst = max(range(len(dev)), key=lambda k: abs(dev[k]))
        if total <= TABLE_TOL:
            ctx.ok("C15.2", f"table {name} matches the exact WGS84 series", w,
                   f"sum|literal - exact| = {sum(abs(d) for d in dev):.2e} (largest at k={worst + 1}: {abs(dev[worst]):.2e}), neglected tail = {tail:.2e}; tolerance {TABLE_TOL}")
        else:
            tables_ok = False
            pending.append((name, lit, w, exact, worst, total))
    if sb.ret is not None and not sb.problem and g2a and a2g and not getattr(sb, "cos_via_sqrt", None):
        # C15.11 has no instance on a healthy tree: the witness computation itself is exercised on every run -- with the extracted
        # polynomial and the shipped tables, substituting sqrt(1 - s*s) for the cosine must produce a witness
        ctl = sqrt_cos_witness(sb.ret, g2a, a2g)
        ctx.analysed["control_C15_11"] = (f"substituting sqrt(1 - s*s) for cos(phi) in the extracted polynomial breaks the round trip at pi/2 - "
                                          f"{math.pi / 2 - ctl[0]:.3g} rad by {ctl[1]:.3g} rad" if ctl else "no witness")
        if ctl is None:
            ctx.unk("C15.11", "control: the cancellation witness search finds the effect of sqrt(1 - s*s) on the shipped evaluator", where,
                    "the search returned nothing: C15.11 would not report such a change either")
    if getattr(sb, "cos_via_sqrt", None) and sb.ret is not None and not sb.problem and g2a and a2g:
        wit = sqrt_cos_witness(sb.ret, g2a, a2g)
        if wit is not None:
            ctx.bad("C15.11", f"the evaluator takes cos(phi) as `{sb.cos_via_sqrt}`", where,
                    f"near a pole the subtraction cancels: at phi = pi/2 - {math.pi / 2 - wit[0]:.3g} rad, inverse(forward(phi)) computed with this 'cosine' misses phi by "
                    f"{wit[1]:.3g} rad (clause: 1e-12), with math.cos(phi) in its place by {wit[2]:.1g} rad -- the extracted polynomial evaluated exactly at the doubles "
                    f"the code would pass")
        else:
            ctx.unk("C15.11", f"the evaluator takes cos(phi) as `{sb.cos_via_sqrt}`", where,
                    "equal to cos(phi) as a real number on the latitude domain; no latitude was found at which the cancellation breaks a clause")
    if pending and len(devs) == 2 and g2a and a2g:
        # is the deviation large enough to break a clause for certain?  E(phi) = sum dev_k sin(2k phi)
        worst_acc, worst_rt = (0.0, 0), (0.0, 0)
        for i in range(1, 90):
            phi = math.radians(i)
            ef = sum(d * math.sin(2 * (k + 1) * phi) for k, d in enumerate(devs["GEODETIC_TO_AUTHALIC"]))
            xi = phi + sum(c * math.sin(2 * (k + 1) * phi) for k, c in enumerate(g2a))
            ei = sum(d * math.sin(2 * (k + 1) * xi) for k, d in enumerate(devs["AUTHALIC_TO_GEODETIC"]))
            acc = abs(ef) - tails["GEODETIC_TO_AUTHALIC"] - 1e-15
            rt = abs(ef + ei) - 5e-3 * abs(ef) - tails["GEODETIC_TO_AUTHALIC"] - tails["AUTHALIC_TO_GEODETIC"] - 2e-14 - 1e-15
            if acc > worst_acc[0]:
                worst_acc = (acc, i)
            if rt > worst_rt[0]:
                worst_rt = (rt, i)
        for name, lit, w, exact, worst, total in pending:
            head = f"table {name}: entry {worst + 1} is {lit[worst]!r}, the exact coefficient is {exact[worst]!r}"
            if name == "GEODETIC_TO_AUTHALIC" and worst_acc[0] > 1e-10:
                ctx.bad("C15.2", head, w, f"at latitude {worst_acc[1]} deg the geodetic->authalic conversion is off by at least {worst_acc[0]:.3e} rad (accuracy clause: 1e-10)")
            elif worst_rt[0] > 1e-12:
                ctx.bad("C15.2", head, w, f"at latitude {worst_rt[1]} deg inverse(forward(phi)) - phi is at least {worst_rt[0]:.3e} rad (round-trip clause: 1e-12); "
                                           f"sum|literal - exact| + tail = {total:.3e}")
            else:
                ctx.unk("C15.2", head, w, f"sum|literal - exact| + tail = {total:.3e} rad exceeds the checker's tolerance {TABLE_TOL} but stays below the clauses of the "
                                           f"statement on the evaluated grid; not decided")
    elif pending:
        for name, lit, w, exact, worst, total in pending:
            ctx.unk("C15.2", f"table {name}: entry {worst + 1} is {lit[worst]!r}, the exact coefficient is {exact[worst]!r}", w, f"deviation {total:.3e}; other table unavailable")
    # ---- C15.1 (continued): a residual between evaluator and series, bounded with the literal coefficients ----------
    struct_eps = {"GEODETIC_TO_AUTHALIC": 0.0, "AUTHALIC_TO_GEODETIC": 0.0}
    res = getattr(sb, "residual", None)
    if res is not None and res.t:
        for name, lit in (("GEODETIC_TO_AUTHALIC", g2a), ("AUTHALIC_TO_GEODETIC", a2g)):
            if lit is None:
                continue
            bound = residual_bound(res, lit)
            struct_eps[name] = bound
            if bound <= TABLE_TOL:
                ctx.ok("C15.1", f"_apply_coefficients differs from the sine series by at most {bound:.1e} rad with {name}", where,
                       f"evaluator - series = {res!r}; |s|, |c| <= 1 and the literal coefficients bound it by {bound:.2e} <= {TABLE_TOL} "
                       f"(the recurrence is not the textbook Clenshaw step, but the deviation is below the tolerance)")
            else:
                wit = residual_witness(res, lit)
                if wit is not None:
                    (sn, cn), val = wit
                    ctx.bad("C15.1", f"_apply_coefficients does not compute the sine series (with {name})", core.loc(AUTH, sb.ret_node),
                            f"evaluator - series = {res!r}; at sin(phi) = {sn}, cos(phi) = {cn} this is {val:.3e} rad (accuracy clause: 1e-10)")
                else:
                    rt = roundtrip_witness(res, g2a, a2g) if (g2a and a2g) else None
                    if rt is not None:
                        (sn, cn), rf, ri, slack = rt
                        ctx.bad("C15.1", "_apply_coefficients does not compute the sine series: round trip off by more than 1e-12 rad", core.loc(AUTH, sb.ret_node),
                                f"evaluator - series = {res!r}; at sin(phi) = {sn}, cos(phi) = {cn} the residuals are {rf:.3e} (forward) and {ri:.3e} (inverse): "
                                f"inverse(forward(phi)) - phi is at least {abs(rf + ri) - slack:.3e} rad")
                    else:
                        ctx.unk("C15.1", f"_apply_coefficients vs the sine series (with {name})", where,
                                f"evaluator - series = {res!r}; crude bound {bound:.2e} exceeds {TABLE_TOL} but no witness latitude found")
    # ---- C15.9: shortcuts that replace the series by a linear function of phi near the equator ------------------------------
    for bound, others, slope, node in sb.pieces:
        T = fold_const(bound)
        if T is None and isinstance(bound, ast.Name):
            for n in tree.body:
                if isinstance(n, ast.Assign) and any(isinstance(t, ast.Name) and t.id == bound.id for t in n.targets):
                    T = fold_const(n.value)
        w9 = core.loc(AUTH, node)
        if T is None or not (g2a and a2g):
            ctx.unk("C15.9", f"_apply_coefficients: linear shortcut for |phi| < {core.src(bound)}", w9, "threshold or tables not determined")
            continue
        # are the other conditions of the shortcut satisfied for the tables that forward/inverse pass?
        feasible = True
        for cnd in others:
            ok_c = False
            if isinstance(cnd, ast.Compare) and len(cnd.ops) == 1 and isinstance(cnd.ops[0], ast.In) and isinstance(cnd.left, ast.Name) \
                    and cnd.left.id == sb.C and isinstance(cnd.comparators[0], ast.Name):
                for n in tree.body:
                    if isinstance(n, ast.Assign) and any(isinstance(t, ast.Name) and t.id == cnd.comparators[0].id for t in n.targets) \
                            and isinstance(n.value, ast.Dict):
                        keys = {k.id for k in n.value.keys if isinstance(k, ast.Name)}
                        ok_c = {"GEODETIC_TO_AUTHALIC", "AUTHALIC_TO_GEODETIC"} <= keys
            feasible = feasible and ok_c
        emin = best_linear_error(g2a, T)
        if emin > 1e-10 + TABLE_TOL and feasible:
            ctx.bad("C15.9", f"_apply_coefficients returns a linear function of phi for |phi| < {T:g}", w9,
                    f"whatever the slope `{core.src(slope)}` is, a linear function misses sum C_k sin(2k phi) by at least {emin:.3e} rad somewhere in that "
                    f"interval (best uniform linear fit of the geodetic->authalic series; cubic term ~ {sum(c * (2 * (k + 1)) ** 3 / 6 for k, c in enumerate(g2a)):.2e} * phi^3): "
                    f"the 1e-10 accuracy clause fails near latitude {math.degrees(T):.2f} deg")
        elif emin <= 1e-11:
            ctx.ok("C15.9", f"_apply_coefficients: linear shortcut for |phi| < {T:g} can stay within the accuracy clause", w9,
                   f"best uniform linear fit error {emin:.1e} rad; the slope itself is not verified")
        else:
            ctx.unk("C15.9", f"_apply_coefficients: linear shortcut for |phi| < {T:g}", w9,
                    f"best possible error {emin:.2e} rad; " + ("other conditions of the shortcut are not decided" if not feasible else "close to the clause"))
    # ---- C15.3 wiring ------------------------------------------------------------------------------------------
    def passes(method: str, table: str):
        m = ctx.sources.func(AUTH, method, "AuthalicProjection")
        rets = [n for n in ast.walk(m) if isinstance(n, ast.Return) and n.value is not None]
        ok = len(rets) == 1 and isinstance(rets[0].value, ast.Call) and core.src(rets[0].value.func) == "self._apply_coefficients" \
            and len(rets[0].value.args) == 2 and core.src(rets[0].value.args[1]) == table \
            and isinstance(rets[0].value.args[0], ast.Name) and rets[0].value.args[0].id == m.args.args[1].arg
        other = {"GEODETIC_TO_AUTHALIC", "AUTHALIC_TO_GEODETIC"} - {table}
        swapped = len(rets) == 1 and isinstance(rets[0].value, ast.Call) and len(rets[0].value.args) == 2 and core.src(rets[0].value.args[1]) in other
        body = [b for b in m.body if not (isinstance(b, ast.Expr) and isinstance(b.value, ast.Constant))]
        extra = [b for b in body if not isinstance(b, ast.Return)]
        if ok and extra:
            wit = premap_witness(extra, m.args.args[1].arg)
            if wit is not None:
                x, gx = wit
                ctx.bad("C15.3", f"AuthalicProjection.{method} changes its argument before the series is applied", core.loc(AUTH, extra[0]),
                        f"`{core.src(extra[0])[:80]}` maps phi = {x!r} to {gx!r} (off by {abs(gx - x):.3g} rad, evaluated with the same library functions); "
                        f"the series has slope ~1, so the result is off by about as much: beyond the 1e-10 accuracy clause and the 1e-12 round-trip clause")
                return
        st = core.DISCHARGED if ok and not extra else (core.VIOLATED if swapped else core.UNDECIDED)
        ctx.ob("C15.3", f"AuthalicProjection.{method} applies {table} to its argument" + (" and does nothing else" if ok else ""), st, core.loc(AUTH, m),
               (core.src(rets[0]) if rets else "no return") +
               (f"; but the method also executes `{core.src(extra[0])[:70]}`: what reaches the series, or what is returned, may differ from the argument / the series value"
                if ok and extra else ""))
    passes("forward", "GEODETIC_TO_AUTHALIC")
    passes("inverse", "AUTHALIC_TO_GEODETIC")
    wiring(ctx)
    # ---- C15.4 .. C15.7 derived from the literals --------------------------------------------------------------------
    if sb.ret is not None and not sb.problem:
        degs = {sum(p for sym, p in k if sym in ("s", "phi")) % 2 for k in sb.ret.t}
        par = "odd" if degs == {1} else ("even" if degs == {0} else "neither")
        ctx.ob("C15.5", "the conversion is an odd function of the latitude and fixes 0", core.DISCHARGED if par == "odd" else core.VIOLATED,
               where, f"every monomial of the normal form has odd total degree in (sin phi, phi): the polynomial is {par}; f(0) = 0 because every "
                      f"monomial contains sin phi or phi; in floating point the deviation is bounded by the rounding error of C15.4")
    for name, lit in (("GEODETIC_TO_AUTHALIC", g2a), ("AUTHALIC_TO_GEODETIC", a2g)):
        if lit is None:
            continue
        slope = sum(2 * (k + 1) * abs(c) for k, c in enumerate(lit))
        amp = sum(abs(c) for c in lit)
        ctx.ob("C15.6", f"series with {name} is strictly increasing", core.DISCHARGED if slope < 0.5 else core.VIOLATED, core.loc(AUTH, None),
               f"derivative 1 + sum 2k C_k cos(2k phi) >= 1 - {slope:.6f} > 0; on a grid of spacing >= 1e-12 rad the increment "
               f"(>= {(1 - slope) * 1e-12:.3e}) dominates the rounding error (<= 4e-16)")
        ctx.ob("C15.4", f"series with {name}: floating-point evaluation error is far below the accuracy clause", core.DISCHARGED if amp < 0.01 else core.UNDECIDED,
               core.loc(AUTH, None),
               f"|correction term| <= sum|C_k| = {amp:.3e}; <= 20 operations of relative error 2^-53 on it (<= {20 * amp * 2 ** -53:.1e}) plus one "
               f"rounding of the sum (<= {math.pi / 2 * 2 ** -53:.1e}); fixed points: f(0) = 0 exactly, |f(pi/2) - pi/2| <= 2*cos(fl(pi/2))*{amp:.1e} = {2 * 6.2e-17 * amp:.1e}")
    if tables_ok and g2a and a2g and sb.ret is not None and not sb.problem:
        slope_inv = sum(2 * (k + 1) * abs(c) for k, c in enumerate(a2g))
        ef = TABLE_TOL + struct_eps["GEODETIC_TO_AUTHALIC"] + 5e-16
        ei = TABLE_TOL + struct_eps["AUTHALIC_TO_GEODETIC"] + 5e-16
        bound = (1 + slope_inv) * ef + ei
        ctx.ob("C15.7", "inverse(forward(phi)) returns phi to within 1e-12 rad", core.DISCHARGED if bound < 1e-12 else core.UNDECIDED, where,
               f"the two evaluators are within {ef:.1e} / {ei:.1e} of two exact mutually inverse maps (table tolerance + structural residual + rounding); "
               f"the exact inverse is {(1 + slope_inv):.4f}-Lipschitz; bound {bound:.2e}")
    ctx.analysed.update({"order": order, "digits": digits, "fourier_orders": kmax, "forward_exact": fwd[:8], "inverse_exact": inv[:8],
                         "functions": ["AuthalicProjection._apply_coefficients", "forward", "inverse", "from_lonlat", "to_lonlat", "deg_to_rad", "rad_to_deg"]})


def check_result_memo(ctx, methods: Dict[str, ast.FunctionDef]):
    """A memo of conversion results must be keyed by everything the result depends on: the angle AND the coefficient table."""
    for name, fn in methods.items():
        for n in ast.walk(fn):
            if isinstance(n, ast.Assign) and any(isinstance(t, ast.Subscript) for t in n.targets):
                t = [t for t in n.targets if isinstance(t, ast.Subscript)][0]
                base = t.value
                defs = {s_.targets[0].id: s_.value for s_ in ast.walk(fn) if isinstance(s_, ast.Assign) and isinstance(s_.targets[0], ast.Name)}
                root = defs.get(base.id) if isinstance(base, ast.Name) else base
                if not (isinstance(root, ast.Attribute) and core.src(root.value) == "self"):
                    continue
                params = [a.arg for a in fn.args.args][1:]
                from .shared_state import derive_vars, _names
                key_vars = derive_vars(fn, _names(t.slice)) & set(params)
                val_vars = derive_vars(fn, _names(n.value)) & set(params)
                # the value may also depend on parameters through statements that are not assignments to the stored name;
                # here every parameter of the evaluator enters the result
                if name in ("_apply_coefficients",):
                    val_vars |= set(params)
                missing = val_vars - key_vars
                where = core.loc(AUTH, n)
                if missing:
                    ctx.bad("C15.8", f"AuthalicProjection.{name} remembers results in self.{root.attr} keyed by `{core.src(t.slice)}` only", where,
                            f"the stored value depends on {sorted(missing)} as well: after a conversion in one direction the same angle converted in the other "
                            f"direction returns the remembered value of the wrong table (error up to |C_1| = 2.2e-3 rad)")
                else:
                    ctx.ok("C15.8", f"AuthalicProjection.{name}: result memo self.{root.attr} keyed by everything the result depends on", where, core.src(n))


def best_linear_error(lit: List[float], T: float) -> float:
    """min over K of max_{|phi| <= T} | sum_k lit_k sin(2(k+1) phi) - K phi |  (the series is odd, so [0, T] suffices)"""
    xs = [T * i / 2000 for i in range(1, 2001)]
    gs = [sum(c * math.sin(2 * (k + 1) * x) for k, c in enumerate(lit)) for x in xs]

    def err(K: float) -> float:
        return max(abs(g - K * x) for g, x in zip(gs, xs))
    lo = min(gs[-1] / xs[-1], gs[0] / xs[0])
    hi = max(gs[-1] / xs[-1], gs[0] / xs[0])
    lo, hi = lo - abs(hi - lo) - 1e-12, hi + abs(hi - lo) + 1e-12
    for _ in range(200):
        m1, m2 = lo + (hi - lo) / 3, hi - (hi - lo) / 3
        if err(m1) < err(m2):
            hi = m2
        else:
            lo = m1
    return err((lo + hi) / 2)


def fold_const(e: ast.expr, names: Optional[Dict[str, float]] = None) -> Optional[float]:
    """constant folding of a float expression built from literals, math.pi, named module constants and + - * /"""
    if isinstance(e, ast.Constant) and isinstance(e.value, (int, float)) and not isinstance(e.value, bool):
        return float(e.value)
    if isinstance(e, ast.Name) and names is not None and e.id in names:
        return names[e.id]
    if isinstance(e, ast.Attribute) and core.src(e) in ("math.pi",):
        return math.pi
    if isinstance(e, ast.UnaryOp) and isinstance(e.op, ast.USub):
        v = fold_const(e.operand, names)
        return None if v is None else -v
    if isinstance(e, ast.BinOp):
        a, b = fold_const(e.left, names), fold_const(e.right, names)
        if a is None or b is None:
            return None
        if isinstance(e.op, ast.Add):
            return a + b
        if isinstance(e.op, ast.Sub):
            return a - b
        if isinstance(e.op, ast.Mult):
            return a * b
        if isinstance(e.op, ast.Div) and b != 0:
            return a / b
    return None


def premap_witness(stmts: List[ast.stmt], var: str):
    """The statements are all  var = <expression of var built from math functions and literals>.  Evaluates the composition
    with the checker's own math library on latitudes approaching 0 and +-pi/2 and returns (x, g(x)) where |g(x) - x| > 2e-10."""
    allowed = {"sin", "cos", "tan", "asin", "acos", "atan", "atan2", "sqrt", "fabs", "copysign", "fmod", "hypot", "degrees", "radians", "floor", "ceil"}
    exprs = []
    for st in stmts:
        if not (isinstance(st, ast.Assign) and len(st.targets) == 1 and isinstance(st.targets[0], ast.Name) and st.targets[0].id == var):
            return None
        e = st.value
        while isinstance(e, ast.Call) and core.src(e.func) == "cast" and len(e.args) == 2:
            e = e.args[1]
        for n in ast.walk(e):
            if isinstance(n, ast.Call):
                f = core.src(n.func)
                if not ((f.startswith("math.") and f[5:] in allowed) or f in ("abs", "min", "max", "float")):
                    return None
            elif isinstance(n, ast.Name) and n.id not in (var, "math", "abs", "min", "max", "float"):
                return None
            elif isinstance(n, ast.Attribute) and core.src(n) not in ("math.pi", "math.e", "math.tau") and not (isinstance(n.value, ast.Name) and n.value.id == "math"):
                return None
            elif isinstance(n, (ast.Lambda, ast.Subscript, ast.Starred, ast.Await, ast.Yield, ast.NamedExpr, ast.ListComp, ast.GeneratorExp, ast.DictComp, ast.SetComp)):
                return None
        exprs.append(compile(ast.Expression(e), "<premap>", "eval"))
    half = math.pi / 2
    grid = [0.0, 1e-300, 1e-12, 1e-6, 0.1, 0.5, 1.0, 1.5] + [half - 10.0 ** (-k) for k in range(1, 16)] + [half]
    grid = grid + [-x for x in grid]
    env = {"math": math, "abs": abs, "min": min, "max": max, "float": float, "__builtins__": {}}
    for x in grid:
        v = x
        try:
            for code in exprs:
                v = eval(code, env, {var: v})       # only math.* on a float: the expression was vetted above
        except Exception:
            return None
        if isinstance(v, float) and abs(v - x) > 2e-10:
            return x, v
    return None


def methods_of(tree: ast.Module) -> Dict[str, ast.FunctionDef]:
    for n in tree.body:
        if isinstance(n, ast.ClassDef) and n.name == "AuthalicProjection":
            return {m.name: m for m in n.body if isinstance(m, ast.FunctionDef)}
    return {}


def wiring(ctx):
    """from_lonlat applies forward to deg_to_rad(latitude); to_lonlat applies inverse, then rad_to_deg"""
    t = ctx.sources.tree(CT)
    fl = ctx.sources.func(CT, "from_lonlat")
    tl = ctx.sources.func(CT, "to_lonlat")
    # singleton
    inst = [n for n in t.body if isinstance(n, ast.Assign) and isinstance(n.value, ast.Call) and core.src(n.value.func) == "AuthalicProjection"]
    name = inst[0].targets[0].id if inst and isinstance(inst[0].targets[0], ast.Name) else None
    if name is None:
        ctx.unk("C15.3", "coordinate_transforms: AuthalicProjection singleton", CT, "not found")
        return

    def chain(fn, method):
        """variable flow: value passed to <name>.<method>(...) and where its result goes"""
        calls = [n for n in ast.walk(fn) if isinstance(n, ast.Call) and core.src(n.func) == f"{name}.{method}"]
        return calls
    fwd_calls, inv_calls = chain(fl, "forward"), chain(tl, "inverse")
    wrong_f, wrong_i = chain(fl, "inverse"), chain(tl, "forward")
    defs_f = {s.targets[0].id: s.value for s in ast.walk(fl) if isinstance(s, ast.Assign) and isinstance(s.targets[0], ast.Name)}
    defs_t = {s.targets[0].id: s.value for s in ast.walk(tl) if isinstance(s, ast.Assign) and isinstance(s.targets[0], ast.Name)}

    def strip_cast(e):
        while isinstance(e, ast.Call) and core.src(e.func) == "cast" and len(e.args) == 2:
            e = e.args[1]
        return e
    ok_f = False
    if len(fwd_calls) == 1 and fwd_calls[0].args:
        a = strip_cast(fwd_calls[0].args[0])
        src_a = strip_cast(defs_f.get(a.id)) if isinstance(a, ast.Name) else a
        ok_f = isinstance(src_a, ast.Call) and core.src(src_a.func) == "deg_to_rad" and "latitude" in core.src(src_a)
    # no other conversion path: no branch or loop in the function, and no other method of the converter is used
    def other_paths(fn, allowed):
        probs = [f"`{core.src(n)[:50]}`" for n in ast.walk(fn) if isinstance(n, (ast.If, ast.IfExp, ast.While, ast.For, ast.Try, ast.Match))]
        probs += [f"`{core.src(n)[:50]}`" for n in ast.walk(fn) if isinstance(n, ast.Call) and isinstance(n.func, ast.Attribute)
                  and core.src(n.func.value) == name and n.func.attr != allowed]
        probs += [f"`{core.src(n)[:50]}`" for n in ast.walk(fn) if isinstance(n, (ast.Assign, ast.AugAssign)) and
                  any(isinstance(t, ast.Attribute) and core.src(t.value) == name for t in (n.targets if isinstance(n, ast.Assign) else [n.target]))]
        return probs
    extra_f, extra_t = other_paths(fl, "forward"), other_paths(tl, "inverse")
    # when the call is not in the function itself: is it made by something the function calls?  (resolved call graph)
    from .model import Model as _Model
    _m = _Model(ctx.sources)
    reach_f = set(_m.reachable(["a5.core.coordinate_transforms.from_lonlat"])) if "a5.core.coordinate_transforms.from_lonlat" in _m.funcs else set()
    reach_t = set(_m.reachable(["a5.core.coordinate_transforms.to_lonlat"])) if "a5.core.coordinate_transforms.to_lonlat" in _m.funcs else set()
    via_helper_f = not fwd_calls and "a5.projections.authalic.AuthalicProjection.forward" in reach_f
    via_helper_t = not inv_calls and "a5.projections.authalic.AuthalicProjection.inverse" in reach_t
    st = core.DISCHARGED if ok_f and not wrong_f and not extra_f else (core.VIOLATED if wrong_f or (not fwd_calls and not via_helper_f) else core.UNDECIDED)
    if extra_f and ok_f and not wrong_f:
        ctx.unk("C15.3", "from_lonlat has a single conversion path", core.loc(CT, fl), f"{extra_f[:2]}: a second path or another use of the converter is not analysed")
    ctx.ob("C15.3", "from_lonlat converts the geodetic latitude with authalic.forward(deg_to_rad(latitude))", st, core.loc(CT, fl),
           f"calls: {[core.src(c) for c in fwd_calls + wrong_f]}" +
           ("" if fwd_calls else (" -- the conversion is applied inside a helper that from_lonlat calls; the wiring through it is not followed" if via_helper_f
                                 else " -- the authalic step is missing: latitudes are treated as spherical (0.19 deg off at 45 deg)")))
    ok_t = False
    if len(inv_calls) == 1:
        # result flows into rad_to_deg(...) which becomes the returned latitude
        res_names = [k for k, v in defs_t.items() if v is inv_calls[0] or (isinstance(v, ast.Call) and inv_calls[0] in ast.walk(v))]
        r2d = [v for v in defs_t.values() if isinstance(strip_cast(v), ast.Call) and core.src(strip_cast(v).func) == "rad_to_deg"
               and any(isinstance(x, ast.Name) and x.id in res_names for x in ast.walk(v))]
        arg = strip_cast(inv_calls[0].args[0]) if inv_calls[0].args else None
        src_arg = strip_cast(defs_t.get(arg.id)) if isinstance(arg, ast.Name) else arg
        half_pi = src_arg is not None and core.src(src_arg).replace(" ", "") in ("math.pi/2-phi",)
        ok_t = bool(r2d) and half_pi
    st = core.DISCHARGED if ok_t and not wrong_i and not extra_t else (core.VIOLATED if wrong_i or (not inv_calls and not via_helper_t) else core.UNDECIDED)
    ctx.ob("C15.3", "to_lonlat converts the authalic latitude with rad_to_deg(authalic.inverse(pi/2 - phi))", st, core.loc(CT, tl),
           f"calls: {[core.src(c) for c in inv_calls + wrong_i]}")
    # degree/radian factors
    for fname, want in (("deg_to_rad", math.pi / 180), ("rad_to_deg", 180 / math.pi)):
        f = ctx.sources.func(CT, fname)
        rets = [n for n in ast.walk(f) if isinstance(n, ast.Return) and n.value is not None]
        val = None
        if len(rets) == 1:
            e = strip_cast(rets[0].value)
            if isinstance(e, ast.BinOp) and isinstance(e.op, ast.Mult):
                for side, other in ((e.left, e.right), (e.right, e.left)):
                    if isinstance(side, ast.Name) and side.id == f.args.args[0].arg:
                        val = fold_const(other)
            elif isinstance(e, ast.BinOp) and isinstance(e.op, ast.Div) and isinstance(e.left, ast.Name) and e.left.id == f.args.args[0].arg:
                d = fold_const(e.right)
                val = None if not d else 1.0 / d
        if val is None:
            ctx.unk("C15.3", f"{fname} multiplies by {want:.6g}", core.loc(CT, f), "factor not folded")
        else:
            ctx.ob("C15.3", f"{fname} multiplies by {want:.6g}", core.DISCHARGED if abs(val - want) <= 4 * 2 ** -52 * want else core.VIOLATED,
                   core.loc(CT, f), f"constant factor folds to {val!r}")
