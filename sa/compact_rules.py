"""Obligations about a5.core.compact.compact, shared by C08 (rules C08.*) and C09 (rules C09.*).

Why the two per-level order facts are enough for adjacency (C09.4) -- K is the sort key, anc_q(y) the level-q ancestor of y:

  M(q)  anc_q restricted to level q+1 is monotone:  K(y1) <= K(y2)  =>  K(anc_q(y1)) <= K(anc_q(y2)).
        Parents compose (C06.7), so anc_b on level a is monotone for every a >= b.
  W(q)  K(first child) <= K(c) <= K(last child) for every level-q cell c.  Applied level by level: K(c) lies between the
        keys of its smallest and largest descendant at every finer level.

Let G be a complete sibling group of level rho with parent P, in an antichain, and y another entry with K(first) < K(y) < K(last).
  * level(y) >= rho:  anc_rho is monotone and fixes first/last, so anc_rho(y) is a level-rho id between them, i.e. a sibling
    (the preimage of P under a monotone map is an interval of level-rho ids): y is a sibling or a descendant of one -- excluded.
  * level(y) = r' < rho:  let Q = anc_r'(P) != y (y is not an ancestor).  By W, some level-rho descendants d1 <= y <= d2 of y exist
    with K(d1) <= K(y) <= K(d2); then K(d1) < K(last) and K(first) < K(d2), and monotonicity of anc_r' gives y <= Q and Q <= y: contradiction.
So the group is adjacent after sorting; W(rho-1) keeps the list sorted when the group is replaced by P in place."""
from __future__ import annotations

import ast
from typing import Any, Dict, List, Optional, Tuple

from . import codec, core
from .absint import Budget, CondV, ExcV, Fn, Interp, ListV, Unknown, _Unmodelled
from .codec import COMPACT, SER, describe_path, same_or_refuted
from .compact_model import (carried_variables, freeze, initial_carried, BodyPath, OrderModel, Siblings, Structure, cond_is_position_zero, extract_structure, guard_means_strictly_ascending,
                            interleaving_witnesses, run_body, sibling_model)
from .lin import Lin, Sym, compare
from .rules_C06 import Setup

Q = "a5.core.compact.compact"


def _window_threshold(c: CondV, truth: bool) -> Optional[int]:
    """If (c is truth) is a statement  n - i >= t  about the scan index i and the list length n, returns t."""
    d = c.left - c.right
    cf = {repr(a): k for a, k in d.terms}
    if set(cf) != {"i", "n"}:
        return None
    op = c.op if truth else c.negate().op
    if cf["i"] == 1 and cf["n"] == -1:      # i - n + c0  op 0
        c0 = d.const
        return {"<=": c0, "<": c0 + 1}.get(op)
    if cf["i"] == -1 and cf["n"] == 1:      # n - i + c0  op 0
        c0 = d.const
        return {">=": -c0, ">": -c0 + 1}.get(op)
    return None


def _sibling_equation(c: CondV, truth: bool) -> Optional[Tuple[int, Lin]]:
    """If (c is truth) says  cells[i + j] == X , returns (j, X)."""
    op = c.op if truth else c.negate().op
    if op != "==":
        return None
    d = c.left - c.right
    atoms = [(a, k) for a, k in d.terms if isinstance(a, Fn) and a.name == "cells"]
    if len(atoms) != 1 or atoms[0][1] not in (1, -1):
        return None
    a, k = atoms[0]
    off = a.args[0] - Lin.of(Sym("i", 0, None))
    if not off.is_const():
        return None
    rest = d - Lin.of(a).scale(k)
    X = -rest if k == 1 else rest
    return off.const, X


def _mentions_cells(c: CondV) -> bool:
    return any(isinstance(a, Fn) and a.name == "cells" for a, _ in (c.left - c.right).terms)


def drop_symbol(x: Lin, sym: Sym) -> Lin:
    return Lin(x.const, {a: c for a, c in x.terms if not (isinstance(a, Sym) and a.name == sym.name)})


def analyse(ctx, want_prefix: str):
    """Runs the whole compact analysis and records the obligations whose rule id starts with want_prefix."""
    def ob(rule, construct, state, where, detail, **kw):
        if rule.startswith(want_prefix):
            ctx.ob(rule, construct, state, where, detail, **kw)
        elif want_prefix == "C09" and rule in ("C08.1", "C08.2", "C08.3", "C08.4", "C08.5"):
            # premise of canonicity: the only rewriting step replaces exactly one complete sibling group by its parent
            ctx.ob("C09.7", construct, state, where, detail, **kw)

    st = extract_structure(ctx.sources)
    fwhere = core.loc(COMPACT, st.fn)
    for text, node in st.problems:
        ob(want_prefix + ".0", f"{Q}: {text}", core.UNDECIDED, core.loc(COMPACT, node), "compact has left the modelled shape (sorted copy; pass loop; index scan)")
    su = Setup(ctx)
    # ---- witness search on small list shapes (independent of the shape of the code) ----------------------------------
    from . import compact_scenarios
    try:
        sc_stats = compact_scenarios.run(ob, su, want_prefix)
    except (Budget, _Unmodelled) as e:
        sc_stats = {"scenarios": 0, "decided": 0, "not_modelled": 0, "stopped": str(e)}
    ctx.analysed["list_shape_scenarios"] = sc_stats
    if not st.ok:
        ob(want_prefix + ".0", f"{Q}: structure not recognised", core.UNDECIDED, fwhere,
           "the pass/scan structure of compact was not found; only the list-shape scenarios say anything about it: "
           f"{sc_stats.get('decided', 0)} decided, {sc_stats.get('not_modelled', 0)} not followed" +
           (f" (first reason: {(sc_stats.get('reasons') or [sc_stats.get('stopped', '')])[0]})" if (sc_stats.get('reasons') or sc_stats.get('stopped')) else ""))
        return None
    interp, consts = su.interp, su.consts
    MAX = consts.MAX
    ctx.analysed["structure"] = {"working_list": st.W, "index": st.idx, "result": st.result, "flag": st.flag,
                                 "init": core.src(st.init.value) if st.init else None, "key": st.key_fn}

    # ---- preamble --------------------------------------------------------------------------------------
    order_keys: List[Tuple[Any, str, Any]] = []     # (key function or None, description, node) for each sorted initialisation path
    paths = st.inits or [(st.init, st.chain, st.key_fn, st.sort_reverse, None)]
    for node, chain, kf, rev, guard in paths:
        iwhere = core.loc(COMPACT, node)
        desc = f"`{core.src(node.value)}`" + (f" (when {guard})" if guard else "")

        def resolve_helper(name: str):
            for n_ in ctx.sources.tree(COMPACT).body:
                if isinstance(n_, ast.FunctionDef) and n_.name == name:
                    return n_
            return None
        if "?" in chain:
            ob("C08.0", f"{Q}: working list {desc} covers the same cells as the argument", core.UNDECIDED, iwhere,
               "initialisation is not a chain of sorted/set/list over the parameter")
            ob("C09.1", f"{Q}: working list {desc} is sorted and duplicate-free", core.UNDECIDED, iwhere,
               "initialisation is not a chain of sorted/set/list over the parameter")
            continue
        ob("C08.0", f"{Q}: working list {desc} covers the same cells as the argument", core.DISCHARGED, iwhere,
           f"chain {chain or ['alias']} only reorders / removes duplicates")
        dedup = any(o in ("set", "frozenset") for o in chain)
        first_set = min([i for i, o in enumerate(chain) if o in ("set", "frozenset")], default=len(chain))
        is_sorted = "sorted" in chain and chain.index("sorted") < first_set
        if not dedup and not is_sorted and guard_means_strictly_ascending(guard, st.param, resolve_helper):
            # the guard establishes: strictly ascending in plain numeric order (hence duplicate-free), no key function
            ob("C09.1", f"{Q}: working list {desc} is duplicate-free and in ascending numeric order", core.DISCHARGED, iwhere,
               "the guard requires every element to be smaller than its successor")
            order_keys.append((None, f"when the input is already strictly ascending ({guard})", node))
            continue
        if guard is not None and not (dedup and is_sorted):
            ob("C09.1", f"{Q}: working list {desc} is sorted and duplicate-free", core.UNDECIDED, iwhere,
               "a guarded shortcut whose guard is not one of the modelled 'already sorted' tests")
            continue
        if not dedup:
            ob("C09.1", f"{Q}: working list {desc} keeps duplicates", core.VIOLATED, iwhere,
               "duplicates of a sibling separate the group in the scan (it is never merged) and are returned more than once")
        if not is_sorted:
            ob("C09.1", f"{Q}: working list {desc} is not sorted", core.VIOLATED, iwhere,
               "the scan finds sibling groups only when they are adjacent in ascending order")
        if rev:
            ob("C09.1", f"{Q}: working list {desc} is sorted in descending order", core.VIOLATED, iwhere,
               "the scan expects cell + j*stride at positions i + j")
        if dedup and is_sorted and not rev:
            ob("C09.1", f"{Q}: working list {desc} is sorted and duplicate-free", core.DISCHARGED, iwhere,
               "sorted(...) is applied after the set(...) and is the last reordering before the scan")
            order_keys.append((kf, "" if guard is None else f"when {guard}", node))
    # statements before the loop: early returns
    body = [s for s in st.fn.body if not (isinstance(s, ast.Expr) and isinstance(s.value, ast.Constant))]
    for s in body[:body.index(st.outer)]:
        if s is st.init:
            continue
        if isinstance(s, ast.If):
            t = core.src(s.test).replace(" ", "")
            empties = {f"len({st.param})==0", f"not{st.param}", f"len({st.param})<1", f"{st.param}==[]"}
            rets = [n for n in ast.walk(s) if isinstance(n, ast.Return)]
            if t in empties and not s.orelse and len(s.body) == 1 and isinstance(s.body[0], ast.Return) \
                    and isinstance(s.body[0].value, ast.List) and not s.body[0].value.elts:
                ob("C08.0", f"{Q}: empty input returns []", core.DISCHARGED, core.loc(COMPACT, s), "early return only for the empty list")
            elif rets:
                ob("C08.0", f"{Q}: early return `{core.src(s)[:70]}`", core.UNDECIDED, core.loc(COMPACT, s), "an early return that is not the empty-input case")
        elif isinstance(s, ast.Return):
            ob("C08.0", f"{Q}: unconditional return before the scan", core.VIOLATED, core.loc(COMPACT, s), "the scan is never reached")
    muts = list(st.pre_mutations)
    for n in ast.walk(st.fn):
        if isinstance(n, ast.Call) and isinstance(n.func, ast.Attribute) and isinstance(n.func.value, ast.Name) and n.func.value.id == st.param \
                and n.func.attr in ("sort", "reverse", "append", "extend", "pop", "remove", "clear", "insert") and n not in muts:
            muts.append(n)
        if isinstance(n, (ast.Assign, ast.AugAssign, ast.Delete)):
            tg = n.targets if isinstance(n, (ast.Assign, ast.Delete)) else [n.target]
            for t in tg:
                if isinstance(t, ast.Subscript) and isinstance(t.value, ast.Name) and t.value.id == st.param:
                    muts.append(n)
    if muts:
        for n in muts:
            ob("C08.6", f"{Q}: `{core.src(n)[:60]}` modifies the argument", core.VIOLATED, core.loc(COMPACT, n), "the caller's list is changed in place")
    else:
        ob("C08.6", f"{Q}: the argument is only read", core.DISCHARGED, fwhere, "no mutating method call or subscript store on the parameter")

    # ---- loop skeleton ---------------------------------------------------------------------------------
    sk = {
        "flag reset at the start of each pass": st.flag_reset, "result list reset at the start of each pass": st.result_reset,
        "scan index reset at the start of each pass": st.idx_reset, "working list replaced by the pass result": st.rebind,
        "the working list is returned after the last pass": st.final_return,
    }
    for text, node in sk.items():
        if node is None:
            ob("C09.3", f"{Q}: {text}", core.VIOLATED, core.loc(COMPACT, st.outer), "statement missing from the pass loop: passes do not repeat until nothing changes")
            ob("C08.5", f"{Q}: {text}", core.UNDECIDED, core.loc(COMPACT, st.outer), "pass loop left the modelled shape")
        else:
            ob("C09.3", f"{Q}: {text}", core.DISCHARGED, core.loc(COMPACT, node), core.src(node)[:80])
    if st.final_return is not None and st.final_return.value.id != st.W:
        ob("C08.5", f"{Q}: returns `{st.final_return.value.id}`, not the working list", core.VIOLATED, core.loc(COMPACT, st.final_return), "")
    if st.rebind is not None and not (isinstance(st.rebind.value, ast.Name) and st.rebind.value.id == st.result):
        ob("C08.5", f"{Q}: working list rebound to `{core.src(st.rebind.value)}`, not the pass result", core.VIOLATED, core.loc(COMPACT, st.rebind), "")
    # order of the pass statements: resets before the scan, rebind after
    order = [s for s in st.outer.body]
    pos = {id(s): i for i, s in enumerate(order)}
    scan_pos = pos[id(st.inner)]
    for text, node, before in (("flag reset", st.flag_reset, True), ("result reset", st.result_reset, True), ("index reset", st.idx_reset, True),
                               ("rebind", st.rebind, False)):
        if node is not None and (pos[id(node)] < scan_pos) != before:
            ob("C09.3", f"{Q}: {text} is on the wrong side of the scan loop", core.VIOLATED, core.loc(COMPACT, node), core.src(node))

    # ---- scan body, one generic iteration per resolution -----------------------------------------------------
    sibs: Dict[int, Siblings] = {}
    merge_seen = 0
    try:
        # world cell entries are copied through
        paths = run_body(interp, st, Lin(consts.WORLD), -1)
        for p in paths:
            good = len(p.appended) == 1 and p.appended[0] == Lin(consts.WORLD) and isinstance(p.advance, Lin) and p.advance == Lin(1) and p.signal in (None, ("continue",))
            if not good and len(p.appended) == 0 and isinstance(p.advance, Lin) and p.advance == Lin(1) and p.signal in (None, ("continue",)) and \
                    any(_sibling_equation(c, t) == (-1, Lin(consts.WORLD)) for c, t in p.conds):
                good = True     # a repeat of the entry handled just before
            lost_w = any(c.left.has_opaque(True) or c.right.has_opaque(True) for c, _t in p.conds) or \
                any(not isinstance(x, Lin) for x in p.appended) or not isinstance(p.advance, Lin)
            ob("C08.5", f"{Q}: a world-cell entry is copied through", core.DISCHARGED if good else (core.UNDECIDED if lost_w else core.VIOLATED),
               core.loc(COMPACT, st.inner), f"appended {p.appended}, index advance {p.advance}" + (" (on a path the analysis does not model)" if lost_w and not good else ""))
        carried = carried_variables(st)
        ctx.analysed["loop_carried_variables"] = carried
        for r in range(0, MAX + 1):
            if su.ids.get(r) is None:
                ctx.notes.append(f"resolution {r}: no id form (C05), scan body not analysed for it")
                continue
            sib = sibling_model(interp, su.ids, r)
            if sib is None:
                ob(want_prefix + ".0", f"{Q}: sibling model at resolution {r}", core.UNDECIDED, core.loc(SER, None),
                   "children of the generic parent are not a single arithmetic progression")
                continue
            sibs[r] = sib
        if not carried:
            for r, sib in sorted(sibs.items()):
                paths = run_body(interp, st, sib.cell, r, None, {"parent": sib.parent, "base": sib.base})
                merge_seen += check_paths(ob, st, sib, paths, r)
        else:
            # variables whose value survives from one iteration to the next: explore the reachable combinations of their values
            # (they are functions of the resolutions of the cells scanned so far), then check every (state, resolution) pair
            init = initial_carried(interp, st, carried)
            start = tuple(freeze(init[k]) for k in carried)
            states = {start: (init, "at the start of a pass")}
            work = [start]
            while work and len(states) < 400:
                key = work.pop()
                vals, how = states[key]
                for r, sib in sorted(sibs.items()):
                    for p in run_body(interp, st, sib.cell, r, dict(vals), {"parent": sib.parent, "base": sib.base}):
                        nxt = {k: p.carried.get(k) for k in carried}
                        nk = tuple(freeze(nxt[k]) for k in carried)
                        if nk not in states:
                            states[nk] = (nxt, f"after a resolution-{r} cell ({how})" if how.count("after") < 2 else f"after a resolution-{r} cell (...)")
                            work.append(nk)
            ctx.analysed["loop_carried_states"] = len(states)
            if any(k2[0] == "?" for key in states for k2 in key):
                ob(want_prefix + ".0", f"{Q}: loop-carried variables {carried} take values that depend on the cells", core.UNDECIDED, core.loc(COMPACT, st.inner),
                   "the scan body keeps state between iterations that the analysis cannot enumerate")
            for key, (vals, how) in states.items():
                if any(k2[0] == "?" for k2 in key):
                    continue
                for r, sib in sorted(sibs.items()):
                    paths = run_body(interp, st, sib.cell, r, dict(vals), {"parent": sib.parent, "base": sib.base})
                    label = ", ".join(f"{k}={v[1]}" for k, v in zip(carried, key))

                    def ob2(rule, construct, state, where, detail, _l=label, _h=how, **kw):
                        ob(rule, construct + f" [{_l}; {_h}]", state, where, detail, **kw)
                    merge_seen += check_paths(ob2, st, sib, paths, r)
    except (Budget, _Unmodelled) as e:
        ob(want_prefix + ".0", f"{Q}: interpretation of the scan body stopped", core.UNDECIDED, core.loc(COMPACT, st.inner), f"{type(e).__name__}: {e}")
    ctx.floor("resolutions whose scan body was analysed", len(sibs), 25, soft=True)
    if len(sibs) < 25:
        ob(want_prefix + ".0", f"{Q}: scan body analysed for only {len(sibs)} resolutions", core.UNDECIDED, core.loc(COMPACT, st.inner),
           "the sibling model (summarised cell_to_children family) is not available for the others; nothing is claimed for them")
    ctx.analysed["sibling_model"] = {str(r): {"k": s.k, "stride": f"1<<{s.stride.bit_length() - 1}", "note": s.note} for r, s in sorted(sibs.items())}
    ctx.analysed["merge_paths"] = merge_seen

    # ---- order model (C09.4 / C09.5) ---------------------------------------------------------------------------
    seen_keys = set()
    for kf, kdesc, knode in (order_keys if want_prefix == "C09" else []):
        if kf in seen_keys:
            continue
        seen_keys.add(kf)
        om = OrderModel(interp, st, su.ids, consts, kf)
        ksuffix = f" [{kdesc}]" if kdesc else ""
        kwhere = core.loc(COMPACT, knode)
        failing_levels: List[int] = []
        try:
            for q in range(0, MAX):
                if su.ids.get(q) is None or su.ids.get(q + 1) is None:
                    continue
                stt, text = om.monotone_parent(q)
                ob("C09.4", f"{Q}: parent map level {q + 1} -> {q} is monotone in sort order{ksuffix}", stt, kwhere, text)
                if stt != core.DISCHARGED:
                    failing_levels.append(q)
                sib = sibs.get(q + 1)
                if sib is not None:
                    stt, text, point = om.within_span(sib)
                    ob("C09.5", f"{Q}: a resolution-{q} cell sorts inside the span of its resolution-{q + 1} children{ksuffix}", stt, kwhere, text)
                    if stt != core.DISCHARGED:
                        failing_levels.append(q)
            levels = sorted({q + 1 for q in failing_levels} | {q + 2 for q in failing_levels})
            levels = [l for l in levels if l <= MAX]
            if levels:
                wit = interleaving_witnesses(om, sibs, levels)
                for rho, r2, vals, point in wit:
                    ob("C09.4", f"{Q}: a complete sibling group of resolution {rho} is interleaved by an unrelated resolution-{r2} cell{ksuffix}",
                       core.VIOLATED, kwhere,
                       f"sort keys: first sibling {vals[0]:#x} < foreign cell {vals[2]:#x} < last sibling {vals[1]:#x} at {point}; the foreign cell is "
                       f"neither ancestor nor descendant of the group, so the input is an antichain, the siblings are not adjacent after sorting "
                       f"and the group is never merged")
                if not wit:
                    ob("C09.4", f"{Q}: adjacency of sibling groups at resolutions {levels}{ksuffix}", core.UNDECIDED, kwhere,
                       "the order argument fails there and no concrete interleaving was found on the searched grid")
            else:
                ob("C09.4", f"{Q}: sibling groups of an antichain are adjacent after sorting, at every resolution{ksuffix}", core.DISCHARGED,
                   kwhere,
                   "derived: monotone parent maps make the descendants of a cell an interval of each finer level; parents inside their children's span "
                   "keep coarser unrelated cells outside that interval")
        except (Budget, _Unmodelled) as e:
            ob("C09.4", f"{Q}: order model", core.UNDECIDED, kwhere, f"{type(e).__name__}: {e}")
    return st, su, sibs


def check_paths(ob, st: Structure, sib: Siblings, paths: List[BodyPath], r: int) -> int:
    where = core.loc(COMPACT, st.inner)
    tag = f"{Q} scan at a resolution-{r} cell"
    merges = 0
    copy_seen = False
    current = sib.cell
    from .absint import subst_value as _subst

    def same_symbol(v):
        # a guard such as `A != 0` narrows the range of the position symbol; the narrowed symbol is the same quantity
        for _ in range(4):
            lins = [v] if isinstance(v, Lin) else ([v.left, v.right] if isinstance(v, CondV) else [])
            narrowed = [sy for l in lins for sy in l.syms() if sy.name == sib.A.name and sy.key != sib.A.key]
            if not narrowed:
                break
            v = _subst(v, narrowed[0], sib.A)
        return v
    for p in paths:
        p.appended = [same_symbol(x) for x in p.appended]
        p.conds = [(same_symbol(c), t) for c, t in p.conds]
        pc = " and ".join(f"{'' if t else 'not '}{c}" for c, t in p.conds) or "unconditional"
        # a path on which the sibling position is known to be 0 sees the cell with that value filled in
        at_zero = any(cond_is_position_zero(c, t, sib.A) is True for c, t in p.conds)
        cell_here = sib.cell
        if at_zero:
            for sy in [sy for sy in cell_here.syms() if sy.name == sib.A.name]:
                cell_here = _subst(cell_here, sy, 0)
        current = cell_here
        if p.signal not in (None, ("continue",)):
            kind = p.signal[0]
            if kind == "raise":
                lost = any(c.left.has_opaque(True) or c.right.has_opaque(True) for c, _t in p.conds)
                ob("C08.1", f"{tag}: raises {p.signal[1]}", core.UNDECIDED if lost else core.VIOLATED, where,
                   f"path [{pc}]" + (" -- on a condition the analysis does not model" if lost else ""))
            else:
                ob("C08.1", f"{tag}: leaves the scan by `{kind}`", core.UNDECIDED, where, f"path [{pc}]")
            continue
        for e in p.effects:
            if e[0] == "mutates-input":
                ob("C08.6", f"{tag}: `{e[1]}` modifies a list in place", core.VIOLATED, where, f"path [{pc}]")
        lost = [f"{'' if t else 'not '}{c}" for c, t in p.conds if (c.left.has_opaque(True) or c.right.has_opaque(True))]
        if lost:
            ob("C08.1", f"{tag}: a path of the scan depends on a condition the analysis does not model", core.UNDECIDED, where,
               f"{lost[:2]}: what this path emits and consumes is not judged")
            continue
        if len(p.appended) == 0 and isinstance(p.advance, Lin) and p.advance.is_const() and p.advance.const == 1 and \
                any((_sibling_equation(c, t) or (None, None))[0] == -1 and (_sibling_equation(c, t)[1] - current).is_const()
                    and (_sibling_equation(c, t)[1] - current).const == 0 for c, t in p.conds):
            ob("C08.1", f"{tag}: a repeat of the previous entry is skipped", core.DISCHARGED, where,
               f"path [{pc}]: the entry equals the one handled just before, whose area is already emitted (as itself or inside a parent)")
            continue
        if len(p.appended) != 1 or not isinstance(p.appended[0], Lin) or not isinstance(p.advance, Lin) or not p.advance.is_const():
            if len(p.appended) == 0 and isinstance(p.advance, Lin) and p.advance.is_const() and p.advance.const >= 1:
                ob("C08.1", f"{tag}: {p.advance.const} entries consumed, nothing emitted", core.VIOLATED, where, f"path [{pc}]: cells are lost")
            else:
                ob("C08.1", f"{tag}: effect of the iteration not determined", core.UNDECIDED, where, f"appended {p.appended}, advance {p.advance}; path [{pc}]")
            continue
        x, adv = p.appended[0], p.advance.const
        if x == sib.cell or x == cell_here:
            copy_seen = True
            if adv == 1:
                ob("C08.1", f"{tag}: copy path emits the cell and advances by 1", core.DISCHARGED, where, f"path [{pc}]")
            elif adv <= 0:
                ob("C08.1", f"{tag}: copy path does not advance the index", core.VIOLATED, where, f"advance {adv} on path [{pc}]: the scan never ends")
            else:
                ob("C08.1", f"{tag}: copy path skips {adv - 1} entries", core.VIOLATED, where, f"path [{pc}]: cells are lost")
            if p.flag is not False:
                ob("C09.3", f"{tag}: a pass that copies a cell reports a change", core.VIOLATED, where, f"flag = {p.flag} on path [{pc}]: the pass loop does not terminate")
            continue
        # ---- merge path --------------------------------------------------------------------------------
        merges += 1
        opaque = [f"{'' if t else 'not '}{c}" for c, t in p.conds if (c.left.has_opaque(True) or c.right.has_opaque(True))]
        if opaque:
            ob("C08.2", f"{tag}: merge guarded by a condition the analysis does not model", core.UNDECIDED, where,
               f"{opaque[:2]}: whether this path merges exactly a complete sibling group is not decided")
            continue
        first = [cond_is_position_zero(c, t, sib.A) for c, t in p.conds]
        if True in first:
            # the path condition fixes the sibling position to 0: what is emitted is judged under that condition
            from .absint import subst_value
            for sy in [sy for sy in x.syms() if sy.name == sib.A.name]:
                x = subst_value(x, sy, 0)
        # the expected parent as this path knows it: a guard further down the path (e.g. a test on the emitted parent) may have
        # narrowed face / segment / position, and the emitted form carries that knowledge
        want_parent = same_symbol(p.watched["parent"]) if isinstance(p.watched.get("parent"), Lin) else sib.parent
        if True in first:
            for sy in [sy for sy in want_parent.syms() if sy.name == sib.A.name]:
                want_parent = subst_value(want_parent, sy, 0)
        stt, text = same_or_refuted(x, want_parent, 0)
        ob("C08.1", f"{tag}: merge path emits the parent of the group", stt, where, text)
        if True in first:
            ob("C08.2", f"{tag}: merge only when the cell is the first child of its parent", core.DISCHARGED, where,
               f"path condition contains `{[str(c) for (c, t), f in zip(p.conds, first) if f][0]}` (sibling position 0)")
        elif False in first:
            bad = [f"{'' if t else 'not '}{c}" for (c, t), f in zip(p.conds, first) if f is False]
            # a cell at a sibling position other than 0 that passes every condition the path puts on the cell itself
            about = [(c, t) for (c, t), f in zip(p.conds, first) if f is False and not _mentions_cells(c)]
            bad = [f"{'' if t else 'not '}{c}" for c, t in about] or bad
            forms = [x for c, t in about for x in (c.left, c.right)] + [Lin.of(sib.A)]

            def passes(vals, about=about):
                for i, (c, t) in enumerate(about):
                    l, r = vals[2 * i], vals[2 * i + 1]
                    holds = {"==": l == r, "!=": l != r, "<": l < r, "<=": l <= r, ">": l > r, ">=": l >= r}[c.op]
                    if holds != t:
                        return False
                return vals[-1] != 0
            from .compact_model import find_valuation
            wit = find_valuation(forms, passes)
            if wit is not None:
                ob("C08.2", f"{tag}: first-child test does not single out sibling position 0", core.VIOLATED, where,
                   f"the merge path requires {bad} about the sibling position A in [0, {sib.k - 1}]; the cell at {wit[1]} (position {wit[0][-1]}) passes it, "
                   f"so entries that are not the children of the emitted parent are replaced")
            else:
                ob("C08.2", f"{tag}: first-child test is not the plain test on the sibling position", core.UNDECIDED, where,
                   f"the merge path requires {bad}; no cell at a position other than 0 that passes it was found on the searched grid")
        else:
            ob("C08.2", f"{tag}: merge without a first-child test", core.VIOLATED, where,
               f"path [{pc}] merges {adv} consecutive entries starting at ANY sibling position and emits cell_to_parent(cell): "
               f"entries that are not its children are replaced")
        eqs: Dict[int, Lin] = {}
        extra = []
        window: Optional[int] = None
        for c, t in p.conds:
            e = _sibling_equation(c, t)
            if e is not None:
                eqs[e[0]] = e[1]
                continue
            w = _window_threshold(c, t)
            if w is not None:
                window = w if window is None else max(window, w)
                continue
            if cond_is_position_zero(c, t, sib.A) is not None:
                continue
            extra.append(f"{'' if t else 'not '}{c}")
        missing = [j for j in range(1, sib.k) if j not in eqs]
        wrong = []
        unsure = []
        for j in range(1, sib.k):
            if j in eqs:
                base_here = same_symbol(p.watched["base"]) if isinstance(p.watched.get("base"), Lin) else sib.base
                if at_zero:
                    for sy in [sy for sy in base_here.syms() if sy.name == sib.A.name]:
                        base_here = _subst(base_here, sy, 0)
                want = base_here + sib.stride * j
                got = eqs[j]
                if at_zero:
                    for sy in [sy for sy in got.syms() if sy.name == sib.A.name]:
                        got = _subst(got, sy, 0)
                got = drop_symbol(got, sib.A)
                if got != want:
                    stt_, text_ = same_or_refuted(got, want, 0)
                    if stt_ == core.VIOLATED:
                        wrong.append((j, got, want, text_))
                    elif stt_ != core.DISCHARGED:
                        unsure.append((j, got, want))
        if adv != sib.k:
            ob("C08.3", f"{tag}: merge consumes {adv} entries, a complete group has {sib.k}", core.VIOLATED, where,
               f"path [{pc[:200]}]")
        else:
            ob("C08.3", f"{tag}: merge consumes {sib.k} entries", core.DISCHARGED, where, "group size equals the fan-out of cell_to_children at this level")
        if missing:
            ob("C08.2", f"{tag}: merge without checking sibling(s) {missing}", core.VIOLATED, where,
               f"entries at i+{missing} are replaced by the parent without being compared; checked: {sorted(eqs)}")
        if wrong:
            j, got, want, text_ = wrong[0]
            # can a sorted, duplicate-free list match the expected (wrong) ids at all?  If the expected sequence is not strictly
            # ascending at the witness, the merge simply never fires there: nothing is replaced (C08 safe), a complete group stays (C09)
            matchable = True
            try:
                from .codec import refute_equal, eval_lin
                pt = refute_equal(got, want, 0)
                if pt is not None:
                    def fnval(atom, args):
                        tb = codec.TABLES.get(atom.name)
                        if tb is not None and len(args) == 1 and 0 <= args[0] < len(tb):
                            return tb[args[0]]
                        raise KeyError(atom)
                    seq_forms = [cell_here] + [eqs[jj] for jj in range(1, sib.k) if jj in eqs]
                    full = dict(pt)
                    for f_ in seq_forms:
                        for sy in f_.syms():
                            full.setdefault(sy.name, sy.lo if sy.lo is not None else 0)
                    seq = [eval_lin(f_, full, fnval) for f_ in seq_forms]
                    matchable = all(a_ < b_ for a_, b_ in zip(seq, seq[1:]))
            except Exception:
                matchable = True
            if matchable:
                ob("C08.4", f"{tag}: expected sibling {j} is {got}, the real sibling is {want}", core.VIOLATED, where,
                   f"stride/first-child helpers disagree with the id layout: real siblings are first + j*{sib.stride}; {text_}")
            else:
                ob("C08.4", f"{tag}: entry i+{j} is compared with {got}, not with the sibling {want}; no sorted list matches", core.DISCHARGED, where,
                   f"{text_}; the expected ids are not ascending there, so this merge never fires for such a cell and nothing is replaced")
                ob("C09.6", f"{tag}: a complete sibling group is not recognised", core.VIOLATED, where,
                   f"entry i+{j} is compared with {got} instead of the sibling {want}: {text_}; the group of that parent is never merged")
        if unsure and not wrong:
            j, got, want = unsure[0]
            ob("C08.4", f"{tag}: expected sibling {j} is {got}", core.UNDECIDED, where, f"not shown equal to the real sibling {want}, and no cell found where they differ")
        if not missing and not wrong and not unsure:
            ob("C08.2", f"{tag}: merge only when entries i+1..i+{sib.k - 1} equal first + j*stride", core.DISCHARGED, where,
               f"{sib.k - 1} equalities against the real sibling ids (stride {sib.stride})")
        if window is None:
            ob("C08.2", f"{tag}: merge without a bound check on the index window", core.UNDECIDED, where, f"path [{pc[:200]}]")
        else:
            if window < sib.k:
                ob("C08.2", f"{tag}: window check admits n - i >= {window} < {sib.k}", core.VIOLATED, where,
                   "current_cells[i + j] can be read beyond the end of the list (IndexError)")
            else:
                ob("C08.2", f"{tag}: index window checked", core.DISCHARGED, where, f"n - i >= {window}")
            if window > sib.k:
                ob("C09.2", f"{tag}: a group that ends exactly at the end of the list is not merged", core.VIOLATED, where,
                   f"the merge requires n - i >= {window} but a complete group needs only {sib.k} entries")
            elif window == sib.k:
                ob("C09.2", f"{tag}: a group at the end of the list is merged", core.DISCHARGED, where, f"n - i >= {sib.k}")
        if extra:
            ob("C09.6", f"{tag}: merge requires additional conditions {extra[:3]}", core.UNDECIDED, where,
               "a complete, adjacent sibling group might be left un-merged when they fail")
        if p.flag is True:
            ob("C09.3", f"{tag}: a merge reports a change", core.DISCHARGED, where, "flag set on the merge path")
        else:
            ob("C09.3", f"{tag}: a merge does not report a change", core.VIOLATED, where,
               f"flag = {p.flag}: the pass loop stops although parents produced in this pass may complete a group of the next level")
    n_lost = sum(1 for p in paths if any(c.left.has_opaque(True) or c.right.has_opaque(True) for c, _t in p.conds))
    if merges == 0:
        ob("C09.6", f"{tag}: no path merges a complete sibling group", core.UNDECIDED if n_lost else core.VIOLATED, where,
           f"{len(paths)} paths, none emits the parent" + (f" ({n_lost} of them not modelled)" if n_lost else ": groups of this resolution are never compacted"))
    return merges
