"""Shared-state rules used by C16 (threads) and C17 (history): classification of every write to a module-level
object that is reachable from the public API, with structural verification of the admitted kinds."""
from __future__ import annotations

import ast
import re
from dataclasses import dataclass, field
from typing import Dict, List, Optional, Set, Tuple

from . import core
from .effects import Effects, MutRec
from .model import FuncInfo, Model

FLOORS = {"modules": 20, "functions": 100, "call_sites": 400, "api_roots": 13}


@dataclass
class SharedWrite:
    obj: str                    # root object (qualified), with the field name when the write goes through `self.<field>`
    field: Optional[str]
    owner: str                  # API-reachable function in which the shared object becomes the target
    origin_func: str            # function containing the store statement
    origin_line: int
    origin_text: str
    kinds: Set[str] = field(default_factory=set)
    chain: Tuple[Tuple[str, int], ...] = ()
    depth: int = 0
    owner_line: int = 0
    records: List[Tuple[str, int, str]] = field(default_factory=list)     # (kind, line in origin_func, text)

    @property
    def name(self) -> str:
        return f"{self.obj}.{self.field}" if self.field else self.obj


class World:
    """model + effects + reachability, built once per check run"""

    def __init__(self, ctx):
        self.ctx = ctx
        self.model = Model(ctx.sources)
        self.eff = Effects(self.model)
        global CURRENT_EFF
        CURRENT_EFF = self.eff
        st = self.model.stats()
        self.stats = st
        self.roots = self.model.api_roots()
        ctx.floor("modules parsed", st["modules"], FLOORS["modules"])
        ctx.floor("functions modelled", st["functions"], FLOORS["functions"])
        ctx.floor("call sites", st["call_sites"], FLOORS["call_sites"])
        ctx.floor("API roots resolved", len(self.roots), FLOORS["api_roots"], soft=True)
        resolved = st["call_sites"] - st["unresolved_call_sites"]
        if resolved * 100 < st["call_sites"] * 98:
            ctx.unk(f"{ctx.prop}.0", "call graph: resolved call sites", "", f"only {resolved}/{st['call_sites']} call sites resolved (< 98 %): "
                    "which code a public function reaches is not known well enough; what is reported below is about the resolved part")
        for f, n, nm in self.model.precondition_lost:
            if f.rsplit(".", 1)[-1] in ("__getattr__", "__dir__") and self.model.funcs.get(f) is not None and not self.model.funcs[f].cls:
                continue        # PEP 562 module attribute hook: resolves names of the package lazily, calls nothing on behalf of the API
            ctx.unk(f"{ctx.prop}.0", f"reflective call {nm}() in {f}", f"{self.model.funcs[f].rel}:{n.lineno}" if f in self.model.funcs else "",
                    "the call graph cannot follow a callee chosen by name at run time: reachability from the public functions is incomplete")
        self.reach = self.model.reachable(self.roots)
        self.unknown_decorators = [(f, d) for f, d in self.model.unknown_decorators() if f in self.model.reachable(self.roots)]
        ctx.analysed.update({"modules": st["modules"], "functions": st["functions"], "classes": st["classes"], "call_sites": st["call_sites"],
                             "unresolved_call_sites": st["unresolved_call_sites"], "api_roots": self.roots,
                             "api_reachable_functions": len(self.reach), "summary_rounds": self.eff.rounds})

    def rel_of(self, func: str) -> str:
        return self.model.funcs[func].rel

    def path_to(self, func: str) -> str:
        return " -> ".join(p.split(".", 2)[-1] if p.startswith("a5.") else p for p in self.model.call_path(self.reach, func))

    def reached_by_name_only(self, sw: "SharedWrite") -> Optional[str]:
        """a call on the way from the owner to the store whose receiver class is not known (resolved by method name to several
        classes): the effect may belong to another class's method and is no evidence against this object"""
        for cf, cl in sw.chain:
            for cs in self.model.calls.get(cf, []):
                if getattr(cs.node, "lineno", -1) == cl and cs.by_name:
                    return f"`{core.src(cs.node)[:60]}` in {cf} line {cl} is resolved by method name only ({len(cs.callees)} candidate classes)"
        return None

    threads_view = False      # set by the C16 check: objects private to a thread are not shared between threads

    def thread_private(self, root: str) -> bool:
        """the module-level object is an instance of a repository class derived from threading.local whose attributes are set in
        its __init__ (which runs once per thread); the `initialised once at import` pitfall of a bare threading.local() is C16.4"""
        base = root
        while base and base not in self.model.var_class and base not in self.model.module_vars and "." in base:
            base = base.rsplit(".", 1)[0]
        bd = self.model.module_vars.get(base)
        if bd is not None and isinstance(bd.node, ast.Call) and core.src(bd.node.func) in ("threading.local", "local"):
            return True             # a bare threading.local(): whatever hangs below it belongs to one thread
        cq = self.model.var_class.get(base)
        if not cq:
            return False
        for k in self.model.mro(cq):
            node = self.model.classes[k].node
            if any(core.src(b) in ("threading.local", "local") for b in node.bases):
                return True
        return False

    def shared_writes(self) -> List[SharedWrite]:
        groups: Dict[Tuple[str, Optional[str], str, str], SharedWrite] = {}
        for f in sorted(self.reach):
            fa = self.eff.analyses.get(f)
            if fa is None:
                continue
            for g in fa.global_mutations():
                root = g.target[1]
                if self.threads_view and self.thread_private(root):
                    continue          # reached only through a threading.local subclass instance: each thread has its own
                fld = None
                m = re.search(r"\bself\.(\w+)", g.origin_text)
                if g.target[2] >= 1 and self.eff.is_instance_object(root):
                    fld = m.group(1) if m else infer_field(self.model, g.origin_func, g.origin_text)
                    if fld is None:
                        # written through a helper: the call site inside a method of the object names the field
                        for cf, cl in reversed(g.chain):
                            cfi = self.model.funcs.get(cf)
                            if cfi is not None and cfi.cls:
                                lines = self.model.sources.files[cfi.rel].splitlines()
                                if 0 < cl <= len(lines):
                                    mm = re.search(r"\bself\.(\w+)", lines[cl - 1])
                                    if mm:
                                        fld = mm.group(1)
                                        break
                key = (root, fld, f, g.origin_func)
                sw = groups.get(key)
                if sw is None:
                    sw = groups[key] = SharedWrite(root, fld, f, g.origin_func, g.origin_line, g.origin_text, set(), g.chain, g.target[2])
                sw.kinds.add(g.kind)
                if (g.kind, g.origin_line, g.origin_text) not in sw.records:
                    sw.records.append((g.kind, g.origin_line, g.origin_text))
                if g.origin_line < sw.origin_line:
                    sw.origin_line, sw.origin_text = g.origin_line, g.origin_text
                if g.chain:
                    sw.owner_line = g.chain[0][1] if sw.owner_line == 0 else min(sw.owner_line, g.chain[0][1])
                elif sw.owner_line == 0:
                    sw.owner_line = g.origin_line
        return list(groups.values())


def published_before(model: Model, func: str, field: str, line: int) -> Optional[int]:
    """line of a statement of `func` that stores an object into `self.<field>` (slot store / setdefault / append) and
    precedes `line` in the same function -- i.e. the object written at `line` was already visible to other threads"""
    fi = model.funcs.get(func)
    if fi is None or fi.is_module_body:
        return None
    best = None
    for n in ast.walk(fi.node):
        ln = getattr(n, "lineno", None)
        if ln is None or ln >= line:
            continue
        hit = False
        if isinstance(n, ast.Assign):
            for t in n.targets:
                if isinstance(t, ast.Subscript) and re.search(r"\bself\.%s\b" % re.escape(field), core.src(t.value)):
                    hit = True
                elif isinstance(t, ast.Subscript) and isinstance(t.value, ast.Name):
                    # alias of the field:  cache = self.field ; cache[key] = ...
                    for m in ast.walk(fi.node):
                        if isinstance(m, ast.Assign) and any(isinstance(x, ast.Name) and x.id == t.value.id for x in m.targets) and _is_self_field(m.value, field):
                            hit = True
        elif isinstance(n, ast.Call) and isinstance(n.func, ast.Attribute) and n.func.attr in ("setdefault", "append", "update", "add") \
                and re.search(r"\bself\.%s\b" % re.escape(field), core.src(n.func.value)):
            hit = True
        if hit:
            best = ln if best is None else min(best, ln)
    return best


def infer_field(model: Model, func: str, text: str) -> Optional[str]:
    """`constants['k'] = v` where `constants = self.cache.get(key)`: the field through which the written object was reached"""
    fi = model.funcs.get(func)
    m = re.match(r"\s*(\w+)", text)
    if fi is None or fi.is_module_body or not m:
        return None
    name = m.group(1)
    seen: Set[str] = set()
    todo = [name]
    while todo:
        nm = todo.pop()
        if nm in seen:
            continue
        seen.add(nm)
        for n in ast.walk(fi.node):
            if isinstance(n, ast.Assign) and nm in {x for t in n.targets for x in _names(t)}:
                mm = re.search(r"\bself\.(\w+)", core.src(n.value))
                if mm:
                    return mm.group(1)
                todo.extend(_names(n.value) - seen)
    return None


DEFINITE_KINDS = ("subscript-store:const", "attr-aug:", "method:sort", "method:reverse", "method:clear", "method:pop", "method:remove",
                  "method:insert", "method:extend", "method:popitem", "method:discard", "del", "global-rebind:", "subscript-aug", "aug-assign",
                  "method:popleft", "method:appendleft", "method:extendleft", "method:rotate", "method:move_to_end", "method:subtract",
                  "method:difference_update", "method:intersection_update", "method:symmetric_difference_update")


def _mentions(text: str, base: str) -> bool:
    """`base` occurs in `text` as a whole (dotted) name, not as part of a longer identifier"""
    return re.search(r"(?<![\w.])" + re.escape(base) + r"(?![\w])", text) is not None


def store_is_rmw(model: Model, func: str, line: int) -> bool:
    """Is the keyed store at `line` of `func` a read-modify-write of the container (value computed from what the
    container held, e.g. `for i, v in enumerate(self.xs): self.xs[i] = f(v)`)?"""
    fi = model.funcs.get(func)
    if fi is None:
        return False
    fn = fi.node
    for st in ast.walk(fn):
        if isinstance(st, ast.Assign) and st.lineno == line:
            for t in st.targets:
                if isinstance(t, ast.Subscript):
                    base = core.src(t.value)
                    seeds = _names(st.value)
                    deps = derive_vars(fn, seeds)
                    if _mentions(core.src(st.value), base):
                        return True
                    # names bound by iterating / indexing the same container
                    for n in ast.walk(fn):
                        if isinstance(n, ast.For) and _mentions(core.src(n.iter), base) and (_names(n.target) & deps):
                            # the loop index alone does not carry content
                            carried = set()
                            if isinstance(n.iter, ast.Call) and core.src(n.iter.func) == "enumerate" and isinstance(n.target, ast.Tuple) and len(n.target.elts) == 2:
                                carried = _names(n.target.elts[1])
                            else:
                                carried = _names(n.target)
                            if carried & deps:
                                return True
                        if isinstance(n, ast.Assign) and isinstance(n.value, ast.Subscript) and core.src(n.value.value) == base and (_names(n.targets[0]) & deps):
                            return True
    return False


def is_lazy_memo_attribute(model: Model, attr: str) -> bool:
    """`.attr` is a lazily computed memo of its own object: every store to it is `self.attr = <value derived from self only>`
    inside a method, so racing or repeated fills store the same value (provided the object is not otherwise mutated)."""
    stores = 0
    for fq, fi in model.funcs.items():
        if fi.is_module_body:
            continue
        for n in ast.walk(fi.node):
            if isinstance(n, (ast.Assign, ast.AugAssign)):
                tgs = n.targets if isinstance(n, ast.Assign) else [n.target]
                for t in tgs:
                    if isinstance(t, ast.Attribute) and t.attr == attr:
                        if isinstance(n, ast.AugAssign) or not fi.cls or not (isinstance(t.value, ast.Name) and t.value.id == "self"):
                            return False
                        stores += 1
                        deps = derive_vars(fi.node, _names(n.value))
                        params = set(fi.params) - {"self"}
                        if deps & params:
                            return False
    return stores > 0


def call_is_rmw(model: Model, func: str, line: int) -> bool:
    """Is the container-method call at `line` (append / add / setdefault / update ...) fed with a value computed from what
    the same container currently holds (its length or its elements)?  e.g.  level = len(T); T.append(f(level))"""
    fi = model.funcs.get(func)
    if fi is None:
        return False
    fn = fi.node
    for n in ast.walk(fn):
        if isinstance(n, ast.Call) and getattr(n, "lineno", -1) == line and isinstance(n.func, ast.Attribute):
            base = core.src(n.func.value)
            seeds: Set[str] = set()
            for a in list(n.args) + [k.value for k in n.keywords]:
                if _mentions(core.src(a), base):
                    return True
                seeds |= _names(a)
            deps = derive_vars(fn, seeds)
            for m in ast.walk(fn):
                if isinstance(m, ast.Assign) and _mentions(core.src(m.value), base) and (_names(m.targets[0]) & deps):
                    return True
    return False


def recognise_slot_memo(model: Model, func: str, attr: str) -> Optional[List[str]]:
    """One-slot memo  `k, v = self.attr; if k == arg: return v; ...; self.attr = (arg, value)`.
    Returns None if the function does not have that shape, else the list of problems (empty = exact-key memo whose
    value is a function of the compared arguments)."""
    fi = model.funcs.get(func)
    if fi is None or not fi.cls:
        return None
    fn = fi.node
    unpacked: Set[str] = set()
    for n in ast.walk(fn):
        if isinstance(n, ast.Assign) and _is_self_field(n.value, attr):
            unpacked |= _names(n.targets[0])
    stores = [n for n in ast.walk(fn) if isinstance(n, ast.Assign) and any(_is_self_field(t, attr) for t in n.targets)]
    if not unpacked or not stores:
        return None
    params = set(fi.params) - {"self"}
    problems: List[str] = []
    guards = []
    for n in ast.walk(fn):
        if isinstance(n, ast.If) and (_names(n.test) & unpacked) and any(isinstance(b, ast.Return) and b.value is not None and (_names(b.value) & unpacked) for b in n.body):
            guards.append(n)
    if not guards:
        return None
    compared: Set[str] = set()
    for g in guards:
        tests = g.test.values if isinstance(g.test, ast.BoolOp) and isinstance(g.test.op, ast.And) else [g.test]
        for t in tests:
            if isinstance(t, ast.Compare) and len(t.ops) == 1 and isinstance(t.ops[0], (ast.Eq, ast.Is)) and \
                    isinstance(t.left, ast.Name) and isinstance(t.comparators[0], ast.Name) and \
                    ({t.left.id, t.comparators[0].id} & unpacked) and ({t.left.id, t.comparators[0].id} & params):
                compared |= {t.left.id, t.comparators[0].id} & params
            else:
                problems.append(f"the remembered result is returned under `{core.src(t)}`, which is not an exact comparison of the remembered key with the argument")
    for st in stores:
        deps = derive_vars(fn, _names(st.value)) & params
        missing = deps - compared
        if missing and not problems:
            problems.append(f"the remembered value depends on {sorted(missing)}, which the hit test does not compare")
    return problems


WHOLE = "<whole object>"


def fields_read(model: Model, func: str, param: str, depth: int = 0, skip: Optional[Set[int]] = None) -> Set[object]:
    """first-level components of parameter `param` that `func` (and the repository functions it hands the parameter to) read:
    constant subscripts p["x"] / p[0]; WHOLE when the object is used in a way that is not resolved to components"""
    fi = model.funcs.get(func)
    if fi is None or fi.is_module_body or depth > 3:
        return {WHOLE}
    out: Set[object] = set()
    parents: Dict[int, ast.AST] = {}
    for pnode in ast.walk(fi.node):
        for c in ast.iter_child_nodes(pnode):
            parents[id(c)] = pnode
    sites = {id(cs.node): cs for cs in model.calls.get(func, [])}
    for n in ast.walk(fi.node):
        if skip and id(n) in skip:
            continue
        if isinstance(n, ast.Name) and n.id == param and isinstance(n.ctx, ast.Load):
            par = parents.get(id(n))
            if skip and any(id(a) in skip for a in _ancestors(n, parents)):
                continue
            if isinstance(par, ast.Subscript) and par.value is n and isinstance(par.slice, ast.Constant):
                out.add(par.slice.value)
            elif isinstance(par, ast.Call) and n in par.args and id(par) in sites and sites[id(par)].callees and len(sites[id(par)].callees) == 1:
                cs = sites[id(par)]
                callee = model.funcs[cs.callees[0]]
                idx = par.args.index(n) + (1 if cs.kind in ("method", "ctor") else 0)
                if idx < len(callee.params):
                    out |= fields_read(model, callee.qual, callee.params[idx], depth + 1)
                else:
                    out.add(WHOLE)
            elif isinstance(par, ast.Assign) and isinstance(par.targets[0], ast.Tuple) and par.value is n:
                out |= set(range(len(par.targets[0].elts)))
            else:
                out.add(WHOLE)
    return out


def _ancestors(n: ast.AST, parents: Dict[int, ast.AST]):
    cur = parents.get(id(n))
    while cur is not None:
        yield cur
        cur = parents.get(id(cur))


def lazy_constant(model: Model, func: str, name: str) -> Optional[str]:
    """`global NAME` published once: every assignment to NAME in `func` stores a value that does not depend on the function's
    parameters (a table built on first use), and the function tests NAME (or a local copy of it) against None before building.
    Racing threads then store equal values, and a reader sees None or the complete object.  Returns a description, or None."""
    fi = model.funcs.get(func)
    if fi is None or fi.is_module_body:
        return None
    fn = fi.node
    if not any(isinstance(n, ast.Global) and name in n.names for n in ast.walk(fn)):
        return None
    params = {a.arg for a in fn.args.args + fn.args.kwonlyargs}
    if params or fn.args.vararg or fn.args.kwarg:
        # data dependence alone would miss `if f(point) < best: nearest = origin` (the choice depends on the argument): only a
        # function without parameters is certain to build the same value whenever it runs
        return None
    assigns = [n for n in ast.walk(fn) if isinstance(n, ast.Assign) and any(isinstance(t, ast.Name) and t.id == name for t in n.targets)]
    if not assigns or any(isinstance(n, ast.AugAssign) and isinstance(n.target, ast.Name) and n.target.id == name for n in ast.walk(fn)):
        return None
    copies = {name} | {t.id for n in ast.walk(fn) if isinstance(n, ast.Assign) and isinstance(n.value, ast.Name) and n.value.id == name
                       for t in n.targets if isinstance(t, ast.Name)}

    def block_of(stmt):
        for n in ast.walk(fn):
            for fld in ("body", "orelse", "finalbody"):
                b = getattr(n, fld, None)
                if isinstance(b, list) and any(x is stmt for x in b):
                    return b
        return None
    for a in assigns:
        value = a.value
        if isinstance(value, ast.Name) and value.id in copies and value.id != name:
            # the local that is published: what was it bound to just before, in the same block?
            blk = block_of(a) or []
            prev = None
            for st in blk:
                if st is a:
                    break
                if isinstance(st, ast.Assign) and any(isinstance(t, ast.Name) and t.id == value.id for t in st.targets):
                    prev = st.value
            if prev is None:
                return None
            value = prev
        deps = derive_vars(fn, _names(value)) if not isinstance(value, ast.Name) or value.id not in copies else {name}
        if isinstance(value, ast.Name):
            deps = derive_vars(fn, {value.id})
        if deps & params or deps & copies:
            return None        # computed from an argument, or from the value it replaces (an update, not a first-use construction)
    tested = any(isinstance(n, (ast.If, ast.While, ast.IfExp)) and any(isinstance(x, ast.Name) and x.id in copies for x in ast.walk(n.test))
                 for n in ast.walk(fn))
    if not tested:
        return None
    return (f"`{core.src(assigns[0])[:70]}`: the stored value is computed neither from a parameter of {func.rsplit('.', 1)[-1]} nor from the "
            f"value it replaces, and the variable is tested before it is (re)built")


def filled_after_publication(model: Model, func: str, name: str) -> Optional[str]:
    """`global NAME` is assigned an object that the same function goes on filling afterwards (through another name for the same
    object): a thread on the lock-free fast path can read it half-built.  Returns a description, or None."""
    fi = model.funcs.get(func)
    if fi is None:
        return None
    fn = fi.node
    for a in ast.walk(fn):
        if not (isinstance(a, ast.Assign) and any(isinstance(t, ast.Name) and t.id == name for t in a.targets)):
            continue
        aliases = {t.id for t in a.targets if isinstance(t, ast.Name) and t.id != name}
        if isinstance(a.value, ast.Name):
            aliases.add(a.value.id)
        aliases.add(name)
        for n in ast.walk(fn):
            line = getattr(n, "lineno", 0)
            if line <= a.lineno:
                continue
            if isinstance(n, (ast.Assign, ast.AugAssign)):
                tgts = n.targets if isinstance(n, ast.Assign) else [n.target]
                for t in tgts:
                    if isinstance(t, ast.Subscript) and isinstance(t.value, ast.Name) and t.value.id in aliases:
                        return (f"`{core.src(a)[:60]}` (line {a.lineno}) publishes the object, `{core.src(n)[:60]}` (line {line}) is still filling it")
            if isinstance(n, ast.Call) and isinstance(n.func, ast.Attribute) and isinstance(n.func.value, ast.Name) and n.func.value.id in aliases \
                    and n.func.attr in ("append", "extend", "update", "add", "insert", "setdefault", "appendleft"):
                return (f"`{core.src(a)[:60]}` (line {a.lineno}) publishes the object, `{core.src(n)[:60]}` (line {line}) is still filling it")
    return None


def recognise_global_memo(model: Model, func: str) -> Optional[List[str]]:
    """One-slot memo kept in module-level variables:  key = (..args..); if key == STORED_KEY: return STORED_VALUE; ...
    None if the function does not have that shape; else the list of problems (empty: exact-key memo whose key covers
    everything the remembered value is computed from)."""
    fi = model.funcs.get(func)
    if fi is None or fi.is_module_body:
        return None
    fn = fi.node
    globs: Set[str] = set()
    for n in ast.walk(fn):
        if isinstance(n, ast.Global):
            globs |= set(n.names)
    if not globs:
        return None
    # locals that alias a global:  last = _last_pentagon
    alias = {t.id: n.value.id for n in ast.walk(fn) if isinstance(n, ast.Assign) and isinstance(n.value, ast.Name) and n.value.id in globs
             for t in n.targets if isinstance(t, ast.Name)}

    def from_global(e: ast.AST) -> bool:
        return any(isinstance(x, ast.Name) and (x.id in globs or x.id in alias) for x in ast.walk(e))
    key_assign = None
    for n in ast.walk(fn):
        if isinstance(n, ast.Assign) and len(n.targets) == 1 and isinstance(n.targets[0], ast.Name) and isinstance(n.value, ast.Tuple) \
                and not from_global(n.value):
            key_assign = n
            break
    if key_assign is None:
        return None
    key_name = key_assign.targets[0].id
    tests = []
    for n in ast.walk(fn):
        if isinstance(n, ast.Compare) and len(n.ops) == 1 and any(isinstance(x, ast.Name) and x.id == key_name for x in ast.walk(n)) and from_global(n):
            tests.append(n)
    if not tests:
        return None
    problems: List[str] = []
    for t in tests:
        if not isinstance(t.ops[0], (ast.Eq, ast.NotEq)):
            problems.append(f"hit test `{core.src(t)}` is not an exact comparison of the key")
    params = [p for p in fi.params if p != "self"]
    skip = {id(x) for x in ast.walk(key_assign)}
    # which components of the parameters the key and the remembered values are computed from, through the function's local
    # variables (flow-insensitive closure over its assignments; `a, b = p["x"], p["y"]` element by element)
    local_deps: Dict[str, Set[Tuple[str, object]]] = {}

    def expr_deps(e: ast.AST) -> Set[Tuple[str, object]]:
        out: Set[Tuple[str, object]] = set()
        par: Dict[int, ast.AST] = {}
        for pn in ast.walk(e):
            for c in ast.iter_child_nodes(pn):
                par[id(c)] = pn
        for x in ast.walk(e):
            if isinstance(x, ast.Name) and isinstance(x.ctx, ast.Load):
                if x.id in params:
                    pr_ = par.get(id(x))
                    if isinstance(pr_, ast.Subscript) and pr_.value is x and isinstance(pr_.slice, ast.Constant):
                        out.add((x.id, pr_.slice.value))
                    elif isinstance(pr_, ast.Attribute) and pr_.value is x:
                        out.add((x.id, pr_.attr))
                    else:
                        out.add((x.id, WHOLE))
                out |= local_deps.get(x.id, set())
        return out
    changed_ = True
    rounds_ = 0
    while changed_ and rounds_ < 10:
        changed_, rounds_ = False, rounds_ + 1
        for n in ast.walk(fn):
            pairs_ = []
            if isinstance(n, ast.Assign):
                for t in n.targets:
                    if isinstance(t, ast.Tuple) and isinstance(n.value, ast.Tuple) and len(t.elts) == len(n.value.elts):
                        pairs_.extend(zip(t.elts, n.value.elts))
                    else:
                        pairs_.append((t, n.value))
            elif isinstance(n, ast.AugAssign):
                pairs_.append((n.target, n.value))
            elif isinstance(n, ast.AnnAssign) and n.value is not None:
                pairs_.append((n.target, n.value))
            for t, v in pairs_:
                d_ = expr_deps(v)
                for x in ast.walk(t):
                    if isinstance(x, ast.Name) and x.id not in globs and x.id not in params:
                        cur_ = local_deps.setdefault(x.id, set())
                        if not d_ <= cur_:
                            cur_ |= d_
                            changed_ = True
    key_deps = expr_deps(key_assign.value)
    value_deps: Set[Tuple[str, object]] = set()
    n_value_stores = 0
    for n in ast.walk(fn):
        if isinstance(n, ast.Assign) and any(isinstance(t, ast.Name) and t.id in globs for t in n.targets):
            if isinstance(n.value, ast.Name) and n.value.id == key_name:
                continue
            n_value_stores += 1
            value_deps |= expr_deps(n.value)
    through_locals = any(isinstance(x, ast.Name) and x.id in local_deps for x in ast.walk(key_assign.value))
    if through_locals and n_value_stores:
        # The key is built from local variables.  Judge at the granularity of the key's ELEMENTS: a quantity is *determined* by
        # the key if it is one of its elements, a constant / module-level name, or computed only from determined quantities.
        # (Comparing which parameter fields key and value depend on is not enough: `quintant, orientation = f(cell["segment"],
        # cell["origin"])` with only `quintant` in the key leaves `orientation` free although both depend on the same fields.)
        elems = key_assign.value.elts if isinstance(key_assign.value, ast.Tuple) else [key_assign.value]
        det_names = {e.id for e in elems if isinstance(e, ast.Name)} | {key_name}
        det_exprs = {core.src(e) for e in elems}
        id_owners = {core.src(e.value) for e in elems if isinstance(e, ast.Attribute) and e.attr in ("id", "index", "key")}
        local_names = {x.id for x in ast.walk(fn) if isinstance(x, ast.Name) and isinstance(x.ctx, ast.Store)} - globs
        defs: Dict[str, List[ast.AST]] = {}
        for n in ast.walk(fn):
            if isinstance(n, ast.Assign):
                for t in n.targets:
                    if isinstance(t, ast.Tuple) and isinstance(n.value, ast.Tuple) and len(t.elts) == len(n.value.elts):
                        for tt, vv in zip(t.elts, n.value.elts):
                            if isinstance(tt, ast.Name):
                                defs.setdefault(tt.id, []).append(vv)
                    else:
                        for x in ast.walk(t):
                            if isinstance(x, ast.Name) and isinstance(x.ctx, ast.Store):
                                defs.setdefault(x.id, []).append(n.value)
            elif isinstance(n, (ast.AugAssign, ast.AnnAssign)) and isinstance(n.target, ast.Name) and n.value is not None:
                defs.setdefault(n.target.id, []).append(n.value)
            elif isinstance(n, (ast.For, ast.comprehension)):
                for x in ast.walk(n.target):
                    if isinstance(x, ast.Name):
                        defs.setdefault(x.id, []).append(n.iter)
        hard_leaves: List[str] = []
        soft_leaves: List[str] = []
        busy: Set[str] = set()

        def is_det(e: ast.AST) -> bool:
            if isinstance(e, ast.Constant):
                return True
            if core.src(e) in det_exprs:
                return True
            if isinstance(e, ast.Name):
                if e.id in det_names:
                    return True
                if e.id in params:
                    hard_leaves.append(e.id)
                    return False
                if e.id in globs:
                    return True          # the memo's own variables
                if e.id not in local_names:
                    return True          # module-level name / builtin
                if e.id in busy:
                    return True
                busy.add(e.id)
                ok = all(is_det(v) for v in defs.get(e.id, [])) and bool(defs.get(e.id))
                busy.discard(e.id)
                return ok
            if isinstance(e, ast.Attribute):
                if core.src(e.value) in id_owners:
                    soft_leaves.append(core.src(e))       # another attribute of a record whose identity attribute is in the key
                    return False
                return is_det(e.value)
            if isinstance(e, ast.Subscript):
                if isinstance(e.value, ast.Name) and e.value.id in params and e.value.id not in det_names and isinstance(e.slice, ast.Constant):
                    hard_leaves.append(core.src(e))
                    return False
                return is_det(e.value) and (isinstance(e.slice, ast.Slice) or is_det(e.slice))
            if isinstance(e, ast.Call):
                f_ok = isinstance(e.func, ast.Name) and e.func.id not in local_names or (isinstance(e.func, ast.Attribute) and is_det(e.func.value))
                return bool(f_ok) and all(is_det(a.value if isinstance(a, ast.Starred) else a) for a in e.args) and all(is_det(k.value) for k in e.keywords)
            if isinstance(e, (ast.BinOp, ast.UnaryOp, ast.BoolOp, ast.Compare, ast.IfExp, ast.Tuple, ast.List, ast.JoinedStr, ast.FormattedValue)):
                return all(is_det(c) for c in ast.iter_child_nodes(e) if isinstance(c, ast.expr))
            hard_leaves.append(core.src(e)[:30])
            return False
        all_ok = True
        for n in ast.walk(fn):
            if isinstance(n, ast.Assign) and any(isinstance(t, ast.Name) and t.id in globs for t in n.targets):
                if not is_det(n.value):
                    all_ok = False
        if all_ok:
            return problems
        hard = sorted({h for h in hard_leaves if h})
        if hard:
            problems.append(f"the remembered value is computed from {hard[:4]}, which the key `{core.src(key_assign.value)}` does not determine")
        else:
            problems.append(f"UNDECIDED: the remembered value also uses {sorted(set(soft_leaves))[:3]}; the key holds only the identity attribute of that record")
        return problems
    for prm in params:
        key_fields: Set[object] = set()
        parents: Dict[int, ast.AST] = {}
        for pnode in ast.walk(key_assign.value):
            for c in ast.iter_child_nodes(pnode):
                parents[id(c)] = pnode
        for x in ast.walk(key_assign.value):
            if isinstance(x, ast.Name) and x.id == prm:
                par = parents.get(id(x))
                if isinstance(par, ast.Subscript) and par.value is x and isinstance(par.slice, ast.Constant):
                    key_fields.add(par.slice.value)
                else:
                    key_fields.add(WHOLE)
        used = fields_read(model, func, prm, 0, skip)
        if WHOLE in key_fields or not used:
            continue
        if WHOLE in used:
            problems.append(f"UNDECIDED: how the remembered value depends on `{prm}` is not resolved to components")
            continue
        missing = {u for u in used if u not in key_fields}
        if missing:
            problems.append(f"the remembered value is computed from {prm}[{', '.join(repr(m) for m in sorted(missing, key=repr))}], which the key "
                            f"`{core.src(key_assign.value)}` does not contain")
    return problems


def lossy_key_memo(model: Model, func: str) -> Optional[Tuple[int, str]]:
    """A memo whose key ROUNDS an argument:   key = (.., round(x, n), ..) / int(x) / math.floor(x) with x a (component of a)
    parameter;  if key in TABLE: return TABLE[key]  /  hit = TABLE.get(key);  value = f(.. x ..);  TABLE[key] = value.
    Two different arguments that round to the same key share one entry while the value is computed from the argument as
    given, so what a call returns depends on which of them was seen first.  Definite only when every piece is there: the
    table outlives the call (module-level name or attribute of self), the key is used for a read that is returned and for a
    store, and the stored value is computed from the un-rounded argument.  -> (line, description) or None."""
    fi = model.funcs.get(func)
    if fi is None or fi.is_module_body:
        return None
    fn = fi.node
    params = {p for p in fi.params if p not in ("self", "cls")}
    if not params:
        return None
    local_names = {n.id for n in ast.walk(fn) if isinstance(n, ast.Name) and isinstance(n.ctx, ast.Store)} | set(fi.params)
    # locals that are plain components of a parameter:  lon, lat = lonlat ;  x = p[0]
    derived: Dict[str, str] = {p: p for p in params}
    for _ in range(3):
        for n in ast.walk(fn):
            if isinstance(n, ast.Assign) and len(n.targets) == 1:
                t, v = n.targets[0], n.value
                base = v.value if isinstance(v, ast.Subscript) else v
                if isinstance(base, ast.Name) and base.id in derived:
                    for x in ([t] if isinstance(t, ast.Name) else (t.elts if isinstance(t, ast.Tuple) else [])):
                        if isinstance(x, ast.Name):
                            derived.setdefault(x.id, derived[base.id])

    def rounded_args(e: ast.AST) -> List[str]:
        out = []
        for c in ast.walk(e):
            if isinstance(c, ast.Call) and c.args and core.src(c.func) in ("round", "int", "math.floor", "math.trunc", "floor", "trunc"):
                a0 = c.args[0]
                names = [x.id for x in ast.walk(a0) if isinstance(x, ast.Name) and x.id in derived]
                # (int(x) of a resolution or an index is not a rounding of a continuous quantity: only round / floor count)
                if names and core.src(c.func) in ("round", "math.floor", "floor"):
                    out.extend(names)
        return out
    key_names: Dict[str, Tuple[ast.AST, List[str]]] = {}
    for n in ast.walk(fn):
        if isinstance(n, ast.Assign) and len(n.targets) == 1 and isinstance(n.targets[0], ast.Name):
            ra = rounded_args(n.value)
            if ra and isinstance(n.value, (ast.Tuple, ast.Call)):
                key_names[n.targets[0].id] = (n, ra)
    if not key_names:
        return None

    def table_of(e: ast.AST) -> Optional[str]:
        if isinstance(e, ast.Attribute) and isinstance(e.value, ast.Name) and e.value.id == "self":
            return core.src(e)
        if isinstance(e, ast.Name) and e.id not in local_names and f"{fi.module}.{e.id}" in model.module_vars:
            return e.id
        return None
    for kname, (kassign, rargs) in key_names.items():
        stores, reads = [], []
        for n in ast.walk(fn):
            if isinstance(n, ast.Assign):
                for t in n.targets:
                    if isinstance(t, ast.Subscript) and isinstance(t.slice, ast.Name) and t.slice.id == kname and table_of(t.value):
                        stores.append((n, table_of(t.value)))
            if isinstance(n, ast.Subscript) and isinstance(n.ctx, ast.Load) and isinstance(n.slice, ast.Name) and n.slice.id == kname and table_of(n.value):
                reads.append((n, table_of(n.value)))
            if isinstance(n, ast.Call) and isinstance(n.func, ast.Attribute) and n.func.attr == "get" and n.args and isinstance(n.args[0], ast.Name) \
                    and n.args[0].id == kname and table_of(n.func.value):
                reads.append((n, table_of(n.func.value)))
        for st_, tab in stores:
            if not any(t2 == tab for _r, t2 in reads):
                continue
            # the stored value: a name bound to a call that receives the un-rounded argument (or the parameter it is a component of)
            v = st_.value
            vnames = {x.id for x in ast.walk(v) if isinstance(x, ast.Name)}
            src_calls = [v] if isinstance(v, ast.Call) else []
            for n in ast.walk(fn):
                if isinstance(n, ast.Assign) and isinstance(n.value, ast.Call) and any(isinstance(x, ast.Name) and x.id in vnames for t in n.targets for x in ast.walk(t)):
                    src_calls.append(n.value)
            roots = {derived[a] for a in rargs}
            # ... or, through the function's local variables, anything computed from it (a value that is computed from the ROUNDED
            # quantity only does not count: names bound to an expression that contains the rounding are cut off)
            flow: Dict[str, Set[str]] = {nm: {rt} for nm, rt in derived.items()}
            for _ in range(6):
                for n in ast.walk(fn):
                    if isinstance(n, ast.Assign) and not rounded_args(n.value):
                        got = set()
                        for x in ast.walk(n.value):
                            if isinstance(x, ast.Name) and x.id in flow:
                                got |= flow[x.id]
                        if got:
                            for t in n.targets:
                                for x in ast.walk(t):
                                    if isinstance(x, ast.Name) and isinstance(x.ctx, ast.Store) and x.id not in derived:
                                        flow.setdefault(x.id, set()).update(got)
            if isinstance(v, ast.Name) and v.id in flow and v.id not in derived and (flow[v.id] & roots):
                how = next((core.src(n.value)[:60] for n in ast.walk(fn) if isinstance(n, ast.Assign) and any(isinstance(t, ast.Name) and t.id == v.id for t in n.targets)), v.id)
                return (kassign.lineno, f"`{kname} = {core.src(kassign.value)[:90]}` rounds `{sorted(set(rargs))[0]}`; `{core.src(st_)[:70]}` stores under it a value "
                        f"computed (`{how}`) from the argument as given, and a hit in {tab} returns it: arguments that round to the same key "
                        f"share the entry of whichever was seen first")
            for c in src_calls:
                if any(x is c for x in ast.walk(kassign)):
                    continue
                used = {derived[x.id] for a in list(c.args) + [k.value for k in c.keywords] for x in ast.walk(a) if isinstance(x, ast.Name) and x.id in derived}
                if used & roots:
                    return (kassign.lineno, f"`{kname} = {core.src(kassign.value)[:90]}` rounds `{sorted(set(rargs))[0]}`; `{core.src(st_)[:70]}` stores under it a value "
                            f"computed by `{core.src(c)[:60]}` from the argument as given, and a hit in {tab} returns it: arguments that round to the same key "
                            f"share the entry of whichever was seen first")
    return None


def memo_ignores_parameter(model: Model, func: str) -> Optional[Tuple[int, str]]:
    """A keyed memo in a module-level dict whose stored value is computed from (or BY: a callable) a parameter that the key does
    not mention, in a function that the repository calls with at least two different arguments in that position:
        def convert_cached(convert, x):  hit = TABLE.get(x) ... TABLE[x] = convert(x)
        ... convert_cached(forward, a) ... convert_cached(inverse, b)
    An entry stored for one of them answers for the other.  Definite only with all pieces: same key expression read and stored,
    module-level table, parameter used by the stored value and absent from the key, two call sites that differ there."""
    fi = model.funcs.get(func)
    if fi is None or fi.is_module_body:
        return None
    fn = fi.node
    params = [p for p in fi.params if p not in ("self", "cls")]
    if len(params) < 2:
        return None
    local_names = {n.id for n in ast.walk(fn) if isinstance(n, ast.Name) and isinstance(n.ctx, ast.Store)} | set(fi.params)

    def table_of(e: ast.AST) -> Optional[str]:
        if isinstance(e, ast.Name) and e.id not in local_names and f"{fi.module}.{e.id}" in model.module_vars:
            return e.id
        return None
    defs: Dict[str, List[ast.AST]] = {}
    for n in ast.walk(fn):
        if isinstance(n, ast.Assign):
            for t in n.targets:
                if isinstance(t, ast.Name):
                    defs.setdefault(t.id, []).append(n.value)

    def params_in(e: ast.AST, seen=None) -> Set[str]:
        seen = seen or set()
        out: Set[str] = set()
        for x in ast.walk(e):
            if isinstance(x, ast.Name) and isinstance(x.ctx, ast.Load):
                if x.id in params:
                    out.add(x.id)
                elif x.id in defs and x.id not in seen:
                    seen.add(x.id)
                    for v in defs[x.id]:
                        out |= params_in(v, seen)
        return out
    for n in ast.walk(fn):
        if not isinstance(n, ast.Assign):
            continue
        for t in n.targets:
            if not (isinstance(t, ast.Subscript) and table_of(t.value)):
                continue
            tab, ktext = table_of(t.value), core.src(t.slice)
            read = any((isinstance(r, ast.Call) and isinstance(r.func, ast.Attribute) and r.func.attr == "get" and table_of(r.func.value) == tab
                        and r.args and core.src(r.args[0]) == ktext) or
                       (isinstance(r, ast.Subscript) and isinstance(r.ctx, ast.Load) and table_of(r.value) == tab and core.src(r.slice) == ktext)
                       for r in ast.walk(fn))
            if not read:
                continue
            missing = params_in(n.value) - params_in(t.slice)
            for p in sorted(missing):
                pos = fi.params.index(p)
                seen_args: Set[str] = set()
                for caller, sites in model.calls.items():
                    for cs in sites:
                        if func in getattr(cs, "callees", ()) and isinstance(cs.node, ast.Call):
                            off = 1 if (fi.params and fi.params[0] in ("self", "cls")) else 0
                            a = None
                            if pos - off < len(cs.node.args) and not any(isinstance(x, ast.Starred) for x in cs.node.args):
                                a = cs.node.args[pos - off]
                            for k in cs.node.keywords:
                                if k.arg == p:
                                    a = k.value
                            if a is not None:
                                seen_args.add(core.src(a))
                if len(seen_args) >= 2:
                    return (n.lineno, f"`{core.src(n)[:80]}` stores under the key `{ktext}` a value computed from the parameter `{p}`, which the key does not "
                            f"mention, and a hit in {tab} is returned; the repository calls {func} with {sorted(seen_args)[:3]} there: an entry stored for "
                            f"one of them answers for the other")
    return None


CURRENT_EFF = None      # effect summaries of the World built last (one per check run)


def deep_store_is_rmw(model: Model, sw: "SharedWrite") -> bool:
    """A component store deep inside a shared structure is certain data modification when the new value is computed from the
    old one: `v[0] = v[0] + d`, or an in-place transformation `f(x, x)` (the written parameter aliases a read one) on the way."""
    for kind, line, _text in sw.records:
        if kind.startswith("subscript-store") and store_is_rmw(model, sw.origin_func, line):
            return True
    for cf, cl in sw.chain:
        cfi = model.funcs.get(cf)
        if cfi is None:
            continue
        for n in ast.walk(cfi.node):
            if isinstance(n, ast.Call) and getattr(n, "lineno", -1) == cl:
                texts = [core.src(a) for a in n.args if isinstance(a, (ast.Name, ast.Attribute, ast.Subscript))]
                if len(texts) != len(set(texts)):
                    return True
                # the destination is what a lookup function of shared state has just handed out:  copy(table.get(k), value)
                # overwrites the datum every other caller of that lookup receives
                if CURRENT_EFF is not None and n.args and isinstance(n.args[0], ast.Call):
                    for cs in model.calls.get(cf, []):
                        if cs.node is n.args[0] and cs.kind in ("func", "method"):
                            for callee in cs.callees:
                                sm = CURRENT_EFF.summaries.get(callee)
                                if sm is None:
                                    continue
                                if any(r[0] == "G" for r in sm.ret):
                                    return True
                                # ... or hands out part of its receiver / argument, and that is a module-level object
                                inner = n.args[0]
                                actuals = ([inner.func.value] if cs.kind == "method" and isinstance(inner.func, ast.Attribute) else []) + list(inner.args)
                                for r in sm.ret:
                                    if r[0] == "P" and r[2] >= 1 and r[1] < len(actuals):
                                        bd = model.resolve_expr_binding(actuals[r[1]], cfi.module)
                                        if bd is not None and bd.kind == "var":
                                            return True
    return False


def resets_whole(sw: "SharedWrite") -> bool:
    return any(kk.split(" (")[0] in ("method:clear", "del") or re.search(r"\[\s*:\s*\]\s*(=|$)", t) for kk, l, t in sw.records)


def history_definite(model: Model, sw: "SharedWrite") -> bool:
    """Is this write certain to make persistent data depend on the calls made so far?  Read-modify-write of the shared
    object (augmented stores, in-place transformations, reordering) or overwriting components of a persistent object."""
    # move-to-front / transposition of a search list:  X.insert(0, X.pop(i))  only permutes the container; whether results depend
    # on the order is a question about its readers, so this alone is not positive evidence
    mtf_lines = {l for kk, l, t in sw.records if kk.split(" (")[0] == "method:insert"
                 and re.search(r"([\w\.]+)\.insert\(\w+,\1\.pop\(", t.replace(" ", ""))}
    mtf = bool(mtf_lines) and all(l in mtf_lines for kk, l, t in sw.records if kk.split(" (")[0] in ("method:insert", "method:pop"))
    # the same permutation written as  X.remove(x); X.insert(0, x)
    rm_texts = [t.replace(" ", "") for kk, l, t in sw.records if kk.split(" (")[0] == "method:remove"]
    ins_texts = [t.replace(" ", "") for kk, l, t in sw.records if kk.split(" (")[0] == "method:insert"]
    if rm_texts and ins_texts and not mtf:
        moved = {m.group(1) + "|" + m.group(2) for t in rm_texts for m in [re.search(r"([\w\.]+)\.remove\((\w+)\)", t)] if m}
        put = {m.group(1) + "|" + m.group(2) for t in ins_texts for m in [re.search(r"([\w\.]+)\.insert\(0,(\w+)\)", t)] if m}
        if moved and moved == put:
            mtf = True
    # a work list that is reset as a whole (`xs[:] = ...`, `xs.clear()`, `del xs[:]`) before it is refilled: whether a call can see
    # what an earlier one left is the written-before-read question, not positive evidence
    reset = getattr(sw, "object_reset", False) or resets_whole(sw)
    for k in sw.kinds:
        base = k.split(" (")[0]
        if "(object stored in shared state)" in k:
            continue
        if mtf and base in ("method:insert", "method:pop", "method:remove"):
            continue
        if reset and base in ("method:append", "method:extend", "method:insert", "subscript-aug", "subscript-store:key", "subscript-store:const"):
            continue
        if base == "method:extend" and placeholder_growth(sw):
            continue
        if base in ("subscript-aug", "aug-assign") or base.startswith("attr-aug:"):
            return True
        if base == "method:update" and update_from_arguments(model, sw):
            return True
        if base == "defaultdict-read" and enumerated_somewhere(model, sw.obj):
            return True
        if base in ("method:insert", "method:extend") and any(kk.split(" (")[0] in ("method:clear", "del") for kk, _l, _t in sw.records):
            # a work list that the same code also empties: whether it is empty again when the next call starts is a question of
            # the clearing discipline (try / finally, give-back), not decided here
            continue
        if base in ("method:reverse", "method:insert", "method:extend"):
            return True
        if base == "method:append":
            # X.append(X[0]) / X.append(f(X)): the new element is computed from the container it is appended to -- a read-modify-write
            # of persistent data (every call makes it longer, and the same expression reads it)
            for kk, _l, t in sw.records:
                if kk.split(" (")[0] == "method:append":
                    m_ = re.match(r"^\s*([A-Za-z_][\w\.]*)\.append\((.*)\)\s*$", t, re.S)
                    if m_ and re.search(r"(?<![\w\.])" + re.escape(m_.group(1)) + r"(?![\w])", m_.group(2)):
                        return True
        # (an in-place sort of persistent data is idempotent: whether a call ever sees the unsorted state is a question about
        #  the order of the data when it is first reached -- not positive evidence for the single-threaded history clause)
        if base == "subscript-store:const" and (sw.depth <= 1 or deep_store_is_rmw(model, sw)):
            # (deeper inside a shared structure the abstraction no longer tells a work vector that is written before it is read
            #  from a component of persistent data: not positive evidence)
            return True
        if base == "subscript-store:key" and store_is_rmw(model, sw.origin_func, sw.origin_line):
            return True
        # (a table grown by  T.append(f(len(T)))  holds position-determined values: single-threaded that is a memo, not history)
    return False


def enumerated_somewhere(model: Model, qual: str) -> bool:
    """the module-level dict is iterated / counted somewhere in the package (for k in D, D.items(), len(D), sum(D.values()), ...):
    together with a defaultdict that grows whenever a missing key is READ, what such a loop sees depends on earlier calls"""
    mod, name = qual.rsplit(".", 1)
    for fq, fi in model.funcs.items():
        if fi.module != mod or fi.is_module_body:
            continue
        for n in ast.walk(fi.node):
            it = None
            if isinstance(n, (ast.For, ast.comprehension)):
                it = n.iter
            elif isinstance(n, ast.Call) and isinstance(n.func, ast.Name) and n.func.id in ("len", "sum", "max", "min", "sorted", "list", "tuple", "any", "all") and n.args:
                it = n.args[0]
            if it is None:
                continue
            for x in ast.walk(it):
                if isinstance(x, ast.Name) and x.id == name:
                    return True
    return False


def update_from_arguments(model: Model, sw: "SharedWrite") -> bool:
    """`SHARED.update(overrides)`: a mapping that came in as an argument of the call is merged into an object that outlives the
    call (a class-level / module-level / default-value dict), and nothing ever clears that object: what one call configured is
    what the next call finds"""
    fi = model.funcs.get(sw.origin_func)
    if fi is None or any(kk.split(" (")[0] in ("method:clear", "del") for kk, _l, _t in sw.records):
        return False
    fn = fi.node
    params = {a.arg for a in fn.args.args + fn.args.kwonlyargs if a.arg not in ("self", "cls")}
    if fn.args.kwarg:
        params.add(fn.args.kwarg.arg)
    if fn.args.vararg:
        params.add(fn.args.vararg.arg)
    lines = {l for kk, l, _t in sw.records if kk.split(" (")[0] == "method:update"}
    for n in ast.walk(fn):
        if isinstance(n, ast.Call) and isinstance(n.func, ast.Attribute) and n.func.attr == "update" and getattr(n, "lineno", 0) in lines:
            used = set()
            for a in list(n.args) + [k.value for k in n.keywords]:
                used |= derive_vars(fn, _names(a))
            if used & params:
                return True
    return False


def placeholder_growth(sw: "SharedWrite") -> bool:
    """every extend() of this write only adds placeholders:  X.extend([None] * k)  (the list form of `while ...: X.append(None)`)"""
    ext = [t for kk, _l, t in sw.records if kk.split(" (")[0] == "method:extend"]
    return bool(ext) and all(re.search(r"\.extend\(\[None\]\*", t.replace(" ", "")) for t in ext)


def tolerant_eviction(sw: "SharedWrite", base: str) -> bool:
    """dict eviction that cannot fail whatever other threads did in between:  d.clear()  and  d.pop(key, default).
    Readers of an evicting memo that use a single  d.get(key)  see a miss at worst; whether they do is left undecided."""
    if base == "method:clear":
        return True
    if base == "method:pop":
        texts = [t for kk, _l, t in sw.records if kk.split(" (")[0] == "method:pop"]
        ok = bool(texts)
        for t in texts:
            try:
                call = ast.parse(t.strip(), mode="eval").body
            except SyntaxError:
                return False
            ok = ok and isinstance(call, ast.Call) and len(call.args) == 2
        return ok
    return False


def guarded_multi_append(model: Model, sw: "SharedWrite") -> bool:
    """`if not X: for ...: X.append(v)`  -- a shared list filled lazily by several appends under a test of its own emptiness /
    length: between the first and the last append another thread passes the test and works with the partial list"""
    fi = model.funcs.get(sw.origin_func)
    if fi is None:
        return False
    parents: Dict[int, ast.AST] = {}
    for n in ast.walk(fi.node):
        for c in ast.iter_child_nodes(n):
            parents[id(c)] = n
    for kind, line, text in sw.records:
        if kind.split(" (")[0] != "method:append":
            continue
        for n in ast.walk(fi.node):
            if isinstance(n, ast.Call) and getattr(n, "lineno", -1) == line and isinstance(n.func, ast.Attribute) and n.func.attr == "append":
                cont = core.src(n.func.value)
                in_loop, guard = False, None
                cur: ast.AST = n
                while id(cur) in parents:
                    cur = parents[id(cur)]
                    if isinstance(cur, (ast.For, ast.While)):
                        in_loop = True
                    elif isinstance(cur, ast.If) and in_loop:
                        t = core.src(cur.test).replace(" ", "")
                        if t in (f"not{cont}", f"len({cont})==0", f"{cont}==[]", f"not{cont}:") or t.startswith(f"len({cont})<") or t == f"not{cont}":
                            guard = cur
                            break
                if in_loop and guard is not None:
                    return True
    return False


def write_is_definite(model: Model, sw: "SharedWrite", threads: bool = True) -> bool:
    """True when the write is data modification (scratch store, in-place transformation, counter-like update) rather than
    a possibly idempotent keyed fill.  With threads=False (history analysis) stores that initialise an object already
    published to shared state are not counted: single-threaded they complete before anyone can look."""
    for k in sw.kinds:
        base = k.split(" (")[0]
        escaped = "(object stored in shared state)" in k
        if escaped and not threads:
            continue
        if base == "method:extend" and placeholder_growth(sw):
            continue
        if tolerant_eviction(sw, base):
            continue
        if any(base.startswith(d) for d in DEFINITE_KINDS):
            return True
        if base.startswith("attr-store:") and not escaped and not is_lazy_memo_attribute(model, base.split(":", 1)[1]):
            return True
        lines_ = [l_ for kk_, l_, _t in sw.records if kk_.split(" (")[0] == base] if threads else [sw.origin_line]
        if base == "subscript-store:key" and any(store_is_rmw(model, sw.origin_func, l_) for l_ in lines_):
            return True          # (with threads: ANY statement that rewrites entries from what the container holds)
        if base in ("method:append", "method:add", "method:setdefault", "method:update") and any(call_is_rmw(model, sw.origin_func, l_) for l_ in lines_):
            return True
        if threads and base == "method:append" and guarded_multi_append(model, sw):
            return True
    return False


# ---------------------------------------------------------------------------------
# admitted kind 1: idempotent, key-complete cache fill
# ---------------------------------------------------------------------------------

@dataclass
class CacheInfo:
    func: str
    field: str
    variant: str               # 'list' | 'dict'
    key_expr: ast.expr
    key_vars: Set[str]
    value_exprs: List[ast.expr]
    problems: List[str]
    fill_nodes: List[ast.AST]


def _names(e: ast.AST) -> Set[str]:
    return {n.id for n in ast.walk(e) if isinstance(n, ast.Name)}


def _is_self_field(e: ast.AST, fld: str) -> bool:
    return isinstance(e, ast.Attribute) and e.attr == fld and isinstance(e.value, ast.Name) and e.value.id == "self"


def _is_slot(e: ast.AST, fld: str) -> bool:
    return isinstance(e, ast.Subscript) and _is_self_field(e.value, fld)


def lock_names(model: Model) -> Set[str]:
    """names (module variables and attribute names) that hold a threading.Lock / RLock created in the package"""
    cached = getattr(model, "_lock_names", None)
    if cached is not None:
        return cached
    out: Set[str] = set()
    for rel, tree in model.sources.trees.items():
        for n in ast.walk(tree):
            if isinstance(n, (ast.Assign, ast.AnnAssign)) and n.value is not None and isinstance(n.value, ast.Call):
                f = core.src(n.value.func)
                if f.split(".")[-1] in ("Lock", "RLock"):
                    for t in (n.targets if isinstance(n, ast.Assign) else [n.target]):
                        if isinstance(t, ast.Name):
                            out.add(t.id)
                        elif isinstance(t, ast.Attribute):
                            out.add(t.attr)
    model._lock_names = out
    return out


def locks_at(model: Model, func: str, line: int) -> Set[str]:
    """locks (by name) held at `line` of `func`: enclosing `with LOCK:` / `with self._lock:` statements"""
    fi = model.funcs.get(func)
    if fi is None:
        return set()
    names = lock_names(model)
    held: Set[str] = set()
    for n in ast.walk(fi.node):
        if isinstance(n, ast.With) and n.lineno <= line <= max(getattr(n, "end_lineno", n.lineno), n.lineno):
            for it in n.items:
                e = it.context_expr
                nm = e.id if isinstance(e, ast.Name) else (e.attr if isinstance(e, ast.Attribute) else None)
                if nm in names:
                    held.add(nm)
    return held


def _may_raise(model: Model, fq: str, depth: int = 3, seen: Optional[Set[str]] = None) -> bool:
    """the function (or something it calls, a few levels down) contains an explicit `raise`"""
    seen = seen if seen is not None else set()
    if fq in seen or depth < 0:
        return False
    seen.add(fq)
    fi = model.funcs.get(fq)
    if fi is None:
        return False
    if any(isinstance(n, ast.Raise) for n in ast.walk(fi.node)):
        return True
    params = {a.arg for a in fi.node.args.args + fi.node.args.kwonlyargs if a.arg not in ("self", "cls")}
    for n in ast.walk(fi.node):
        # unpacking or indexing an argument raises for an argument of the wrong shape (a 3-D position, None, ...)
        if isinstance(n, ast.Assign) and isinstance(n.targets[0], (ast.Tuple, ast.List)) and isinstance(n.value, ast.Name) and n.value.id in params:
            return True
        if isinstance(n, ast.Subscript) and isinstance(n.value, ast.Name) and n.value.id in params and isinstance(n.ctx, ast.Load):
            return True
    return any(_may_raise(model, c, depth - 1, seen) for cs in model.calls.get(fq, []) for c in cs.callees)


def changed_and_restored_without_finally(model: Model, func: str) -> Optional[str]:
    """`global NAME` is changed, something that can raise runs (a `yield` of a context manager, a call of a function with a
    reachable `raise`), and NAME is put back afterwards -- with no try/finally around it: when the exception happens, NAME keeps
    the changed value for every later call.  Returns a description or None."""
    fi = model.funcs.get(func)
    if fi is None or fi.is_module_body:
        return None
    fn = fi.node
    globs = {nm for n in ast.walk(fn) if isinstance(n, ast.Global) for nm in n.names}
    if not globs:
        return None

    def writes(st: ast.stmt) -> Set[str]:
        out: Set[str] = set()
        if isinstance(st, ast.Assign):
            for t in st.targets:
                for x in ast.walk(t):
                    if isinstance(x, ast.Name) and isinstance(x.ctx, ast.Store) and x.id in globs:
                        out.add(x.id)
        elif isinstance(st, ast.AugAssign) and isinstance(st.target, ast.Name) and st.target.id in globs:
            out.add(st.target.id)
        return out

    def risky(st: ast.stmt) -> Optional[str]:
        for n in ast.walk(st):
            if isinstance(n, (ast.Yield, ast.YieldFrom)):
                return "the `yield` (the body of the with-statement runs there)"
            if isinstance(n, ast.Call):
                for cs in model.calls.get(func, []):
                    if cs.node is n and any(_may_raise(model, c) for c in cs.callees):
                        return f"`{core.src(n)[:50]}` (its call tree contains a raise)"
        return None
    # look at every statement list of the function; a try/finally that holds the restoring write protects it
    blocks: List[Tuple[List[ast.stmt], bool]] = [(fn.body, False)]
    for n in ast.walk(fn):
        if isinstance(n, ast.Try):
            guarded = bool(n.finalbody)
            blocks.append((n.body, guarded))
            blocks.append((n.finalbody, False))
            for h in n.handlers:
                blocks.append((h.body, False))
            blocks.append((n.orelse, False))
        elif isinstance(n, (ast.If, ast.For, ast.While, ast.With)) and n is not fn:
            blocks.append((n.body, False))
            if getattr(n, "orelse", None):
                blocks.append((n.orelse, False))
    for body, guarded in blocks:
        if guarded:
            continue
        for i, st in enumerate(body):
            for nm in writes(st):
                for j in range(i + 1, len(body)):
                    if nm in writes(body[j]):
                        why = None
                        for k in range(i + 1, j):
                            why = why or risky(body[k])
                        if why:
                            return (f"`{core.src(st)[:50]}` (line {st.lineno}) changes {nm}, `{core.src(body[j])[:50]}` (line {body[j].lineno}) puts it back, "
                                    f"and in between {why} can raise; there is no try/finally, so after an exception {nm} keeps the changed value")
                        break
    return None


def generic_setter(model: Model, func: str, key_vars: Set[str], extra: Set[str]) -> bool:
    """`def store(self, key, value): self.entries[key] = value`: the key and what the value depends on are both parameters of the
    storing function, so whether the key determines the value is a property of its call sites, not of this function"""
    fi = model.funcs.get(func)
    if fi is None:
        return False
    params = {a.arg for a in fi.node.args.args + fi.node.args.kwonlyargs if a.arg not in ("self", "cls")}
    if not (bool(extra) and extra <= params and bool(key_vars) and key_vars <= params):
        return False
    # ... and the function does not compute the value: what it stores under the key is a parameter as it came in
    for n in ast.walk(fi.node):
        if isinstance(n, ast.Assign) and any(isinstance(t, ast.Subscript) for t in n.targets) and isinstance(n.value, ast.Name) and n.value.id in extra:
            return True
        if isinstance(n, ast.Call) and isinstance(n.func, ast.Attribute) and n.func.attr == "setdefault" and len(n.args) == 2 \
                and isinstance(n.args[1], ast.Name) and n.args[1].id in extra:
            return True
    return False


def stale_slot_read(model: Model, func: str, obj_name: str) -> Optional[str]:
    """A slot of the module-level container `obj_name` (constant key / index) that `func` reads BEFORE it stores a value computed
    from its own parameters into the same slot, with the container (or what was read) flowing into what the function returns:
    the second call sees what the first one left.  Returns a description, or None when that shape is not present."""
    fi = model.funcs.get(func)
    if fi is None:
        return None
    fn = fi.node
    params = {a.arg for a in fn.args.args + fn.args.kwonlyargs}
    if obj_name in params:
        return None
    aliases = {obj_name}
    for n in ast.walk(fn):
        if isinstance(n, ast.Assign) and isinstance(n.value, ast.Name) and n.value.id == obj_name:
            aliases |= {t.id for t in n.targets if isinstance(t, ast.Name)}
        elif isinstance(n, ast.Assign) and isinstance(n.value, ast.Call):
            # x = helper(.., OBJ, ..) where the helper can hand that very argument back (`return defaults`)
            for i_, a_ in enumerate(n.value.args):
                if isinstance(a_, ast.Name) and a_.id == obj_name:
                    for cs in model.calls.get(func, []):
                        if cs.node is not n.value:
                            continue
                        for callee in cs.callees:
                            cfi = model.funcs.get(callee)
                            if cfi is None:
                                continue
                            pi_ = i_ + (1 if cs.kind in ("method", "ctor") else 0)
                            if pi_ < len(cfi.params) and any(isinstance(r, ast.Return) and isinstance(r.value, ast.Name) and r.value.id == cfi.params[pi_]
                                                             for r in ast.walk(cfi.node)):
                                aliases |= {t.id for t in n.targets if isinstance(t, ast.Name)}
    aliases -= params - {a for a in aliases if any(isinstance(n, ast.Assign) and any(isinstance(t, ast.Name) and t.id == a for t in n.targets) for n in fn.body)}
    loops = [n for n in ast.walk(fn) if isinstance(n, (ast.For, ast.While))]

    def in_loop(x: ast.AST) -> bool:
        return any(x is y for lp in loops for y in ast.walk(lp))
    stores = []
    for n in ast.walk(fn):
        if isinstance(n, ast.Assign):
            for t in n.targets:
                if isinstance(t, ast.Subscript) and isinstance(t.value, ast.Name) and t.value.id in aliases and isinstance(t.slice, ast.Constant):
                    stores.append((n, t))
    for st, tgt in stores:
        if in_loop(st):
            continue
        deps = derive_vars(fn, _names(st.value))
        if not (deps & params):
            continue
        key = tgt.slice.value
        reads = [n for n in ast.walk(fn)
                 if isinstance(n, ast.Subscript) and isinstance(n.ctx, ast.Load) and isinstance(n.value, ast.Name) and n.value.id == tgt.value.id
                 and isinstance(n.slice, ast.Constant) and n.slice.value == key and (n.lineno, n.col_offset) < (st.lineno, st.col_offset) and not in_loop(n)]
        if not reads:
            continue
        # does the container, or something computed from it, reach a return?
        flows = False
        for r in ast.walk(fn):
            if isinstance(r, ast.Return) and r.value is not None:
                if derive_vars(fn, _names(r.value)) & aliases:
                    flows = True
        if not flows:
            continue
        rd = reads[0]
        return (f"`{core.src(rd)[:60]}` (line {rd.lineno}) reads slot {key!r} of {obj_name} before `{core.src(st)[:80]}` (line {st.lineno}) stores a value "
                f"computed from {sorted(deps & params)} into it, and the container flows into the result: the next call reads what this call stored")
    return None


def derive_vars(fn: ast.FunctionDef, seeds: Set[str]) -> Set[str]:
    """variables from which the given variables are computed (transitively through local assignments), incl. parameters"""
    defs: Dict[str, Set[str]] = {}
    for n in ast.walk(fn):
        if isinstance(n, ast.Assign):
            used = _names(n.value)
            for t in n.targets:
                if isinstance(t, ast.Name):
                    defs.setdefault(t.id, set()).update(used)
                elif isinstance(t, (ast.Tuple, ast.List)):
                    for x in t.elts:
                        if isinstance(x, ast.Name):
                            defs.setdefault(x.id, set()).update(used)
                elif isinstance(t, (ast.Subscript, ast.Attribute)):
                    # a store INTO a container: the container now depends on the value and the index, the index does not change
                    base = t
                    while isinstance(base, (ast.Subscript, ast.Attribute)):
                        base = base.value
                    if isinstance(base, ast.Name):
                        defs.setdefault(base.id, set()).update(used | (_names(t.slice) if isinstance(t, ast.Subscript) else set()))
        elif isinstance(n, ast.AugAssign) and isinstance(n.target, ast.Name):
            defs.setdefault(n.target.id, set()).update(_names(n.value))
            # control dependence of a conditional update is handled by the caller (branch variables are added as seeds)
    out = set(seeds)
    todo = list(seeds)
    while todo:
        v = todo.pop()
        for u in defs.get(v, ()):
            if u not in out:
                out.add(u)
                todo.append(u)
    return out


def recognise_cache(model: Model, func: str, fld: str) -> CacheInfo:
    fi = model.funcs[func]
    fn = fi.node
    problems: List[str] = []
    # local aliases of the field:  memo = self._memo
    aliases = {t.id for n in ast.walk(fn) if isinstance(n, ast.Assign) and _is_self_field(n.value, fld) for t in n.targets if isinstance(t, ast.Name)}
    if aliases:
        # normalise: analyse a copy of the function in which the aliases are spelled self.<field>
        class _Sub(ast.NodeTransformer):
            def visit_Name(self, node):
                if node.id in aliases and isinstance(node.ctx, ast.Load):
                    return ast.copy_location(ast.Attribute(value=ast.Name(id="self", ctx=ast.Load()), attr=fld, ctx=ast.Load()), node)
                return node
        import copy as _copy
        fn = ast.fix_missing_locations(_Sub().visit(_copy.deepcopy(fn)))
    stores = [n for n in ast.walk(fn) if isinstance(n, ast.Assign) and any(_is_slot(t, fld) for t in n.targets)]
    grows = [n for n in ast.walk(fn) if isinstance(n, ast.Call) and isinstance(n.func, ast.Attribute) and _is_self_field(n.func.value, fld)
             and n.func.attr in ("append", "extend", "insert", "pop", "clear", "remove", "update", "setdefault", "sort", "reverse")]
    key_expr = None
    for s in stores:
        for t in s.targets:
            if _is_slot(t, fld):
                if key_expr is None:
                    key_expr = t.slice
                elif core.src(t.slice) != core.src(key_expr):
                    problems.append(f"slots are addressed by different keys: {core.src(t.slice)} / {core.src(key_expr)}")
    if key_expr is None:
        return CacheInfo(func, fld, "?", ast.Constant(None), set(), [], ["no slot store `self.%s[key] = value` found" % fld], [])
    variant = "list"
    # membership test => dict variant
    for n in ast.walk(fn):
        if isinstance(n, ast.Compare) and any(isinstance(o, (ast.NotIn, ast.In)) for o in n.ops) and any(_is_self_field(c, fld) for c in n.comparators):
            variant = "dict"
    # growth: only `append(None)` inside `while len(self.X) <= key`
    for g in grows:
        ok = g.func.attr == "append" and len(g.args) == 1 and isinstance(g.args[0], ast.Constant) and g.args[0].value is None
        if not ok:
            problems.append(f"`{core.src(g)}` changes the cache other than by appending a placeholder")
    # reader handles the placeholder (list variant): `self.X[key] is not None` guards a return of the slot
    if variant == "list":
        guarded = False
        for n in ast.walk(fn):
            if isinstance(n, ast.If) and isinstance(n.test, ast.Compare) and len(n.test.ops) == 1 and isinstance(n.test.ops[0], ast.IsNot) \
                    and _is_slot(n.test.left, fld) and isinstance(n.test.comparators[0], ast.Constant) and n.test.comparators[0].value is None:
                if any(isinstance(b, ast.Return) and b.value is not None and _is_slot(b.value, fld) for b in n.body):
                    guarded = True
        if not guarded:
            problems.append("no `if self.%s[key] is not None: return self.%s[key]` before the fill (placeholder could be returned / value recomputed)" % (fld, fld))
    # every return returns the slot (or the stored value)
    value_exprs = [s.value for s in stores]
    stored_names = {v.id for v in value_exprs if isinstance(v, ast.Name)}
    for r in [n for n in ast.walk(fn) if isinstance(n, ast.Return)]:
        if r.value is None or not (_is_slot(r.value, fld) or (isinstance(r.value, ast.Name) and r.value.id in stored_names)):
            problems.append(f"`{core.src(r)}` does not return the cached slot")
    # key variables (including the variables that decide HOW the key is computed)
    seeds = _names(key_expr) - {"self"}
    branch_vars: Set[str] = set()
    for n in ast.walk(fn):
        if isinstance(n, (ast.If, ast.IfExp)):
            assigned = set()
            for b in ast.walk(n):
                if isinstance(b, (ast.Assign, ast.AugAssign)):
                    tg = b.targets if isinstance(b, ast.Assign) else [b.target]
                    for t in tg:
                        assigned |= _names(t)
            if assigned & derive_vars(fn, seeds):
                branch_vars |= _names(n.test)
    key_vars = derive_vars(fn, seeds | branch_vars) - {"self"}
    return CacheInfo(func, fld, variant, key_expr, key_vars, value_exprs, problems, stores + grows)


def value_dependencies(model: Model, ci: CacheInfo) -> Tuple[Set[str], List[str]]:
    """free variables of the cached value (through local assignments) and the calls it makes"""
    fn = model.funcs[ci.func].node
    seeds: Set[str] = set()
    for v in ci.value_exprs:
        seeds |= _names(v)
    dep = derive_vars(fn, seeds) - {"self"}
    params = set(model.funcs[ci.func].params)
    mod_scope = model.scopes[model.funcs[ci.func].module]
    locals_ = model.local_names(model.funcs[ci.func])
    # compare at the level of the function's inputs: intermediates are functions of those
    local_dep = sorted(d for d in dep if d in locals_ or d in params)
    dep = {d for d in dep if d in params}
    return dep, local_dep


def _mentions_attr(e: ast.AST, attr: str) -> bool:
    return any(isinstance(x, ast.Attribute) and x.attr == attr for x in ast.walk(e))


def _is_fresh_tally(v: ast.expr) -> bool:
    if isinstance(v, ast.Dict):
        return all(isinstance(x, ast.Constant) for x in v.values) and all(k is not None and isinstance(k, ast.Constant) for k in v.keys)
    if isinstance(v, ast.Call) and isinstance(v.func, ast.Name) and v.func.id in ("Counter", "dict") and not v.args and not v.keywords:
        return True
    if isinstance(v, ast.Call) and isinstance(v.func, ast.Name) and v.func.id == "defaultdict" and len(v.args) == 1 \
            and isinstance(v.args[0], ast.Name) and v.args[0].id == "int":
        return True
    if isinstance(v, ast.BinOp) and isinstance(v.op, ast.Mult) and isinstance(v.left, ast.List) and all(isinstance(x, ast.Constant) for x in v.left.elts):
        return True
    return False


def _is_report_call(b: ast.stmt) -> bool:
    """print(...) / logger.debug(...) / logging.warning(...) / warnings.warn(...): output that no result is computed from"""
    if not (isinstance(b, ast.Expr) and isinstance(b.value, ast.Call)):
        return False
    f = b.value.func
    if isinstance(f, ast.Name):
        return f.id == "print"
    if isinstance(f, ast.Attribute):
        return f.attr in ("debug", "info", "warning", "error", "critical", "log", "warn") and \
            isinstance(f.value, ast.Name) and f.value.id in ("logger", "logging", "log", "_logger", "_log", "LOGGER", "warnings")
    return False


def _only_reports(if_node: ast.If) -> bool:
    return bool(if_node.body) and all(_is_report_call(b) for b in if_node.body) and not if_node.orelse


def _flows_only_into_report_guards(fn: ast.AST, use: ast.AST, parents: Dict[int, ast.AST]) -> bool:
    """the attribute use is (part of) the value of `local = ...`, and `local` is used nowhere but in tests of ifs that only report"""
    cur = use
    while id(cur) in parents and not isinstance(parents[id(cur)], ast.stmt):
        cur = parents[id(cur)]
    st = parents.get(id(cur))
    if not (isinstance(st, ast.Assign) and st.value is cur and len(st.targets) == 1 and isinstance(st.targets[0], ast.Name)):
        return False
    local = st.targets[0].id
    for n in ast.walk(fn):
        if isinstance(n, ast.Name) and n.id == local and isinstance(n.ctx, ast.Load):
            top = n
            while id(top) in parents and not isinstance(parents[id(top)], ast.stmt):
                top = parents[id(top)]
            holder = parents.get(id(top))
            if not (isinstance(holder, ast.If) and holder.test is top and _only_reports(holder)):
                return False
        if isinstance(n, ast.Name) and n.id == local and isinstance(n.ctx, ast.Store) and n is not st.targets[0]:
            return False
    return True


def global_tally_problems(model: Model, qual: str, reach: Set[str]) -> List[str]:
    """module-level dict / Counter used as a table of counters:  NAME[key] += n.  Problems = uses in API-reachable functions other
    than such an increment (a read there could carry the count into a result)"""
    mod, name = qual.rsplit(".", 1)
    problems: List[str] = []
    for fq, fi in model.funcs.items():
        if fi.module != mod or fi.is_module_body:
            continue
        if name in {a.arg for a in fi.node.args.args + fi.node.args.kwonlyargs}:
            continue
        parents: Dict[int, ast.AST] = {}
        for p in ast.walk(fi.node):
            for c in ast.iter_child_nodes(p):
                parents[id(c)] = p
        for n in ast.walk(fi.node):
            if isinstance(n, ast.Name) and n.id == name:
                par = parents.get(id(n))
                gp = parents.get(id(par)) if par is not None else None
                if isinstance(par, ast.Subscript) and par.value is n and isinstance(gp, ast.AugAssign) and gp.target is par \
                        and isinstance(gp.op, (ast.Add, ast.Sub)) and not any(isinstance(x, ast.Name) and x.id == name for x in ast.walk(gp.value)):
                    continue
                if isinstance(par, ast.Global):
                    continue
                if fq not in reach:
                    continue
                problems.append(f"`{name}` is used in {fq} line {n.lineno} other than as `{name}[key] += n`")
    return problems


def uses_of_attribute(model: Model, attr: str) -> List[Tuple[str, ast.AST, str]]:
    """(function, node, role) for every `.attr` access in the package"""
    out = []
    for fq, fi in model.funcs.items():
        if fi.is_module_body:
            continue
        parents: Dict[int, ast.AST] = {}
        for p in ast.walk(fi.node):
            for c in ast.iter_child_nodes(p):
                parents[id(c)] = p
        for n in ast.walk(fi.node):
            if isinstance(n, ast.Attribute) and n.attr == attr:
                par = parents.get(id(n))
                role = "read"
                if isinstance(par, ast.AugAssign) and par.target is n:
                    role = "aug"
                elif isinstance(par, ast.Subscript) and par.value is n and isinstance(parents.get(id(par)), ast.AugAssign) \
                        and parents[id(par)].target is par and isinstance(parents[id(par)].op, (ast.Add, ast.Sub)) \
                        and not any(_mentions_attr(x, attr) for x in [par.slice, parents[id(par)].value]):
                    role = "aug-slot"          # self.tally[key] += 1
                elif isinstance(par, ast.Assign) and n in par.targets and fq.endswith(".__init__") and _is_fresh_tally(par.value):
                    role = "init"              # self.tally = {"a": 0, "b": 0} / Counter() / defaultdict(int) / [0] * k
                elif isinstance(par, ast.AnnAssign) and par.target is n:
                    role = "init" if par.value is None or isinstance(par.value, ast.Constant) or (fq.endswith(".__init__") and _is_fresh_tally(par.value)) else "store"
                elif isinstance(par, ast.Assign) and n in par.targets:
                    role = "init" if isinstance(par.value, ast.Constant) else "store"
                elif isinstance(par, ast.Compare) and isinstance(parents.get(id(par)), ast.If) and parents[id(par)].test is par \
                        and _only_reports(parents[id(par)]):
                    role = "guard-print"
                elif _flows_only_into_report_guards(fi.node, n, parents):
                    role = "guard-print"          # local = self.counter [== N]; if local [== N]: print(...)
                elif isinstance(par, ast.Compare):
                    role = "compare"
                out.append((fq, n, role))
    return out


# ---------------------------------------------------------------------------------
# keyed memo in a module-level dict: the key it is read under vs the key it is written under
# ---------------------------------------------------------------------------------

def _affine(fn: ast.FunctionDef, e: ast.expr, consts: Dict[str, int], depth: int = 0) -> Optional[Dict[str, int]]:
    """e as  sum(coef * parameter) + constant  ('' = constant term), following single assignments of local names"""
    if depth > 8:
        return None
    if isinstance(e, ast.Constant) and isinstance(e.value, int) and not isinstance(e.value, bool):
        return {"": e.value}
    if isinstance(e, ast.Name):
        params = {a.arg for a in fn.args.args + fn.args.kwonlyargs}
        defs = [n for n in ast.walk(fn) if isinstance(n, ast.Assign) and any(isinstance(t, ast.Name) and t.id == e.id for t in n.targets)]
        others = [n for n in ast.walk(fn) if isinstance(n, (ast.AugAssign, ast.For, ast.comprehension, ast.NamedExpr)) and
                  any(isinstance(x, ast.Name) and x.id == e.id and isinstance(x.ctx, ast.Store) for x in ast.walk(n.target))]
        if e.id in params and not defs and not others:
            return {e.id: 1, "": 0}
        if len(defs) == 1 and not others and e.id not in params:
            return _affine(fn, defs[0].value, consts, depth + 1)
        if not defs and not others and e.id in consts:
            return {"": consts[e.id]}
        return None
    if isinstance(e, ast.UnaryOp) and isinstance(e.op, ast.USub):
        a = _affine(fn, e.operand, consts, depth + 1)
        return None if a is None else {k: -v for k, v in a.items()}
    if isinstance(e, ast.BinOp) and isinstance(e.op, (ast.Add, ast.Sub)):
        a, b = _affine(fn, e.left, consts, depth + 1), _affine(fn, e.right, consts, depth + 1)
        if a is None or b is None:
            return None
        sgn = 1 if isinstance(e.op, ast.Add) else -1
        out = dict(a)
        for k, v in b.items():
            out[k] = out.get(k, 0) + sgn * v
        return out
    if isinstance(e, ast.BinOp) and isinstance(e.op, ast.Mult):
        a, b = _affine(fn, e.left, consts, depth + 1), _affine(fn, e.right, consts, depth + 1)
        for x, y in ((a, b), (b, a)):
            if x is not None and y is not None and set(x) <= {""}:
                return {k: v * x.get("", 0) for k, v in y.items()}
        return None
    return None


def keyed_memo_key_mismatch(model: Model, consts: Dict[str, int], func: str, var: str) -> Optional[str]:
    """The function reads the module-level dict `var` under one key and stores into it under another, and the two keys are
    affine in the parameters and differ by a non-zero constant: an entry remembered for one argument is found by a call with a
    different one.  Returns the description of the mismatch, or None (keys equal, or not both affine)."""
    fi = model.funcs.get(func)
    if fi is None:
        return None
    fn = fi.node
    reads, writes = [], []
    for n in ast.walk(fn):
        if isinstance(n, ast.Call) and isinstance(n.func, ast.Attribute) and n.func.attr in ("get", "pop", "setdefault") and isinstance(n.func.value, ast.Name) \
                and n.func.value.id == var and n.args:
            reads.append((n.args[0], n.lineno))
        if isinstance(n, ast.Subscript) and isinstance(n.value, ast.Name) and n.value.id == var and not isinstance(n.slice, ast.Slice):
            (writes if isinstance(n.ctx, ast.Store) else reads).append((n.slice, n.lineno))
        if isinstance(n, ast.Compare) and len(n.ops) == 1 and isinstance(n.ops[0], (ast.In, ast.NotIn)) and isinstance(n.comparators[0], ast.Name) \
                and n.comparators[0].id == var:
            reads.append((n.left, n.lineno))
    for rk, rl in reads:
        a = _affine(fn, rk, consts)
        if a is None:
            continue
        for wk, wl in writes:
            b = _affine(fn, wk, consts)
            if b is None:
                continue
            d = {k: a.get(k, 0) - b.get(k, 0) for k in set(a) | set(b)}
            if all(v == 0 for k, v in d.items() if k != "") and d.get("", 0) != 0 and any(v for k, v in a.items() if k != ""):
                return (f"read under `{core.src(rk)}` (line {rl}) but stored under `{core.src(wk)}` (line {wl}); the two differ by the constant "
                        f"{-d['']}: what a call stores for one argument is returned to a call with a different argument")
    return None


def _fold_int(e: ast.expr, env: Dict[str, int]) -> Optional[int]:
    if isinstance(e, ast.Constant):
        return e.value if isinstance(e.value, int) and not isinstance(e.value, bool) else None
    if isinstance(e, ast.Name):
        return env.get(e.id)
    if isinstance(e, ast.UnaryOp) and isinstance(e.op, (ast.USub, ast.Invert)):
        v = _fold_int(e.operand, env)
        return None if v is None else (-v if isinstance(e.op, ast.USub) else ~v)
    if isinstance(e, ast.BinOp):
        a, b = _fold_int(e.left, env), _fold_int(e.right, env)
        if a is None or b is None:
            return None
        op = type(e.op)
        if op is ast.Add:
            return a + b
        if op is ast.Sub:
            return a - b
        if op is ast.Mult:
            return a * b
        if op is ast.FloorDiv and b:
            return a // b
        if op is ast.Mod and b:
            return a % b
        if op is ast.LShift and 0 <= b <= 256:
            return a << b
        if op is ast.RShift and 0 <= b <= 256:
            return a >> b
        if op is ast.BitAnd:
            return a & b
        if op is ast.BitOr:
            return a | b
        if op is ast.BitXor:
            return a ^ b
        if op is ast.Pow and 0 <= b <= 256 and abs(a) <= 1 << 16:
            return a ** b
    return None


def int_constants(model: Model, module: str) -> Dict[str, int]:
    """integer constants visible in a module: its own `NAME = <int expr>` assignments and those it imports from sibling modules"""
    out: Dict[str, int] = {}
    seen = set()

    def load(mod: str, depth: int = 0) -> Dict[str, int]:
        if mod in seen or depth > 3 or mod not in model.modules:
            return {}
        seen.add(mod)
        vals: Dict[str, int] = {}
        tree = model.sources.tree(model.modules[mod])
        pkg = mod.split(".")
        for n in tree.body:
            if isinstance(n, ast.ImportFrom) and n.level >= 1 and n.module:
                target = ".".join(pkg[:len(pkg) - n.level] + n.module.split("."))
                sub = load(target, depth + 1)
                for a in n.names:
                    if a.name in sub:
                        vals[a.asname or a.name] = sub[a.name]
            elif isinstance(n, (ast.Assign, ast.AnnAssign)) and n.value is not None:
                tg = n.targets[0] if isinstance(n, ast.Assign) else n.target
                if isinstance(tg, ast.Name):
                    v = _fold_int(n.value, vals)
                    if v is not None:
                        vals[tg.id] = v
        seen.discard(mod)
        return vals
    out = load(module)
    return out


# ---------------------------------------------------------------------------------
# memoising decorators defined in the repository: is one store shared by several decorated functions?
# ---------------------------------------------------------------------------------

@dataclass
class WrapperMemo:
    decorator: str                 # qualified name of the decorator (factory)
    storage: Tuple[str, str]       # ('instance', attribute name) | ('module', variable) | ('per-function', '')
    key_text: str
    key_has_function: bool
    line: int
    rel: str


def wrapper_memo(model: Model, dec_qual: str) -> Optional[WrapperMemo]:
    """The decorator (or decorator factory) dec_qual wraps a function `fn` in a closure that stores `fn(...)` results in a
    container under a key: where the container lives and whether the key identifies `fn`.  None if the shape is not that."""
    fi = model.funcs.get(dec_qual)
    if fi is None:
        return None
    root = fi.node
    parents: Dict[int, ast.AST] = {}
    for n in ast.walk(root):
        for c in ast.iter_child_nodes(n):
            parents[id(c)] = n

    def enclosing_funcs(n: ast.AST) -> List[ast.FunctionDef]:
        out = []
        while id(n) in parents:
            n = parents[id(n)]
            if isinstance(n, (ast.FunctionDef, ast.Lambda)):
                out.append(n)
        return out
    for w in ast.walk(root):
        if not isinstance(w, ast.FunctionDef) or w is root:
            continue
        encl = enclosing_funcs(w)
        fn_param = None
        fn_owner = None
        for e in encl:
            if not isinstance(e, ast.FunctionDef):
                continue
            for a in e.args.args:
                if any(isinstance(c, ast.Call) and isinstance(c.func, ast.Name) and c.func.id == a.arg for c in ast.walk(w)):
                    fn_param, fn_owner = a.arg, e
        if fn_param is None:
            continue
        # stores  X[K] = ... fn(...) ...
        for st in ast.walk(w):
            if not isinstance(st, ast.Assign):
                continue
            if not any(isinstance(c, ast.Call) and isinstance(c.func, ast.Name) and c.func.id == fn_param for c in ast.walk(st.value)):
                continue
            for t in st.targets:
                if isinstance(t, ast.Subscript) and isinstance(t.value, ast.Name):
                    cname = t.value.id
                    key = t.slice
                    names = {n.id for n in ast.walk(key) if isinstance(n, ast.Name)}
                    # one level of local definition of the key
                    for d in ast.walk(w):
                        if isinstance(d, ast.Assign) and any(isinstance(x, ast.Name) and x.id in names for x in d.targets):
                            names |= {n.id for n in ast.walk(d.value) if isinstance(n, ast.Name)}
                    has_fn = fn_param in names
                    # where does the container come from?
                    storage = None
                    for d in ast.walk(w):
                        if isinstance(d, ast.Assign) and any(isinstance(x, ast.Name) and x.id == cname for x in d.targets):
                            v = d.value
                            txt = core.src(v).replace(" ", "")
                            m = re.match(r"(\w+)\.__dict__\.setdefault\(['\"](\w+)['\"],", txt) or re.match(r"getattr\((\w+),['\"](\w+)['\"]", txt) \
                                or re.match(r"vars\((\w+)\)\.setdefault\(['\"](\w+)['\"],", txt)
                            if m and w.args.args and m.group(1) == w.args.args[0].arg:
                                storage = ("instance", m.group(2))
                            elif isinstance(v, ast.Attribute) and isinstance(v.value, ast.Name) and w.args.args and v.value.id == w.args.args[0].arg:
                                storage = ("instance", v.attr)
                    if storage is None:
                        # a variable of an enclosing function: per decorated function when it is created at or inside the function that receives fn
                        for e in encl:
                            if isinstance(e, ast.FunctionDef) and any(isinstance(d, ast.Assign) and any(isinstance(x, ast.Name) and x.id == cname for x in d.targets)
                                                                       for d in e.body):
                                storage = ("per-function", "") if (e is fn_owner or fn_owner in enclosing_funcs(e)) else ("per-decoration", "")
                                break
                    if storage is None and f"{fi.module}.{cname}" in model.module_vars:
                        storage = ("module", f"{fi.module}.{cname}")
                    if storage is None:
                        continue
                    return WrapperMemo(dec_qual, storage, core.src(key), has_fn, st.lineno, fi.rel)
    return None


def wrapper_memo_collisions(model: Model) -> List[Tuple[WrapperMemo, List[str]]]:
    """groups of decorated functions that share one memo store whose key does not identify the function"""
    groups: Dict[Tuple[str, str, str], List[str]] = {}
    infos: Dict[str, Optional[WrapperMemo]] = {}
    for fq, d in model.unknown_decorators():
        fi = model.funcs[fq]
        bd = model.scopes[fi.module].get(d.split(".")[0]) if "." not in d else model.resolve_expr_binding(ast.parse(d, mode="eval").body, fi.module)
        if bd is None or bd.kind != "func":
            continue
        if bd.target not in infos:
            infos[bd.target] = wrapper_memo(model, bd.target)
        wm = infos[bd.target]
        if wm is None or wm.key_has_function:
            continue
        if wm.storage[0] == "instance" and fi.cls:
            groups.setdefault((bd.target, "instance", fi.cls), []).append(fq)
        elif wm.storage[0] == "module":
            groups.setdefault((bd.target, "module", wm.storage[1]), []).append(fq)
    out = []
    for (dq, kind, where), fqs in sorted(groups.items()):
        if len(fqs) >= 2:
            out.append((infos[dq], sorted(fqs)))
    return out
