"""C16 -- results do not depend on what other threads are doing.

Under arbitrary preemption a call can be disturbed by another call only through heap objects both can
reach.  Locals, parameters and objects allocated in the activation are private, so the property reduces to:
no function reachable from the public API writes a module-level object, except the two admitted kinds
(idempotent key-complete cache fills, a write-only diagnostic counter), each verified structurally."""
from __future__ import annotations

import ast
from typing import Dict, List, Optional, Set, Tuple

from . import core
from .shared_state import (CacheInfo, SharedWrite, World, filled_after_publication, locks_at, generic_setter, global_tally_problems, lazy_constant, published_before, recognise_cache, uses_of_attribute, value_dependencies, write_is_definite)

CACHE_KINDS = {"subscript-store:key", "subscript-store:const", "method:append"}

_CONTROL = '''
_tmp = [0.0, 0.0, 0.0]

def helper(out, a):
    out[0] = a[0]
    return out

def api(a):
    helper(_tmp, a)
    return _tmp[0] + 1


# controls for the rules whose instance count on a healthy tree is zero (round 11)
import functools
from typing import List

def memoize_last(fn):
    last_arg = None
    last_result = None

    @functools.wraps(fn)
    def wrapper(arg):
        nonlocal last_arg, last_result
        if arg == last_arg:
            return last_result
        result = fn(arg)
        last_arg = arg
        last_result = result
        return result
    return wrapper

@memoize_last
def api2(a):
    return a + 1

_table = {}

def api3(point, level):
    key = (round(point[0], 6), round(point[1], 6), level)
    hit = _table.get(key)
    if hit is not None:
        return hit
    value = search(point, level)
    _table[key] = value
    return value

def search(point, level):
    return point[0] * level

_lists = {}

def api4(k) -> List[int]:
    if k in _lists:
        return _lists[k]
    xs = [k, k + 1]
    _lists[k] = xs
    return xs
'''


def classify(ctx, w: World, threads: bool = True):
    """-> (admitted caches, admitted counters, violations) as lists of (SharedWrite, info)"""
    writes = w.shared_writes()
    caches: Dict[Tuple[str, str], Tuple[CacheInfo, List[SharedWrite]]] = {}
    counters: List[Tuple[SharedWrite, str]] = []
    bad: List[SharedWrite] = []
    helper_fills = w.helper_fills = []   # keyed fills of a shared container done by a helper that gets the container as a parameter
    tallies = w.global_tallies = []       # module-level dict of counters that API-reachable code only increments
    lazies = w.lazy_constants = []        # (SharedWrite, descriptions): module-level values built once, independent of any argument
    for sw in writes:
        kinds = {k.split(" (")[0] for k in sw.kinds}
        late = None
        if threads and sw.field and sw.depth >= 2:
            keyed_lines = {line for kind, line, text in sw.records if kind.split(" (")[0] == "subscript-store:key"}
            for kind, line, text in sw.records:
                base_k = kind.split(" (")[0]
                if base_k == "subscript-store:key" and len(keyed_lines) == 1:
                    # ONE store under a computed key into a container that is already shared is a cache fill (a complete value
                    # arrives in a single step), not the field-by-field initialisation of a published record
                    continue
                if base_k in ("subscript-store:const", "subscript-store:key", "attr-store", "method:append", "method:update") or kind.startswith("attr-store:"):
                    pub = published_before(w.model, sw.origin_func, sw.field, line)
                    if pub is not None:
                        late = (kind, line, text, pub)
                        break
        if late is not None:
            # an entry that is modified after it was stored into the shared container: other threads can see it half-built
            kind, line, text, pub = late
            sw.origin_line, sw.origin_text = line, text
            sw.kinds = {f"{kind} after the entry was published at line {pub}", "del"}
            bad.append(sw)
            continue
        if sw.field and kinds <= CACHE_KINDS and "subscript-store:key" in kinds and "subscript-store:const" not in kinds \
                and sw.origin_func in w.model.funcs and not w.model.funcs[sw.origin_func].cls and sw.chain \
                and _fills_a_parameter(w.model, sw):
            # (a helper that writes fixed slots of its parameter -- out[0] = .., out[1] = .. -- is an in-place vector operation,
            # not a cache fill: it is judged like any other write into the shared object)
            # the pad / look / compute / store sequence lives in a helper that receives the container as an argument: the idiom is
            # the verified one only if key and value are right at every call site, which is not established here
            helper_fills.append(sw)
            continue
        if sw.field and kinds <= CACHE_KINDS and sw.origin_func in w.model.funcs and w.model.funcs[sw.origin_func].cls:
            key = (sw.origin_func, sw.field)
            if key not in caches:
                caches[key] = (recognise_cache(w.model, sw.origin_func, sw.field), [])
            caches[key][1].append(sw)
            continue
        aug = [k for k in kinds if k.startswith("attr-aug:")]
        if aug and len(aug) == len(kinds) and w.eff.is_instance_object(sw.obj) and \
                (len(aug) == 1 or all(not check_counter(w, k.split(":", 1)[1]) for k in aug)):
            # one counter (judged below), or several that are all write-only
            for k in aug:
                counters.append((sw, k.split(":", 1)[1]))
            continue
        rebinds = [k for k in kinds if k.startswith("global-rebind:")]
        if threads and rebinds and any(filled_after_publication(w.model, sw.origin_func, k.split(":", 1)[1]) for k in rebinds):
            why = [filled_after_publication(w.model, sw.origin_func, k.split(":", 1)[1]) for k in rebinds]
            sw.kinds = {f"global-rebind before the object is complete: {[x for x in why if x][0]}"}
            bad.append(sw)
            continue
        if rebinds and len(rebinds) == len(kinds) and all(lazy_constant(w.model, sw.origin_func, k.split(":", 1)[1]) for k in rebinds):
            lazies.append((sw, [lazy_constant(w.model, sw.origin_func, k.split(":", 1)[1]) for k in rebinds]))
            continue
        if kinds == {"subscript-aug"} and not sw.field and sw.obj in w.model.module_vars and not global_tally_problems(w.model, sw.obj, w.reach):
            tallies.append(sw)
            continue
        if kinds == {"subscript-aug"} and sw.field and w.eff.is_instance_object(sw.obj) and not check_counter(w, sw.field):
            # self.tally[key] += 1 : a table of counters that no API-reachable code reads
            counters.append((sw, sw.field))
            continue
        bad.append(sw)
    return caches, counters, bad


def _fills_a_parameter(model, sw) -> bool:
    """every writing statement of this group stores into a PARAMETER of the helper (cache.append(..), cache[index] = ..)"""
    fi = model.funcs.get(sw.origin_func)
    if fi is None:
        return False
    params = {a.arg for a in fi.node.args.args + fi.node.args.kwonlyargs}
    import re as _re
    for _k, _l, text in sw.records:
        m = _re.match(r"\s*(\w+)\s*(\[|\.)", text)
        if not m or m.group(1) not in params:
            return False
    return bool(sw.records)


def _passed_on(model, fq: str, node: ast.AST) -> bool:
    """the attribute is only handed to a call as an argument (its content is looked at by the callee, under whatever lock that holds)"""
    fi = model.funcs.get(fq)
    if fi is None:
        return False
    for c in ast.walk(fi.node):
        if isinstance(c, ast.Call) and any(a is node for a in c.args) and not (isinstance(c.func, ast.Name) and c.func.id in (
                "len", "list", "tuple", "sorted", "iter", "enumerate", "bool", "any", "all", "sum", "min", "max", "set", "dict", "zip", "reversed")):
            return True
    return False


def check_counter(w: World, attr: str) -> List[str]:
    problems = []
    for fq, node, role in uses_of_attribute(w.model, attr):
        if role in ("aug", "aug-slot", "init", "guard-print"):
            continue
        if fq not in w.reach and not fq.endswith(".__init__"):
            continue        # read by a diagnostic function that no public function calls: it cannot influence a public result
        if fq.endswith(".__init__") and role == "store":
            continue        # whatever the constructor puts there is the initial value
        problems.append(f"`.{attr}` is used as `{role}` in {fq} line {node.lineno}")
    return problems


def closure_state_of_decorators(ctx, w) -> None:
    """C16.5 (round 11): a repository-defined decorator whose wrapper keeps per-call data in `nonlocal` variables of the decorator's
    frame.  The decorator runs once, at import, per decorated function: those variables live as long as the module and are shared
    by every caller and thread of that function -- exactly like module-level variables.  A wrapper that stores something computed
    from its arguments (or from the wrapped function's result) into such a variable, and reads it back to decide or to answer, is
    a one-entry memo without a lock: between the hit test and the return, or between its stores, another thread's call changes
    what this call returns.  Stores and reads that all sit inside one `with <lock>:` are serialised (undecided, like module-level
    state under a lock); augmented tallies that are never read back for the result are not data."""
    import ast as _ast
    seen = set()
    for f, d in w.unknown_decorators:
        if f not in w.reach or (f, d) in seen:
            continue
        seen.add((f, d))
        fi = w.model.funcs[f]
        bd = w.model.scopes.get(fi.module, {}).get(d.split(".")[-1]) if "." not in d else None
        target = None
        for _ in range(4):
            if bd is None or bd.kind != "func":
                break
            if bd.target in w.model.funcs:
                target = bd.target
                break
            mod_, _, nm_ = bd.target.rpartition(".")
            bd = w.model.scopes.get(mod_, {}).get(nm_)
        if target is None:
            continue
        dn = w.model.funcs[target].node
        returned = {st.value.id for st in _ast.walk(dn) if isinstance(st, _ast.Return) and isinstance(st.value, _ast.Name)}
        for wr in [n for n in dn.body if isinstance(n, _ast.FunctionDef) and n.name in returned]:
            nl = {nm for n in _ast.walk(wr) if isinstance(n, _ast.Nonlocal) for nm in n.names}
            if not nl:
                continue
            params = {a.arg for a in wr.args.posonlyargs + wr.args.args + wr.args.kwonlyargs} | \
                     ({wr.args.vararg.arg} if wr.args.vararg else set()) | ({wr.args.kwarg.arg} if wr.args.kwarg else set())
            # locals of the wrapper computed from its parameters (flow-insensitive closure)
            tainted = set(params)
            for _ in range(5):
                for n in _ast.walk(wr):
                    if isinstance(n, _ast.Assign) and any(isinstance(x, _ast.Name) and x.id in tainted for x in _ast.walk(n.value)):
                        for t in n.targets:
                            for x in _ast.walk(t):
                                if isinstance(x, _ast.Name) and x.id not in nl:
                                    tainted.add(x.id)
            stores = [n for n in _ast.walk(wr) if isinstance(n, _ast.Assign) and any(isinstance(t, _ast.Name) and t.id in nl for t in n.targets)
                      and any(isinstance(x, _ast.Name) and x.id in tainted for x in _ast.walk(n.value))]
            stored = {t.id for n in stores for t in n.targets if isinstance(t, _ast.Name) and t.id in nl}
            reads = {x.id for n in _ast.walk(wr) if isinstance(n, (_ast.If, _ast.Return, _ast.IfExp, _ast.Compare)) for x in _ast.walk(n)
                     if isinstance(x, _ast.Name) and isinstance(x.ctx, _ast.Load) and x.id in stored}
            if not stores or not reads:
                continue
            where = f"{w.rel_of(target)}:{stores[0].lineno}"
            locked = [n for n in _ast.walk(wr) if isinstance(n, _ast.With)]
            inside = {id(x) for lk in locked for x in _ast.walk(lk)}
            touching = [n for n in _ast.walk(wr) if isinstance(n, _ast.Name) and n.id in stored]
            if locked and all(id(n) in inside for n in touching):
                ctx.unk("C16.5", f"closure state {sorted(stored)} of decorator {target} around {f}", where,
                        "every use of the variables is inside a with-statement (a lock, if it is one): serialised; what a call reads there is C17's question")
                continue
            ctx.bad("C16.5", f"closure state {sorted(stored)} of decorator {target} is written on every call of {f}", where,
                    f"`{core.src(stores[0])}`" + (f" and `{core.src(stores[1])}`" if len(stores) > 1 else "") +
                    f" in {target}.{wr.name} store per-call data in variables of the decorator's frame, which all callers and threads of {f} share, and "
                    f"{sorted(reads)} is read back to answer: a switch between the test and the return, or between the stores, hands one call another call's result")


def run(ctx):
    ctx.explanation = (
        "Interprocedural effect analysis (sa/model.py: resolved call graph, 0 unresolved call sites; sa/effects.py: points-to with "
        "depth-limited access paths and per-function summaries instantiated at every call site). Every write whose target may be a "
        "module-level object and that happens in a function reachable from the 13 public functions is classified: idempotent "
        "key-complete cache fill (structure verified: slot store keyed by a value the cached computation is a function of, placeholder "
        "handled by the reader, slot returned), write-only diagnostic counter (all uses of the attribute enumerated), or VIOLATION "
        "reported with the object, the storing statement and one call path from the API. The write through an `out` parameter of a "
        "vec3 helper is found through the derived mutates-parameter summaries, not through syntax.")
    ctx.trusted_base = ["CPython: a single reference store / list.append is atomic under the GIL (free-threaded build out of scope)",
                        "analysis preconditions: no reflection, no monkey-patching (checked: getattr/setattr/exec/globals absent)"]
    ctx.assumptions = ["callers do not mutate package internals (e.g. a5.core.origin.origins) from outside the package"]
    _positive_control(ctx)
    w = World(ctx)
    w.threads_view = True
    for f, d in w.unknown_decorators:
        ctx.unk("C16.0", f"{f} is wrapped by the decorator @{d}", f"{w.rel_of(f)}:{w.model.funcs[f].node.lineno}",
                "the effects of the wrapper are not modelled; obligations that involve this function are not decided")
    closure_state_of_decorators(ctx, w)
    thread_local_pitfalls(ctx, w)
    caches, counters, bad = classify(ctx, w)

    # ---- violations ------------------------------------------------------------------------------------
    bad_owner_funcs: Set[str] = set()
    for sw in sorted(bad, key=lambda s: (s.name, s.owner)):
        bad_owner_funcs.add(sw.owner)
        where = f"{w.rel_of(sw.owner)}:{sw.owner_line or sw.origin_line}"
        vague = w.reached_by_name_only(sw)
        if vague:
            ctx.unk("C16.1", f"shared object {sw.name} may be written by {sw.owner}", where,
                    f"`{sw.origin_text}` in {sw.origin_func} is reached through a call whose receiver class is not known: {vague}")
            continue
        # every statement that writes the object holds one and the same lock: the writes are serialised
        held = None
        for _k, line_, _t in sw.records:
            here = locks_at(w.model, sw.origin_func, line_)
            held = here if held is None else (held & here)
        if held:
            lk = sorted(held)[0]
            loose = []
            is_method = any(sw.field in ci_.methods for ci_ in w.model.classes.values()) if sw.field else False
            if sw.field and not is_method:
                for fq, node, role in uses_of_attribute(w.model, sw.field):
                    if fq in w.reach and not fq.endswith(".__init__") and lk not in locks_at(w.model, fq, node.lineno) \
                            and not _passed_on(w.model, fq, node):
                        loose.append((fq, node.lineno))
            if not sw.field and sw.obj in w.model.module_vars:
                mod_, nm_ = sw.obj.rsplit(".", 1)
                for fq, fi_ in w.model.funcs.items():
                    if fi_.module != mod_ or fi_.is_module_body or fq not in w.reach:
                        continue
                    for n_ in ast.walk(fi_.node):
                        if isinstance(n_, ast.Name) and n_.id == nm_ and isinstance(n_.ctx, ast.Load) and lk not in locks_at(w.model, fq, n_.lineno):
                            loose.append((fq, n_.lineno))
            steps = len({l_ for _k, l_, _t in sw.records})
            if any("before the object is complete" in k_ for k_ in sw.kinds):
                steps = max(steps, 2)
            fi_o = w.model.funcs.get(sw.origin_func)
            if fi_o is not None:
                rec_lines = {l_ for _k, l_, _t in sw.records}
                for lp in ast.walk(fi_o.node):
                    if isinstance(lp, (ast.For, ast.While)) and any(getattr(x, "lineno", 0) in rec_lines for b_ in lp.body for x in ast.walk(b_)):
                        steps = max(steps, 2)          # filled entry by entry in a loop
            if loose and steps > 1:
                ctx.bad("C16.1", f"shared object {sw.name} is built in several steps under the lock {lk} but read without it", where,
                        f"`{sw.origin_text}` in {sw.origin_func} (and {steps - 1} more writing statements) hold {lk}; {loose[0][0]} line {loose[0][1]} "
                        f"reads {('.' + sw.field) if sw.field else sw.name} without it and can see the object half-built (reachable via {w.path_to(sw.owner)})")
            else:
                ctx.unk("C16.1", f"shared object {sw.name} is written under the lock {lk}", where,
                        f"`{sw.origin_text}` in {sw.origin_func}: every writing statement holds {lk}" +
                        ("" if not loose else f" (read without it at {loose[0][0]} line {loose[0][1]}: a single complete store)") +
                        "; the accesses are serialised, and whether what a call reads there depends on earlier calls is the question C17 decides")
            continue
        if write_is_definite(w.model, sw):
            ctx.bad("C16.1", f"shared object {sw.name} is written by {sw.owner}", where,
                    f"`{sw.origin_text}` in {sw.origin_func} (line {sw.origin_line}) stores into module-level state ({', '.join(sorted(sw.kinds))}); "
                    f"reachable from the API via {w.path_to(sw.owner)}; another thread running the same code between this write and the later "
                    f"read changes the result", call_path=w.model.call_path(w.reach, sw.owner))
        else:
            ctx.unk("C16.1", f"shared container {sw.name} is filled by {sw.owner}", where,
                    f"`{sw.origin_text}` in {sw.origin_func} (line {sw.origin_line}; {', '.join(sorted(sw.kinds))}) is a keyed store that is not one of the "
                    f"verified cache fills; whether racing fills store equal values is not decided (reachable via {w.path_to(sw.owner)})")
    # ---- caches ------------------------------------------------------------------------------------------
    for (func, fld), (ci, sws) in sorted(caches.items()):
        where = f"{w.rel_of(func)}:{w.model.funcs[func].node.lineno}"
        name = f"{sws[0].obj}.{fld}"
        problems = list(ci.problems)
        dep, _ = value_dependencies(w.model, ci)
        extra = dep - ci.key_vars
        if extra and generic_setter(w.model, ci.func, set(ci.key_vars), set(extra)):
            ctx.unk("C16.2", f"cache {name}: key and value are both handed in by the caller of {ci.func}", where,
                    "whether racing fills store equal values depends on the call sites: not decided")
            continue
        if extra:
            problems.append(f"the cached value depends on {sorted(extra)} which the key `{core.src(ci.key_expr)}` is not computed from")
        # (iii) the cached computation must not go through non-admitted shared state
        reach_from_fill = w.model.reachable([func])
        tainted = sorted(set(reach_from_fill) & bad_owner_funcs)
        if tainted:
            problems.append(f"the cached value is computed through non-admitted shared state ({tainted[0].split('.', 2)[-1]}...): "
                            f"a value torn by another thread would be stored for ever")
        other_writers = [fq for fq, fi in w.model.funcs.items() if fi.cls == w.model.funcs[func].cls and fq != func and not fq.endswith(".__init__")
                         and any(isinstance(n, (ast.Assign, ast.AugAssign)) and any(
                             isinstance(t, ast.Subscript) and isinstance(t.value, ast.Attribute) and t.value.attr == fld
                             for t in (n.targets if isinstance(n, ast.Assign) else [n.target])) for n in ast.walk(fi.node))]
        if other_writers:
            problems.append(f"slots are also written by {other_writers}")
        if problems:
            for p in problems:
                definite = p.startswith(("the cached value depends on", "the cached value is computed through"))
                ctx.ob("C16.2", f"cache {name} filled by {func}: {p}", core.VIOLATED if definite else core.UNDECIDED, where,
                       "the write is not an idempotent, key-complete cache fill, so two threads can observe or store different values" if definite else
                       "the fill does not follow the verified idiom; whether racing fills are equivalent is not decided")
        else:
            ctx.ok("C16.2", f"cache {name} filled by {func} is an idempotent key-complete fill", where,
                   f"{ci.variant} variant; key `{core.src(ci.key_expr)}` computed from {sorted(ci.key_vars)}; value depends on {sorted(dep)}; "
                   f"placeholder handled; slot returned; computing code writes no other shared state; owners: {sorted({s.owner.split('.', 2)[-1] for s in sws})}")
    # ---- values built on first use ----------------------------------------------------------------------------
    for sw, descs in getattr(w, "lazy_constants", []):
        ctx.ok("C16.2", f"module-level value {sw.name} is built on first use and published by one assignment", f"{w.rel_of(sw.origin_func)}:{sw.origin_line}",
               "; ".join(descs) + ": threads that race on the first use store equal values, a reader sees None or the complete object")
    for sw in getattr(w, "helper_fills", []):
        ctx.unk("C16.2", f"shared container {sw.name} is filled through the helper {sw.origin_func}", f"{w.rel_of(sw.origin_func)}:{sw.origin_line}",
                f"`{sw.origin_text}` ({', '.join(sorted(sw.kinds))}): the container comes in as a parameter; whether every caller passes a key that "
                f"determines the value (so that racing fills store equal values) is not decided")
    for sw in getattr(w, "global_tallies", []):
        ctx.ok("C16.3", f"module-level table of counters {sw.name} is write-only", f"{w.rel_of(sw.origin_func)}:{sw.origin_line}",
               "code reachable from the API only increments its entries: a lost update cannot change a result")
    # ---- counters ----------------------------------------------------------------------------------------
    seen = set()
    for sw, attr in counters:
        if (sw.obj, attr) in seen:
            continue
        seen.add((sw.obj, attr))
        problems = check_counter(w, attr)
        where = f"{w.rel_of(sw.origin_func)}:{sw.origin_line}"
        if problems:
            ctx.bad("C16.3", f"counter {sw.obj}.{attr} incremented by {sw.origin_func} flows into results", where, "; ".join(problems))
        else:
            ctx.ok("C16.3", f"counter {sw.obj}.{attr} is write-only", where,
                   "its only uses in code reachable from the API are the increment, its initialisation and a comparison guarding a print(): a lost update cannot change a result")
    # ---- import-time initialisation --------------------------------------------------------------------------
    n_import = 0
    for fq, fa in w.eff.analyses.items():
        if fq in w.reach:
            continue
        n_import += len(fa.global_mutations())
    ctx.ok("C16.5", "all other writes to module-level objects happen in import-time code", "a5/",
           f"{n_import} write sites in functions not reachable from the API (module bodies, generate_origins, CRS.__init__, ...): "
           f"serialised by the import lock, complete before any API call")
    ctx.floor("shared containers written from API-reachable code (caches, admitted or not)", len(caches) + len({b.name for b in bad}), 3, soft=True)
    ctx.floor("functions whose summary mutates parameter 0", sum(1 for s in w.eff.summaries.values() if any(t == ("P", 0, 0) for t, *_ in s.mut)), 14, soft=True)
    ctx.analysed["shared_write_groups"] = len(bad) + sum(len(v[1]) for v in caches.values()) + len(counters)
    ctx.analysed["caches"] = [f"{k[0]}::{k[1]}" for k in sorted(caches)]
    return w, caches, counters, bad


def thread_local_pitfalls(ctx, w: World) -> None:
    """C16.4: an attribute of a threading.local() object exists only in the thread that assigned it.  When every plain store of
    `<local>.attr` sits in a constructor / module body (which runs once, in one thread) and another function reads or
    augments `<local>.attr`, every other thread gets AttributeError."""
    model = w.model
    locals_: Dict[str, Tuple[str, int]] = {}          # textual holder ('self._stats' / '_tls') -> (function, line)
    for fq, fi in model.funcs.items():
        for n in ast.walk(fi.node):
            if isinstance(n, ast.Assign) and isinstance(n.value, ast.Call) and core.src(n.value.func) in ("threading.local", "local") and not n.value.args:
                for t in n.targets:
                    if isinstance(t, (ast.Name, ast.Attribute)):
                        locals_[core.src(t)] = (fq, n.lineno)
    for holder, (created_in, line) in sorted(locals_.items()):
        attr_of = holder.rsplit(".", 1)[-1]
        stores: Dict[str, List[Tuple[str, int]]] = {}
        reads: Dict[str, List[Tuple[str, int]]] = {}
        for fq, fi in model.funcs.items():
            for n in ast.walk(fi.node):
                if isinstance(n, ast.Attribute) and isinstance(n.value, (ast.Name, ast.Attribute)) and core.src(n.value).rsplit(".", 1)[-1] == attr_of:
                    if isinstance(n.ctx, ast.Store):
                        par_aug = any(isinstance(m, ast.AugAssign) and m.target is n for m in ast.walk(fi.node))
                        (reads if par_aug else stores).setdefault(n.attr, []).append((fq, n.lineno))
                    elif isinstance(n.ctx, ast.Load):
                        reads.setdefault(n.attr, []).append((fq, n.lineno))
        for a, rd in sorted(reads.items()):
            st = stores.get(a, [])
            once = [x for x in st if x[0].endswith(".__init__") or model.funcs[x[0]].is_module_body]
            elsewhere = [x for x in rd if x[0] in w.reach and x not in once and not (x[0].endswith(".__init__"))]
            if st and len(once) == len(st) and elsewhere:
                f, l = elsewhere[0]
                ctx.bad("C16.4", f"thread-local attribute {holder}.{a} is initialised only where the object is created", f"{w.rel_of(f)}:{l}",
                        f"`{holder} = threading.local()` (in {created_in}) and its `.{a}` is assigned in {sorted({x[0].split('.', 2)[-1] for x in once})} only; "
                        f"{f} uses `.{a}` (reachable via {w.path_to(f)}): a thread other than the creating one raises AttributeError there")
            elif st and elsewhere:
                ctx.ok("C16.4", f"thread-local attribute {holder}.{a} is assigned in the code that uses it", f"{w.rel_of(elsewhere[0][0])}:{elsewhere[0][1]}", "")


def _positive_control(ctx):
    """a synthetic module on which C16.1 must fire (scratch written through an out-parameter helper)"""
    import os
    import shutil
    import tempfile
    from .mutate import scratch_base
    d = tempfile.mkdtemp(prefix="a5ctl-", dir=scratch_base())
    try:
        os.makedirs(os.path.join(d, "a5"))
        with open(os.path.join(d, "a5", "__init__.py"), "w") as fh:
            fh.write("from a5.ctl import api, api2, api3, api4\n__all__ = ['api', 'api2', 'api3', 'api4']\n")
        with open(os.path.join(d, "a5", "ctl.py"), "w") as fh:
            fh.write(_CONTROL)
        from .model import Model
        from .effects import Effects
        m = Model(core.Sources(d))
        e = Effects(m)
        reach = m.reachable(m.api_roots())
        hits = [g for f in reach for g in e.analyses[f].global_mutations()]
        if not any(g.target[1] == "a5.ctl._tmp" for g in hits):
            raise core.AnalysisError("positive control for C16.1 did not fire (scratch written through an out-parameter helper)")
        ctx.analysed["positive_control"] = "fired: a5.ctl._tmp written via helper(out, a)"
        # the rules added in round 11 have no instance on a healthy tree: each must fire on the synthetic module
        import types
        from .shared_state import lossy_key_memo
        fired = []
        if lossy_key_memo(m, "a5.ctl.api3") is None:
            raise core.AnalysisError("positive control for C17.2 (memo key rounds an argument) did not fire")
        fired.append("C17.2 rounding key: a5.ctl.api3")
        if not any(n[0] == "G" and n[2] >= 1 for n in e.summaries["a5.ctl.api4"].ret):
            raise core.AnalysisError("positive control for C17.4 / C10.6 / C20.7 (a table entry is the returned value) did not fire")
        fired.append("returned table entry: a5.ctl.api4")
        got = []
        shim_ctx = types.SimpleNamespace(bad=lambda *a, **k: got.append(a), unk=lambda *a, **k: None, ok=lambda *a, **k: None)
        shim_w = types.SimpleNamespace(unknown_decorators=m.unknown_decorators(), reach=set(reach) | {"a5.ctl.api2"}, model=m, rel_of=lambda f: "a5/ctl.py")
        closure_state_of_decorators(shim_ctx, shim_w)
        if not any(a[0] == "C16.5" for a in got):
            raise core.AnalysisError("positive control for C16.5 (closure state of a decorator) did not fire")
        fired.append("C16.5 closure state: a5.ctl.memoize_last around a5.ctl.api2")
        ctx.analysed["positive_controls_round_11"] = fired
    finally:
        shutil.rmtree(d, ignore_errors=True)
