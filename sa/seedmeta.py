"""(Re)compute the check-result fields of /verif/seeded/<id>/meta.json.

The truth fields (which claimed properties the change really breaks, what it needs to manifest, how it was confirmed) are
written by hand when a change is admitted; this tool only re-runs every claimed check on a scratch copy of /repo with the
patch applied and records what each check said.      /venv/bin/python sa/seedmeta.py [id ...]"""
from __future__ import annotations

import json
import os
import sys
from concurrent.futures import ThreadPoolExecutor

HERE = os.path.dirname(os.path.abspath(__file__))
sys.path.insert(0, os.path.dirname(HERE))

from sa.cli import CLAIMED  # noqa: E402
from sa.mutate import run_patch  # noqa: E402

SEEDED = os.path.join(os.path.dirname(HERE), "seeded")


def evaluate(name: str) -> dict:
    d = os.path.join(SEEDED, name)
    with open(os.path.join(d, "meta.json")) as fh:
        meta = json.load(fh)
    truth = set(meta.get("breaks_claimed_properties", []))
    may = set(meta.get("may_break_claimed_properties", []))
    fired, first, und, errs = [], {}, [], []
    for p in CLAIMED:
        try:
            code, out = run_patch(p, os.path.join(d, "patch.diff"))
        except Exception as e:
            errs.append(f"{p}: {e!r}"[:160])
            continue
        if code == 1:
            fired.append(p)
            for l in out.splitlines():
                if l.startswith("  rule="):
                    first[p] = l.strip()[:260]
                    break
        elif code == 0:
            if p in truth and any(l.startswith("UNDECIDED") for l in out.splitlines()):
                und.append(p)
        else:
            errs.append(f"{p}: exit {code}: {(out.strip().splitlines() or [''])[0][:120]}")
    meta["checks_run"] = "every claimed check (quick tier) on a scratch copy of /repo with the patch applied, via A5_REPO"
    meta["checks_that_report_a_violation"] = fired
    meta["first_report"] = first
    meta["checks_undecided"] = und
    meta["missed"] = sorted(p for p in truth if p not in fired and p not in und)
    meta["false_alarms"] = sorted(p for p in fired if p not in truth and p not in may)
    meta["analysis_errors"] = errs
    with open(os.path.join(d, "meta.json"), "w") as fh:
        json.dump(meta, fh, indent=1)
    return meta


def main(argv):
    names = argv or sorted(n for n in os.listdir(SEEDED) if os.path.isfile(os.path.join(SEEDED, n, "meta.json")))
    os.environ.setdefault("A5_JOBS", "2")
    bad = 0
    with ThreadPoolExecutor(int(os.environ.get("A5_SEED_THREADS", "6"))) as ex:
        for name, m in zip(names, ex.map(evaluate, names)):
            print(f"{name}: truth {m.get('breaks_claimed_properties')} fired {m['checks_that_report_a_violation']} "
                  f"undecided {m['checks_undecided']} missed {m['missed']} false alarms {m['false_alarms']} errors {m['analysis_errors']}")
            bad += len(m["false_alarms"]) + len(m["analysis_errors"])
    return 1 if bad else 0


if __name__ == "__main__":
    sys.exit(main(sys.argv[1:]))
