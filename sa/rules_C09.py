"""C09 -- compact output is the unique minimal, duplicate-free representation (see sa/compact_rules.py)."""
from . import compact_rules


def run(ctx):
    ctx.explanation = (
        "Necessary and jointly sufficient structural conditions of the sorted-scan compaction, decided on the source: "
        "C09.1 the working list is duplicate-free and sorted before the first pass; C09.2 a group ending at the end of the list "
        "is merged (window n - i >= k, not >); C09.3 passes repeat until one makes no change (flag reset/set, list rebound); "
        "C09.4 hierarchical order = sort order: the parent map of every level is monotone in sort-key order, hence complete "
        "sibling groups of an antichain are adjacent; C09.5 a parent's key lies inside its children's key span, hence in-place "
        "replacement keeps the list sorted. C09.4/5 are decided on the id forms extracted from serialize (all faces, segments, "
        "positions at once); when they fail, a concrete interleaved antichain is searched on the finite face/segment grid of "
        "those forms and reported as the violating input.")
    ctx.trusted_base = ["sa/lin.py, sa/absint.py", "C05/C06 for the meaning of decoded ids and the children family"]
    ctx.assumptions = ["the input is an antichain of valid cell ids (the property's precondition)"]
    compact_rules.analyse(ctx, "C09")
