"""C10 -- uncompact expands each cell to exactly its descendants at the target level.

Structure extraction (two passes over the same parameter: sizing, then filling a pre-allocated list at a
running offset) + abstract interpretation of ONE generic iteration of each pass for every pair
(resolution of the cell, target resolution).  The inductive invariant
    offset_i = sum of the sizes of cells 0..i-1,   result[0:offset_i] filled in order
is checked on the generic iteration: the slots written are exactly [offset, offset + size) in order, with the
children family of cell_to_children(cell, target) (or the cell itself), and the offset advances by the same
size that the sizing pass added.
"""
from __future__ import annotations

import ast
from dataclasses import dataclass, field
from typing import Any, Dict, List, Optional, Tuple

from .absint import forks_reset as absint_forks_reset
from . import core
from .absint import (Budget, CellV, ExcV, GenericList, Interp, ListV, NONE, Seg, State, Unknown, _Unmodelled, opaque_path)
from .codec import COMPACT, INFO, SER, describe_path, same_or_refuted
from .lin import Lin, Sym, compare
from .rules_C06 import Raises, Setup, children_family, const_call

Q = "a5.core.compact.uncompact"


@dataclass
class Shape:
    fn: ast.FunctionDef
    cells: str
    target: str
    problems: List[Tuple[str, Optional[ast.AST]]] = field(default_factory=list)
    loop1: Optional[ast.For] = None
    loop2: Optional[ast.For] = None
    elem1: Optional[str] = None
    elem2: Optional[str] = None
    idx2: Optional[str] = None
    acc: Optional[str] = None          # size accumulator of pass 1
    side: List[str] = field(default_factory=list)   # lists filled by pass 1 (one entry per cell)
    result: Optional[str] = None
    alloc: Optional[ast.Assign] = None
    offset: Optional[str] = None
    ret: Optional[ast.Return] = None
    ok: bool = False
    reordered: Optional[Tuple[str, ast.AST]] = None
    alloc_expr: Optional[ast.expr] = None


def extract(sources: core.Sources) -> Shape:
    fn = sources.func(COMPACT, "uncompact")
    if len(fn.args.args) < 2:
        raise core.AnalysisError("uncompact does not take (cells, target_resolution)")
    sh = Shape(fn, fn.args.args[0].arg, fn.args.args[1].arg)
    body = [s for s in fn.body if not (isinstance(s, ast.Expr) and isinstance(s.value, ast.Constant))]
    loops = [s for s in body if isinstance(s, ast.For)]
    if len(loops) != 2:
        sh.problems.append((f"expected two passes over the argument, found {len(loops)} top-level for loops", fn))
        return sh
    sh.loop1, sh.loop2 = loops
    # pass 1: for cell in cells
    it1 = sh.loop1.iter
    if isinstance(it1, ast.Name) and it1.id == sh.cells and isinstance(sh.loop1.target, ast.Name):
        sh.elem1 = sh.loop1.target.id
    else:
        names = {n.func.id for n in ast.walk(it1) if isinstance(n, ast.Call) and isinstance(n.func, ast.Name)}
        if names & {"sorted", "reversed", "set", "frozenset"} and any(isinstance(n, ast.Name) and n.id == sh.cells for n in ast.walk(it1)) \
                and any(isinstance(n, ast.Call) and isinstance(n.func, ast.Attribute) and n.func.attr == "append" for b in sh.loop1.body for n in ast.walk(b)):
            sh.reordered = (core.src(it1), sh.loop1)
        sh.problems.append((f"first pass iterates `{core.src(it1)}`, not the argument itself", sh.loop1))
    it2 = sh.loop2.iter
    if (isinstance(it2, ast.Call) and isinstance(it2.func, ast.Name) and it2.func.id == "enumerate" and len(it2.args) == 1 and not it2.keywords
            and isinstance(it2.args[0], ast.Name) and it2.args[0].id == sh.cells
            and isinstance(sh.loop2.target, ast.Tuple) and len(sh.loop2.target.elts) == 2
            and all(isinstance(e, ast.Name) for e in sh.loop2.target.elts)):
        sh.idx2, sh.elem2 = sh.loop2.target.elts[0].id, sh.loop2.target.elts[1].id
    elif isinstance(it2, ast.Name) and it2.id == sh.cells and isinstance(sh.loop2.target, ast.Name):
        sh.elem2 = sh.loop2.target.id
    else:
        names = {n.func.id for n in ast.walk(it2) if isinstance(n, ast.Call) and isinstance(n.func, ast.Name)}
        if names & {"sorted", "reversed", "set", "frozenset"} and any(isinstance(n, ast.Name) and n.id == sh.cells for n in ast.walk(it2)):
            sh.reordered = (core.src(it2), sh.loop2)
        sh.problems.append((f"second pass iterates `{core.src(it2)}`, not enumerate(argument)", sh.loop2))
    i1, i2 = body.index(sh.loop1), body.index(sh.loop2)
    pre, mid, post = body[:i1], body[i1 + 1:i2], body[i2 + 1:]
    zero_inits, list_inits = [], []
    dict_inits: List[str] = []
    for s in pre:
        if isinstance(s, ast.Assign) and len(s.targets) == 1 and isinstance(s.targets[0], ast.Name) and (
                (isinstance(s.value, ast.Dict) and not s.value.keys) or
                (isinstance(s.value, ast.Call) and isinstance(s.value.func, ast.Name) and s.value.func.id in ("dict", "set", "OrderedDict") and not s.value.args)):
            dict_inits.append(s.targets[0].id)
            continue
        if isinstance(s, ast.Assign) and len(s.targets) == 1 and isinstance(s.targets[0], ast.Name):
            if isinstance(s.value, ast.Constant) and s.value.value == 0:
                zero_inits.append(s.targets[0].id)
                continue
            if isinstance(s.value, ast.List) and not s.value.elts:
                list_inits.append(s.targets[0].id)
                continue
        sh.problems.append((f"statement `{core.src(s)[:60]}` before the sizing pass is not modelled", s))
    for s in mid:
        if isinstance(s, ast.Assign) and len(s.targets) == 1 and isinstance(s.targets[0], ast.Name):
            v = s.value
            if isinstance(v, ast.BinOp) and isinstance(v.op, ast.Mult) and isinstance(v.left, ast.List) and len(v.left.elts) == 1:
                used = [n.id for n in ast.walk(v.right) if isinstance(n, ast.Name) and n.id in zero_inits]
                if len(set(used)) == 1:
                    sh.result, sh.alloc, sh.acc, sh.alloc_expr = s.targets[0].id, s, used[0], v.right
                    continue
            if isinstance(v, ast.Constant) and v.value == 0:
                sh.offset = s.targets[0].id
                continue
        sh.problems.append((f"statement `{core.src(s)[:60]}` between the passes is not modelled", s))
    sh.side = list_inits
    # a pass that iterates a dict/set built from the cells loses order and multiplicity
    for loop in (sh.loop1, sh.loop2):
        it = loop.iter
        base = it.func.value if isinstance(it, ast.Call) and isinstance(it.func, ast.Attribute) and it.func.attr in ("items", "keys", "values") else it
        if isinstance(base, ast.Name) and base.id in dict_inits:
            keyed_by_cell = any(
                (isinstance(n, ast.Assign) and any(isinstance(t, ast.Subscript) and isinstance(t.value, ast.Name) and t.value.id == base.id for t in n.targets)) or
                (isinstance(n, ast.Call) and isinstance(n.func, ast.Attribute) and isinstance(n.func.value, ast.Name) and n.func.value.id == base.id and n.func.attr in ("add", "setdefault", "update"))
                for b in sh.loop1.body for n in ast.walk(b))
            if keyed_by_cell:
                sh.reordered = (core.src(it), loop)
    rets = [s for s in post if isinstance(s, ast.Return)]
    if len(rets) == 1 and len(post) == 1:
        sh.ret = rets[0]
    else:
        sh.problems.append(("statements after the filling pass are not a single return", post[0] if post else fn))
    sh.ok = all([sh.elem1, sh.elem2, sh.result, sh.acc, sh.offset, sh.ret is not None]) and not sh.problems
    return sh


def run_pass1(interp: Interp, sh: Shape, cell: Lin, t: int):
    state = State()
    env = dict(interp.module_env(COMPACT))
    env[sh.cells] = GenericList("input")
    env[sh.target] = Lin(t)
    env[sh.elem1] = cell
    env[sh.acc] = Lin.of(Sym("n0", 0, None))
    side = {nm: ListV([]) for nm in sh.side}
    env.update(side)
    state.frames = [env]
    interp.total_steps += interp.steps
    interp.steps = 0
    absint_forks_reset()
    outs = interp.exec_block(sh.loop1.body, state, COMPACT)
    res = []
    for s2, sig in outs:
        e2 = s2.frames[0]
        acc = e2.get(sh.acc)
        d = (acc - Lin.of(Sym("n0", 0, None))) if isinstance(acc, Lin) else None
        app = {nm: [sg.elem for sg in e2[nm].segs] if isinstance(e2.get(nm), ListV) and not e2[nm].unknown else None for nm in sh.side}
        res.append((sig, d, app, s2))
    return res


def run_pass2(interp: Interp, sh: Shape, cell: Lin, t: int, side_vals: Dict[str, Any]):
    state = State()
    env = dict(interp.module_env(COMPACT))
    i = Sym("i", 0, None)
    env[sh.cells] = GenericList("input", Lin.of(i), cell)
    env[sh.target] = Lin(t)
    env[sh.elem2] = cell
    if sh.idx2:
        env[sh.idx2] = Lin.of(i)
    for nm, v in side_vals.items():
        env[nm] = GenericList(nm, Lin.of(i), v)
    result = ListV([], None, [], Lin.of(Sym("N", 0, None)), Lin(0))
    env[sh.result] = result
    off = Sym("off", 0, None)
    env[sh.offset] = Lin.of(off)
    state.frames = [env]
    saved = interp.unroll_ranges
    interp.unroll_ranges = 1
    interp.total_steps += interp.steps
    interp.steps = 0
    absint_forks_reset()
    try:
        outs = interp.exec_block(sh.loop2.body, state, COMPACT)
    finally:
        interp.unroll_ranges = saved
    res = []
    for s2, sig in outs:
        e2 = s2.frames[0]
        o2 = e2.get(sh.offset)
        d = (o2 - Lin.of(off)) if isinstance(o2, Lin) else None
        r2 = e2.get(sh.result)
        stores = list(r2.stores) if isinstance(r2, ListV) else None
        grown = [sg for sg in r2.segs] if isinstance(r2, ListV) else None
        res.append((sig, d, stores, grown, s2))
    return res


def run(ctx):
    ctx.explanation = (
        "Structure extraction of uncompact (sizing pass, allocation, filling pass at a running offset, both over the same "
        "parameter in order) and abstract interpretation of one generic iteration of each pass for every pair (cell resolution r, "
        "target t). Checked per pair: r > t raises in the sizing pass on every path, before the result exists (C10.1); the sizing "
        "pass adds s(r,t) and the filling pass advances the offset by the same s(r,t) (C10.3); the filling pass writes exactly "
        "the slots offset+0 .. offset+s-1, slot p receiving element p of cell_to_children(cell, t) -- or the cell itself when r == t "
        "(C10.4); s(r,t) equals the length of that children family (C10.5); every written value has resolution t and "
        "cell_to_parent(value, r) is the cell (via the C06 obligations on the same family); the argument is never mutated and the "
        "result is a fresh list (C10.6).")
    ctx.trusted_base = ["sa/lin.py, sa/absint.py", "C05/C06 for the meaning of the children family"]
    ctx.assumptions = ["list entries are valid cell ids"]
    sh = extract(ctx.sources)
    fwhere = core.loc(COMPACT, sh.fn)
    if sh.reordered:
        ctx.bad("C10.2", f"{Q}: a pass iterates `{sh.reordered[0]}` instead of the argument in its own order", core.loc(COMPACT, sh.reordered[1]),
                "the result no longer lists the descendants of each input cell in input order and with multiplicity "
                "(and per-cell data recorded by the other pass is matched to the wrong cell)")
    # mutation of the argument anywhere in the function
    muts = []
    for n in ast.walk(sh.fn):
        if isinstance(n, ast.Call) and isinstance(n.func, ast.Attribute) and isinstance(n.func.value, ast.Name) and n.func.value.id == sh.cells \
                and n.func.attr in ("sort", "reverse", "append", "extend", "pop", "remove", "clear", "insert"):
            muts.append(n)
        if isinstance(n, (ast.Assign, ast.AugAssign, ast.Delete)):
            tg = n.targets if isinstance(n, (ast.Assign, ast.Delete)) else [n.target]
            for t in tg:
                if isinstance(t, ast.Subscript) and isinstance(t.value, ast.Name) and t.value.id == sh.cells:
                    muts.append(n)
    for n in muts:
        ctx.bad("C10.6", f"{Q}: `{core.src(n)[:60]}` modifies the argument", core.loc(COMPACT, n), "the caller's list is changed in place")
    if not muts:
        ctx.ok("C10.6", f"{Q}: the argument is only read; the result is a list allocated in the call", fwhere,
               "no mutating method call or subscript store on the parameter")

    # ---- C10.7: witness search on small list shapes, independent of the shape of the code ---------------------------------
    try:
        from . import compact_scenarios
        from .rules_C06 import Setup as _Setup
        sc = compact_scenarios.run_uncompact(ctx, _Setup(ctx))
    except (Budget, _Unmodelled) as e:
        sc = {"stopped": str(e)}
    ctx.analysed["list_shape_scenarios"] = sc
    for text, node in sh.problems:
        ctx.unk("C10.2", f"{Q}: {text}", core.loc(COMPACT, node), "uncompact has left the modelled two-pass shape")
    if not sh.ok:
        why = (sc.get("reasons") or [sc.get("stopped", "")])[0]
        ctx.unk("C10.2", f"{Q}: structure not recognised", fwhere,
                f"no structural obligation about uncompact is decided; list-shape scenarios: {sc.get('decided', 0)} decided, "
                f"{sc.get('not_modelled', 0)} not followed" + (f" (first reason: {why})" if why else ""))
        return
    ctx.ok("C10.2", f"{Q}: both passes iterate the argument itself, in order", core.loc(COMPACT, sh.loop1),
           f"`for {sh.elem1} in {sh.cells}` then `{core.src(sh.loop2.iter)}`; no copy, sort or filter in between")
    ctx.ok("C10.1", f"{Q}: the result list is allocated after the sizing pass has completed", core.loc(COMPACT, sh.alloc),
           f"`{core.src(sh.alloc)}` follows the first loop; a raise in that loop leaves nothing behind")
    rv = sh.ret.value
    ret_ok = (isinstance(rv, ast.Name) and rv.id == sh.result) or \
        (isinstance(rv, ast.Call) and isinstance(rv.func, ast.Name) and rv.func.id == "list" and len(rv.args) == 1 and not rv.keywords
         and isinstance(rv.args[0], ast.Name) and rv.args[0].id == sh.result) or \
        (isinstance(rv, ast.Subscript) and isinstance(rv.value, ast.Name) and rv.value.id == sh.result and isinstance(rv.slice, ast.Slice)
         and rv.slice.lower is None and rv.slice.upper is None and rv.slice.step is None)
    if ret_ok:
        ctx.ok("C10.4", f"{Q}: returns the filled list", core.loc(COMPACT, sh.ret), core.src(sh.ret))
    else:
        ctx.unk("C10.4", f"{Q}: returns `{core.src(rv)}`", core.loc(COMPACT, sh.ret), "return value is not the filled list or a plain copy of it")
    su = Setup(ctx)
    interp, consts = su.interp, su.consts
    MAX = consts.MAX

    if sh.alloc_expr is not None and not (isinstance(sh.alloc_expr, ast.Name) and sh.alloc_expr.id == sh.acc):
        st0 = State()
        st0.frames = [dict(interp.module_env(COMPACT))]
        nsym = Lin.of(Sym("n", 0, None))
        st0.env[sh.acc] = nsym
        st0.env[sh.target] = Lin.of(Sym("t", -1, MAX))
        try:
            ln = interp.eval(sh.alloc_expr, st0, COMPACT)
        except Exception:
            ln = None
        if isinstance(ln, Lin) and (ln - nsym).is_const() and (ln - nsym).const != 0:
            ctx.bad("C10.5", f"{Q}: result allocated with `{core.src(sh.alloc_expr)}` entries, the passes need exactly `{sh.acc}`", core.loc(COMPACT, sh.alloc),
                    f"{(ln - nsym).const:+d} entries: the last stores fall outside the list / trailing zero entries are returned")
        elif not (isinstance(ln, Lin) and ln == nsym):
            ctx.unk("C10.5", f"{Q}: allocation length `{core.src(sh.alloc_expr)}`", core.loc(COMPACT, sh.alloc), "not decided")
    else:
        ctx.ok("C10.5", f"{Q}: result allocated with exactly the accumulated size", core.loc(COMPACT, sh.alloc), core.src(sh.alloc))

    def task(r):
        rec = core.Recorder(ctx)
        cell = su.ids.get(r)
        if cell is None:
            return rec.obligations, 0
        npairs = 0
        gave_up = 0
        for t in list(range(-1, MAX + 1)):
            npairs += 1
            if gave_up >= 4:
                # the interpreter does not follow this version of the code: the remaining targets would only burn the path budget again
                rec.unk("C10.3", f"{Q}: cell resolution {r}, target {t}: not analysed", core.loc(COMPACT, sh.loop2),
                        "interpretation stopped on four targets in a row for this resolution")
                continue
            try:
                check_pair(rec, su, sh, r, t, cell)
                gave_up = 0
            except (Budget, _Unmodelled) as e:
                gave_up += 1
                rec.unk("C10.3", f"{Q}: cell resolution {r}, target {t}: interpretation stopped", core.loc(COMPACT, sh.loop2), f"{type(e).__name__}: {e}")
        return rec.obligations, npairs

    total = 0
    for obs, npairs in core.parallel_map(task, list(range(-1, MAX + 1))):
        ctx.obligations.extend(obs)
        total += npairs
    ctx.floor("(cell resolution, target) pairs analysed", total, 800, soft=True)
    # ---- C10.6: the descendants are taken from a list made for this call --------------------------------------------------
    from . import purity
    purity.fresh_result(ctx, "C10.6", "a5.core.serialization.cell_to_children", "the list of descendants that uncompact copies from")
    purity.fresh_result(ctx, "C10.6", "a5.core.compact.uncompact", "the expanded list")
    ctx.analysed.update({"pairs": total, "shape": {"accumulator": sh.acc, "side_lists": sh.side, "result": sh.result, "offset": sh.offset},
                         "functions": [Q, "a5.core.cell_info.get_num_children", "a5.core.serialization.cell_to_children",
                                       "a5.core.serialization.get_resolution"]})


def check_pair(rec, su: Setup, sh: Shape, r: int, t: int, cell: Lin):
    interp = su.interp
    w1, w2 = core.loc(COMPACT, sh.loop1), core.loc(COMPACT, sh.loop2)
    tag = f"{Q}: cell of resolution {r}, target {t}"
    if cell.has_opaque():
        rec.unk("C10.1", f"{tag}: id form of the cell", w1, f"serialize does not give the ids of this resolution as a sum of bit fields ({cell}); see C05")
        return
    p1 = run_pass1(interp, sh, cell, t)
    falls = [x for x in p1 if x[0] is None or x[0][0] == "continue"]
    raises = [x for x in p1 if x[0] is not None and x[0][0] == "raise"]
    other = [x for x in p1 if x not in falls and x not in raises]
    if other:
        rec.unk("C10.1", f"{tag}: sizing pass leaves the loop by {other[0][0][0]}", w1, "not modelled")
        return
    if r > t:
        if falls and any(opaque_path(x[3]) for x in falls):
            rec.unk("C10.1", f"{tag}: the sizing pass may accept a cell finer than the target", w1, "on a path whose condition is not modelled")
        elif falls:
            rec.bad("C10.1", f"{tag}: a cell finer than the target is accepted by the sizing pass", w1,
                    f"path [{describe_path(falls[0][3])}] falls through instead of raising")
        else:
            rec.ok("C10.1", f"{tag}: raises in the sizing pass", w1, "every path raises before the result list exists")
        return
    if raises and su.ids.get(t) is not None and any(opaque_path(x[3]) for x in raises):
        rec.unk("C10.1", f"{tag}: the sizing pass may raise", w1, "on a path whose condition is not modelled")
        return
    if raises and su.ids.get(t) is not None:
        rec.bad("C10.1", f"{tag}: the sizing pass raises for a valid request", w1,
                f"path [{describe_path(raises[0][3])}] raises {raises[0][0][1]}")
        return
    if len(falls) != 1 or falls[0][1] is None or not falls[0][1].is_const():
        rec.unk("C10.3", f"{tag}: size added by the sizing pass", w1, f"{len(falls)} paths; delta {falls[0][1] if falls else None}")
        return
    _, d1, side, s1 = falls[0]
    size1 = d1.const
    if any(v is None or len(v) != 1 for v in side.values()):
        rec.unk("C10.3", f"{tag}: per-cell side lists", w1, f"appended {side}")
        return
    side_vals = {nm: v[0] for nm, v in side.items()}
    # expected content
    if su.ids.get(t) is None:
        return   # no ids at the target level (C05 finding): nothing to expand to
    if r == t:
        want_n, fam = 1, None
    else:
        rets, rz = children_family(interp, cell, Lin(t))
        if len(rets) != 1 or not isinstance(rets[0].value, ListV) or rets[0].value.unknown or rets[0].value.length() is None:
            rec.unk("C10.5", f"{tag}: children family", w2, "cell_to_children not summarised")
            return
        fam = rets[0].value
        want_n = fam.length()
    if size1 == want_n:
        rec.ok("C10.5", f"{tag}: sizing pass adds {size1} == number of descendants", w1, "same as the length of cell_to_children(cell, target)")
    else:
        rec.bad("C10.5", f"{tag}: sizing pass adds {size1}, the cell has {want_n} descendants at the target", w1,
                "the pre-allocated list is too short (IndexError) or keeps zero entries")
    p2 = run_pass2(interp, sh, cell, t, side_vals)
    falls2 = [x for x in p2 if x[0] is None or x[0][0] == "continue"]
    bad2 = [x for x in p2 if x not in falls2]
    for x in bad2:
        kind = x[0][0]
        lost = opaque_path(x[4])
        rec.ob("C10.4", f"{tag}: filling pass leaves the loop by {kind}", core.VIOLATED if kind == "raise" and not lost else core.UNDECIDED, w2,
               f"path [{describe_path(x[4])}] {x[0][1] if kind == 'raise' else ''}")
    if len(falls2) != 1:
        if falls2:
            rec.unk("C10.4", f"{tag}: filling pass has {len(falls2)} paths", w2, "; ".join(describe_path(x[4]) for x in falls2[:3]))
        return
    _, d2, stores, grown, s2 = falls2[0]
    if grown:
        rec.unk("C10.4", f"{tag}: result list grows by append/extend", w2, "formulation not modelled")
        return
    if d2 is None or not d2.is_const():
        rec.unk("C10.3", f"{tag}: offset advance", w2, f"{d2}")
    elif d2.const == size1:
        rec.ok("C10.3", f"{tag}: offset advances by {size1}, the size added by the sizing pass", w2, "cursor invariant offset_i = sum of earlier sizes is preserved")
    else:
        rec.bad("C10.3", f"{tag}: offset advances by {d2.const}, the sizing pass added {size1}", w2,
                "later cells are written over / behind the slots reserved for them")
    off = Lin.of(Sym("off", 0, None))
    if stores is None:
        rec.unk("C10.4", f"{tag}: stores into the result", w2, "not determined")
        return
    if r == t:
        if len(stores) == 1 and not stores[0][2] and isinstance(stores[0][0], Lin) and stores[0][0] == off and stores[0][1] == cell:
            rec.ok("C10.4", f"{tag}: writes the cell itself at the offset", w2, "result[offset] = cell")
        else:
            desc = [(str(i), str(v)) for i, v, _ in stores[:3]]
            st, text = (core.VIOLATED, f"stores {desc}") if all(isinstance(i, Lin) and isinstance(v, Lin) for i, v, _ in stores) else (core.UNDECIDED, f"stores {desc}")
            rec.ob("C10.4", f"{tag}: does not write exactly the cell itself at the offset", st, w2, text)
        return
    # r < t: one store family, slot offset+p receives element p of the children family
    if len(stores) != len(fam.segs):
        rec.bad("C10.4", f"{tag}: {len(stores)} store statements executed for {len(fam.segs)} children families", w2,
                f"stores {[(str(i), str(v)) for i, v, _ in stores[:3]]}")
        return
    pos0 = 0
    for (idx, val, binders), seg in zip(stores, fam.segs):
        cnt = 1
        for _, c in binders:
            cnt *= c
        if cnt != seg.count():
            rec.bad("C10.4", f"{tag}: writes {cnt} of the {seg.count()} descendants", w2, "loop over the children does not cover all of them")
            return
        # canonical position of the binder tuple in list order
        pos = Lin(pos0)
        mult = 1
        for b, c in reversed(binders):
            pos = pos + Lin.of(b).scale(mult)
            mult *= c
        if not isinstance(idx, Lin) or not isinstance(val, Lin):
            rec.unk("C10.4", f"{tag}: store index/value", w2, f"{idx} <- {val}")
            return
        rel = idx - off
        n_seg = seg.count()
        if rel == pos or (rel + pos).is_const() and (rel + pos).const == 2 * pos0 + n_seg - 1:
            pass    # slot offset+p <- child p, or the same block written back to front: a bijection onto the block
        else:
            lo, hi = rel.rng()
            if lo is not None and hi is not None and (lo < pos0 or hi > pos0 + n_seg - 1) and not rel.has_residual():
                rec.bad("C10.4", f"{tag}: children are written to slots offset + [{lo}, {hi}], the block reserved for them is offset + [{pos0}, {pos0 + n_seg - 1}]",
                        w2, f"slot index - offset = {rel} for child position {pos}")
            else:
                rec.unk("C10.4", f"{tag}: slot assignment `offset + {rel}` for child position {pos}", w2, "not shown to be a bijection onto the reserved block")
            return
        # value is the family element with the binders renamed positionally
        from .absint import subst_value
        want = seg.elem
        for (b_old, _), (b_new, _) in zip(seg.binders, binders):
            want = subst_value(want, b_old, Sym(b_new.name, b_new.lo, b_new.hi))
        st_v, text_v = same_or_refuted(val, want, 0)
        if st_v != core.DISCHARGED:
            rec.ob("C10.4", f"{tag}: slot offset + p does not receive child p of cell_to_children(cell, target)", st_v, w2, text_v)
            return
        # resolution and parent of what is written
        outs = interp.run_function(SER, "get_resolution", [val])
        if not (len(outs) == 1 and outs[0].kind == "return" and outs[0].value == Lin(t)):
            decided = all(o.kind == "return" and isinstance(o.value, Lin) and o.value.is_const() and not opaque_path(o.state) for o in outs)
            rec.ob("C10.4", f"{tag}: written cells have resolution {[str(o.value) for o in outs][:6]}, not {t}",
                   core.VIOLATED if decided and outs else core.UNDECIDED, w2, f"value form {val}")
            return
        pos0 += seg.count()
    rec.ok("C10.4", f"{tag}: slots offset .. offset+{want_n - 1} receive the {want_n} descendants in order", w2,
           "slot offset + p <- element p of cell_to_children(cell, target); all of resolution t (parent link: C06.1)")
