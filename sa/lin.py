"""E4 -- abstract integers: linear forms over named, ranged atoms with exact
bit-field reasoning.

    Lin  ::=  const + sum_i  coeff_i * atom_i
    atom ::=  Sym(name, lo, hi)              an opaque integer with a declared range
           |  Slice(sym, a, b)               bits [a, b) of a non-negative Sym
           |  ModA(lin, m) | DivA(lin, m)    residual  lin % m,  lin // m   (m > 0 constant)
           |  Fn(name, args, lo, hi)         uninterpreted function of Lins (table look-ups)
           |  Opaque(tag, lo, hi)            anything else with a known range

Every operation is either exact (the returned form denotes exactly the value the concrete
operation would compute, for every valuation of the atoms within their ranges) or returns
an Opaque/Mod/Div atom that still denotes that value exactly but carries only a range.
Nothing is approximated silently.  `<<`, `>>`, `&`, `|`, `//`, `%` are decided through the
bit positions that the terms occupy: a term 2**p * atom with atom in [0, 2**w) occupies
bits [p, p+w).
"""
from __future__ import annotations

from typing import Dict, Iterable, List, Optional, Tuple, Union

Num = Optional[int]   # None = unbounded


def _add(a: Num, b: Num) -> Num:
    return None if a is None or b is None else a + b


def _mulc(c: int, lo: Num, hi: Num) -> Tuple[Num, Num]:
    if c == 0:
        return 0, 0
    if c > 0:
        return (None if lo is None else c * lo), (None if hi is None else c * hi)
    return (None if hi is None else c * hi), (None if lo is None else c * lo)


class Atom:
    __slots__ = ()
    key: tuple


    def rng(self) -> Tuple[Num, Num]:
        raise NotImplementedError

    def __deepcopy__(self, memo):      # immutable
        return self

    def __copy__(self):
        return self

    def __eq__(self, other):
        return isinstance(other, Atom) and self.key == other.key

    def __hash__(self):
        return hash(self.key)

    def __lt__(self, other):
        return repr(self.key) < repr(other.key)


class Sym(Atom):
    __slots__ = ("name", "lo", "hi", "key", "skey")

    def __init__(self, name: str, lo: Num = None, hi: Num = None):
        self.name, self.lo, self.hi = name, lo, hi
        self.key = ("sym", name, lo, hi)
        self.skey = repr(self.key)

    def rng(self):
        return self.lo, self.hi

    def width(self) -> Num:
        if self.lo is None or self.lo < 0 or self.hi is None:
            return None
        return self.hi.bit_length()

    def __repr__(self):
        return self.name


class Slice(Atom):
    """bits [a, b) of sym (b None = all bits from a upwards)"""
    __slots__ = ("sym", "a", "b", "key", "skey")

    def __init__(self, sym: Sym, a: int, b: Num):
        self.sym, self.a, self.b = sym, a, b
        self.key = ("slice", sym.key, a, b)
        self.skey = repr(self.key)

    def rng(self):
        if self.b is None:
            hi = self.sym.hi
            return 0, (None if hi is None else hi >> self.a)
        w = self.b - self.a
        hi = (1 << w) - 1
        if self.sym.hi is not None:
            hi = min(hi, self.sym.hi >> self.a)
        return 0, hi

    def __repr__(self):
        return f"{self.sym.name}[{self.a}:{'' if self.b is None else self.b}]"


class ModA(Atom):
    __slots__ = ("lin", "m", "key", "skey")

    def __init__(self, lin: "Lin", m: int):
        self.lin, self.m = lin, m
        self.key = ("mod", lin.key, m)
        self.skey = repr(self.key)

    def rng(self):
        return 0, self.m - 1

    def __repr__(self):
        return f"(({self.lin}) % {self.m})"


class DivA(Atom):
    __slots__ = ("lin", "m", "key", "skey")

    def __init__(self, lin: "Lin", m: int):
        self.lin, self.m = lin, m
        self.key = ("div", lin.key, m)
        self.skey = repr(self.key)

    def rng(self):
        lo, hi = self.lin.rng()
        return (None if lo is None else lo // self.m), (None if hi is None else hi // self.m)

    def __repr__(self):
        return f"(({self.lin}) // {self.m})"


class FltDivA(Atom):
    """floor(x / 2**k) with `/` the true division of two ints: the quotient is rounded to a double (53 significant bits) first"""
    __slots__ = ("lin", "k", "key", "skey")

    def __init__(self, lin: "Lin", k: int):
        self.lin, self.k = lin, k
        self.key = ("fltdiv", lin.key, k)
        self.skey = repr(self.key)

    def rng(self):
        lo, hi = self.lin.rng()
        return (None if lo is None else lo >> self.k), (None if hi is None else (hi >> self.k) + 1)

    def __repr__(self):
        return f"floor(float({self.lin}) / 2**{self.k})"


class Fn(Atom):
    __slots__ = ("name", "args", "lo", "hi", "key", "skey")

    def __init__(self, name: str, args: Tuple["Lin", ...], lo: Num, hi: Num):
        self.name, self.args, self.lo, self.hi = name, tuple(args), lo, hi
        self.key = ("fn", name, tuple(a.key for a in self.args), lo, hi)
        self.skey = repr(self.key)

    def rng(self):
        return self.lo, self.hi

    def __repr__(self):
        return f"{self.name}({', '.join(map(str, self.args))})"


class Opaque(Atom):
    __slots__ = ("tag", "lo", "hi", "key", "skey")

    def __init__(self, tag: str, lo: Num = None, hi: Num = None):
        self.tag, self.lo, self.hi = tag, lo, hi
        self.key = ("opq", tag, lo, hi)
        self.skey = repr(self.key)

    def rng(self):
        return self.lo, self.hi

    def __repr__(self):
        return f"<{self.tag}>"


class OrA(Opaque):
    """x | y whose bit fields may overlap: not a sum, but exactly evaluable at a point"""
    __slots__ = ("x", "y")

    def __init__(self, x: "Lin", y: "Lin", lo: Num = None, hi: Num = None):
        Opaque.__init__(self, f"({x}) | ({y})", lo, hi)
        self.x, self.y = x, y


class Lin:
    __slots__ = ("const", "terms", "_key")

    def __init__(self, const: int = 0, terms: Optional[Dict[Atom, int]] = None):
        self.const = const
        self._key = None
        if not terms:
            self.terms: Tuple[Tuple[Atom, int], ...] = ()
            return
        t = {a: c for a, c in terms.items() if c != 0}
        if len(t) > 1:
            for a in t:
                if type(a) is Slice:
                    t = _merge_slices(t)
                    break
            self.terms = tuple(sorted(t.items(), key=_term_sort_key))
        else:
            if t:
                (a, c), = t.items()
                if type(a) is Slice:
                    t = _merge_slices(t)
            self.terms = tuple(t.items())

    def __deepcopy__(self, memo):      # immutable (the cached key aside)
        return self

    def __copy__(self):
        return self

    @property
    def key(self):
        k = self._key
        if k is None:
            k = self._key = ("lin", self.const, tuple((a.key, c) for a, c in self.terms))
        return k

    # -- construction helpers -----------------------------------------------------
    @staticmethod
    def of(x: Union[int, "Lin", Atom]) -> "Lin":
        if isinstance(x, Lin):
            return x
        if isinstance(x, bool):
            return Lin(int(x))
        if isinstance(x, int):
            return Lin(x)
        if isinstance(x, Atom):
            return Lin(0, {x: 1})
        raise TypeError(x)

    def is_const(self) -> bool:
        return not self.terms

    def atoms(self) -> List[Atom]:
        return [a for a, _ in self.terms]

    def syms(self) -> List[Sym]:
        """all base symbols mentioned anywhere inside"""
        out: List[Sym] = []

        def rec(l: "Lin"):
            for a, _ in l.terms:
                if isinstance(a, Sym):
                    out.append(a)
                elif isinstance(a, Slice):
                    out.append(a.sym)
                elif isinstance(a, (ModA, DivA, FltDivA)):
                    rec(a.lin)
                elif isinstance(a, OrA):
                    rec(a.x)
                    rec(a.y)
                elif isinstance(a, Fn):
                    for x in a.args:
                        rec(x)
        rec(self)
        return out

    def has_opaque(self, evaluable_ok: bool = False) -> bool:
        """True if an Opaque atom occurs anywhere in the form (also inside %, //, function arguments).  With evaluable_ok an
        overlapping `x | y` (OrA) whose operands are modelled does not count: it is not a sum of fields, but a witness can evaluate it."""
        for a, _ in self.terms:
            if isinstance(a, OrA):
                if not evaluable_ok or a.x.has_opaque(True) or a.y.has_opaque(True):
                    return True
                continue
            if isinstance(a, Opaque):
                return True
            if isinstance(a, (ModA, DivA, FltDivA)) and a.lin.has_opaque(evaluable_ok):
                return True
            if isinstance(a, Fn) and any(x.has_opaque(evaluable_ok) for x in a.args):
                return True
        return False

    def has_residual(self) -> bool:
        """True if an Opaque/Mod/Div atom occurs (form is exact but not fully simplified)"""
        for a, _ in self.terms:
            if isinstance(a, (ModA, DivA, Opaque, FltDivA)):
                return True
        return False

    # -- ranges -------------------------------------------------------------------
    def rng(self) -> Tuple[Num, Num]:
        lo: Num = self.const
        hi: Num = self.const
        for a, c in self.terms:
            alo, ahi = a.rng()
            l, h = _mulc(c, alo, ahi)
            lo, hi = _add(lo, l), _add(hi, h)
        return lo, hi

    # -- arithmetic ---------------------------------------------------------------
    def __add__(self, o):
        if type(o) is int:
            if not o:
                return self
            r = Lin.__new__(Lin)
            r.const, r.terms, r._key = self.const + o, self.terms, None
            return r
        o = Lin.of(o)
        if not o.terms:
            if not o.const:
                return self
            r = Lin.__new__(Lin)
            r.const, r.terms, r._key = self.const + o.const, self.terms, None
            return r
        if not self.terms:
            r = Lin.__new__(Lin)
            r.const, r.terms, r._key = self.const + o.const, o.terms, None
            return r
        t = dict(self.terms)
        for a, c in o.terms:
            t[a] = t.get(a, 0) + c
        return Lin(self.const + o.const, t)

    __radd__ = __add__

    def __neg__(self):
        r = Lin.__new__(Lin)
        r.const, r.terms, r._key = -self.const, tuple((a, -c) for a, c in self.terms), None
        return r

    def __sub__(self, o):
        return self + (-Lin.of(o))

    def __rsub__(self, o):
        return Lin.of(o) - self

    def scale(self, k: int) -> "Lin":
        if k == 0:
            return Lin(0)
        r = Lin.__new__(Lin)
        r.const, r.terms, r._key = self.const * k, tuple((a, c * k) for a, c in self.terms), None
        return r

    def __eq__(self, o):
        if not isinstance(o, Lin):
            return False
        if self.const != o.const or len(self.terms) != len(o.terms):
            return False
        return self.key == o.key

    def __hash__(self):
        return hash(self.key)

    def __repr__(self):
        parts = []
        for a, c in self.terms:
            if c == 1:
                parts.append(f"{a!r}")
            elif c > 0 and c & (c - 1) == 0 and c > 4:
                parts.append(f"{a!r}<<{c.bit_length() - 1}")
            else:
                parts.append(f"{c}*{a!r}")
        if self.const or not parts:
            c = self.const
            if c > 1024 and c & (c - 1) == 0:
                parts.append(f"1<<{c.bit_length() - 1}")
            else:
                parts.append(str(c))
        return " + ".join(parts)


def _term_sort_key(ac):
    return ac[0].skey


def _merge_slices(t: Dict[Atom, int]) -> Dict[Atom, int]:
    """2**p*S[a:b] + 2**(p+b-a)*S[b:c]  ->  2**p*S[a:c];   S[0:width] -> S"""
    by_sym: Dict[tuple, List[Tuple[Slice, int]]] = {}
    for a, c in t.items():
        if isinstance(a, Slice):
            by_sym.setdefault(a.sym.key, []).append((a, c))
    if not by_sym:
        return t
    t = dict(t)
    # c*S[a:b] - c*S[a:k]  ->  c*2**(k-a)*S[k:b]   (clearing the low part of a field; a bare non-negative S counts as S[0:])
    for key, lst in list(by_sym.items()):
        sym = lst[0][0].sym
        again = True
        while again:
            again = False
            whole = [(sym, t[sym])] if (sym in t and sym.lo is not None and sym.lo >= 0) else []
            cur = [(a, c) for a, c in t.items() if isinstance(a, Slice) and a.sym.key == key]
            for big, cb in whole + cur:
                ba, bb = (0, None) if isinstance(big, Sym) else (big.a, big.b)
                for small, cs in cur:
                    if small is big or small.a != ba or small.b is None or cs != -cb:
                        continue
                    if bb is not None and small.b >= bb:
                        continue
                    rest = Slice(sym, small.b, bb)
                    del t[big]
                    del t[small]
                    t[rest] = t.get(rest, 0) + cb * (1 << (small.b - ba))
                    again = True
                    break
                if again:
                    break
        by_sym[key] = [(a, c) for a, c in t.items() if isinstance(a, Slice) and a.sym.key == key]
    for key, lst in by_sym.items():
        changed = True
        while changed:
            changed = False
            lst.sort(key=lambda ac: ac[0].a)
            for i in range(len(lst)):
                for j in range(len(lst)):
                    if i == j:
                        continue
                    (s1, c1), (s2, c2) = lst[i], lst[j]
                    if s1.b is not None and s1.b == s2.a and c2 == c1 * (1 << (s1.b - s1.a)):
                        merged = Slice(s1.sym, s1.a, s2.b)
                        del t[s1]
                        del t[s2]
                        lst = [x for k, x in enumerate(lst) if k not in (i, j)]
                        t[merged] = t.get(merged, 0) + c1
                        lst.append((merged, t[merged]))
                        changed = True
                        break
                if changed:
                    break
        for s, c in list(lst):
            sym = s.sym
            w = sym.width()
            if s.a == 0 and sym.lo is not None and sym.lo >= 0 and (s.b is None or (w is not None and s.b >= w)):
                if s in t:
                    cc = t.pop(s)
                    t[sym] = t.get(sym, 0) + cc
    return {a: c for a, c in t.items() if c != 0}


# ---------------------------------------------------------------------------------
# exact operations with constant right operands
# ---------------------------------------------------------------------------------

def is_pow2(n: int) -> bool:
    return n > 0 and n & (n - 1) == 0


def _bit_addressable(a: Atom) -> bool:
    if isinstance(a, Sym):
        return a.lo is not None and a.lo >= 0
    return isinstance(a, Slice)


def _split_atom(a: Atom, k: int) -> Tuple[Optional[Atom], Optional[Atom]]:
    """atom = low + 2**k * high   (k > 0) for bit-addressable atoms"""
    if isinstance(a, Sym):
        w = a.width()
        if w is not None and w <= k:
            return a, None
        return Slice(a, 0, k), Slice(a, k, w)
    if isinstance(a, Slice):
        if a.b is not None and a.b - a.a <= k:
            return a, None
        return Slice(a.sym, a.a, a.a + k), Slice(a.sym, a.a + k, a.b)
    raise TypeError(a)


def floordiv(x: Lin, m: int) -> Lin:
    """x // m  for constant m > 0"""
    assert m > 0
    if m == 1:
        return x
    if x.is_const():
        return Lin(x.const // m)
    q: Dict[Atom, int] = {}
    r: Dict[Atom, int] = {}
    for a, c in x.terms:
        if c % m == 0:
            q[a] = q.get(a, 0) + c // m
        elif is_pow2(m) and is_pow2(c) and c < m and _bit_addressable(a):
            lo_part, hi_part = _split_atom(a, (m // c).bit_length() - 1)
            if lo_part is not None:
                r[lo_part] = r.get(lo_part, 0) + c
            if hi_part is not None:
                q[hi_part] = q.get(hi_part, 0) + 1
        else:
            r[a] = r.get(a, 0) + c
    qc, rc = divmod(x.const, m)
    R = Lin(rc, r)
    lo, hi = R.rng()
    if lo is not None and hi is not None and lo // m == hi // m:
        return Lin(qc + lo // m, q)
    # no exact split: keep an exact residual atom
    Q = Lin(qc, q)
    return Q + Lin.of(DivA(R, m))


def mod(x: Lin, m: int) -> Lin:
    """x % m for constant m > 0"""
    assert m > 0
    if m == 1:
        return Lin(0)
    if x.is_const():
        return Lin(x.const % m)
    # inline inner residues whose modulus is a multiple of m
    t: Dict[Atom, int] = {}
    const = x.const
    for a, c in x.terms:
        if isinstance(a, ModA) and a.m % m == 0:
            const += c * a.lin.const
            for a2, c2 in a.lin.terms:
                t[a2] = t.get(a2, 0) + c * c2
        else:
            t[a] = t.get(a, 0) + c
    x2 = Lin(const, t)
    r: Dict[Atom, int] = {}
    for a, c in x2.terms:
        if c % m == 0:
            continue
        if is_pow2(m) and is_pow2(c) and c < m and _bit_addressable(a):
            lo_part, _ = _split_atom(a, (m // c).bit_length() - 1)
            if lo_part is not None:
                r[lo_part] = r.get(lo_part, 0) + c
        else:
            r[a] = r.get(a, 0) + (c % m)
    R = Lin(x2.const % m, r)
    lo, hi = R.rng()
    if lo is not None and hi is not None and lo // m == hi // m:
        return R - (lo // m) * m
    # try the un-reduced coefficients too (c % m may have made a small negative coefficient large)
    r2: Dict[Atom, int] = {}
    for a, c in x2.terms:
        if c % m == 0:
            continue
        r2[a] = r2.get(a, 0) + c
    R2 = Lin(x2.const, r2)
    lo, hi = R2.rng()
    if lo is not None and hi is not None and lo // m == hi // m:
        return R2 - (lo // m) * m
    return Lin.of(ModA(R, m))


def shl(x: Lin, k: int) -> Lin:
    if k < 0:
        raise ValueError("negative shift count")
    return x.scale(1 << k)


def shr(x: Lin, k: int) -> Lin:
    if k < 0:
        raise ValueError("negative shift count")
    return floordiv(x, 1 << k)


def mask_runs(mask: int) -> List[Tuple[int, int]]:
    """contiguous runs [lo, hi) of set bits"""
    runs = []
    i = 0
    while mask >> i:
        if (mask >> i) & 1:
            j = i
            while (mask >> j) & 1:
                j += 1
            runs.append((i, j))
            i = j
        else:
            i += 1
    return runs


def band(x: Lin, mask: int) -> Lin:
    """x & mask for constant mask >= 0 (x >= 0 or mask finite: Python semantics on two's complement
    agree with  floor-div/mod arithmetic for non-negative masks)"""
    assert mask >= 0
    out = Lin(0)
    for lo, hi in mask_runs(mask):
        part = mod(shr(x, lo), 1 << (hi - lo))
        out = out + shl(part, lo)
    return out


def occupancy(x: Lin) -> Optional[List[Tuple[int, Optional[int], str]]]:
    """Bit ranges [lo, hi) that x may set, when x is a sum of non-negative terms; None if that
    cannot be shown.  Terms are grouped by the power of two dividing their coefficient; groups
    whose extents overlap are merged into one field (so the result is a list of disjoint
    fields, each `value * 2**lo` with value in [0, 2**(hi-lo)); hi None = unbounded)."""
    if x.const < 0:
        return None
    groups: Dict[int, Tuple[Lin, List[str]]] = {}
    for a, c in x.terms:
        if c <= 0:
            return None
        alo, _ = a.rng()
        if alo is None or alo < 0:
            return None
        p = (c & -c).bit_length() - 1
        g = groups.get(p)
        l = Lin(0, {a: c >> p})
        groups[p] = (l, [repr(a)]) if g is None else (g[0] + l, g[1] + [repr(a)])
    for lo_b, hi_b in mask_runs(x.const):
        l = Lin((x.const >> lo_b) & ((1 << (hi_b - lo_b)) - 1))
        g = groups.get(lo_b)
        groups[lo_b] = (l, ["const"]) if g is None else (g[0] + l, g[1] + ["const"])
    fields: List[Tuple[int, Lin, List[str]]] = sorted(((p, l, d) for p, (l, d) in groups.items()), key=lambda f: f[0])
    out: List[Tuple[int, Optional[int], str]] = []
    i = 0
    while i < len(fields):
        p, l, d = fields[i]
        while True:
            _, h = l.rng()
            top = None if h is None else p + h.bit_length()
            if i + 1 < len(fields) and (top is None or top > fields[i + 1][0]):
                p2, l2, d2 = fields[i + 1]
                l = l + l2.scale(1 << (p2 - p))
                d = d + d2
                i += 1
                continue
            break
        out.append((p, top, "+".join(d)))
        i += 1
    return out


def bor(x: Lin, y: Lin) -> Tuple[Lin, Optional[str]]:
    """x | y.  Returns (value, problem).  If the bit fields of x and y are provably disjoint the
    value is x + y and problem is None.  Otherwise the value is an exact-but-opaque atom and
    problem says which bits may collide."""
    if x.is_const() and y.is_const():
        return Lin(x.const | y.const), None
    ox, oy = occupancy(x), occupancy(y)
    if ox is None or oy is None:
        lo1, hi1 = x.rng()
        lo2, hi2 = y.rng()
        hi = None if hi1 is None or hi2 is None else (1 << max(hi1.bit_length(), hi2.bit_length())) - 1
        return Lin.of(OrA(x, y, 0 if (lo1 is not None and lo1 >= 0 and lo2 is not None and lo2 >= 0) else None, hi)), \
            "operands are not sums of non-negative bit fields"
    for a_lo, a_hi, ad in ox:
        for b_lo, b_hi, bd in oy:
            ah = a_hi if a_hi is not None else 1 << 30
            bh = b_hi if b_hi is not None else 1 << 30
            if a_lo < bh and b_lo < ah:
                lo1, hi1 = x.rng()
                lo2, hi2 = y.rng()
                hi = None if hi1 is None or hi2 is None else (1 << max(hi1.bit_length(), hi2.bit_length())) - 1
                return Lin.of(OrA(x, y, 0, hi)), \
                    f"bits [{max(a_lo, b_lo)}, {min(ah, bh)}) of field {ad} and of field {bd} overlap"
    return x + y, None


def _gcd(a: int, b: int) -> int:
    while b:
        a, b = b, a % b
    return a


def compare(x: Lin, op: str, y: Lin) -> Optional[bool]:
    """Decides x op y from the forms and ranges; None = not decided."""
    if not x.terms and not y.terms:
        a, b = x.const, y.const
        return {"==": a == b, "!=": a != b, "<": a < b, "<=": a <= b, ">": a > b, ">=": a >= b}[op]
    d = x - y
    lo, hi = d.rng()
    if op == "==":
        if d.is_const():
            return d.const == 0
        if (lo is not None and lo > 0) or (hi is not None and hi < 0):
            return False
        # congruence: all coefficients share a factor that does not divide the constant
        g = 0
        for _, c in d.terms:
            g = _gcd(g, abs(c))
        if g > 1 and d.const % g != 0:
            return False
        return None
    if op == "!=":
        r = compare(x, "==", y)
        return None if r is None else not r
    if op == "<":
        if hi is not None and hi < 0:
            return True
        if lo is not None and lo >= 0:
            return False
        return None
    if op == "<=":
        if hi is not None and hi <= 0:
            return True
        if lo is not None and lo > 0:
            return False
        return None
    if op == ">":
        return compare(y, "<", x)
    if op == ">=":
        return compare(y, "<=", x)
    raise ValueError(op)
