"""C06 -- parent/children form a consistent tree over ids.

One interpreter run per resolution pair (trace partitioning on the two resolutions only); the
parent cell is the GENERIC valid cell of its resolution (face, segment, S symbolic), the children
list is a family  elem(binders)  obtained by summarising the three nested loops."""
from __future__ import annotations

import os
from typing import Any, Dict, List, Optional, Tuple

from . import core, codec
from .absint import (Budget, CellV, ExcV, Interp, ListV, NONE, OriginV, Seg, Unknown, _Unmodelled, opaque_path)
from .codec import (INFO, SER, Consts, OriginModel, describe_path, same_or_refuted, sym_in, valid_id, valid_id_from_guard)
from .lin import Lin, Sym, compare

Q = "a5.core.serialization"


def _exc(e) -> str:
    if isinstance(e, ExcV):
        return e.text if e.text and not e.text.startswith(e.kind) else e.kind
    return repr(e)


class Raises:
    def __init__(self, text: str):
        self.text = text

    def __repr__(self):
        return f"raises {self.text}"


def const_call(interp: Interp, rel: str, fn: str, args: List[int]):
    """value of a pure integer function on constant arguments: int | Raises | None (not determined)"""
    interp.current_request = f"{fn}({', '.join(map(str, args))})"
    outs = interp.run_function(rel, fn, [Lin(a) for a in args])
    if len(outs) == 1 and outs[0].kind == "return" and isinstance(outs[0].value, Lin) and outs[0].value.is_const():
        return outs[0].value.const
    if len(outs) == 1 and outs[0].kind == "raise" and not outs[0].state.path:
        return Raises(_exc(outs[0].value))
    return None


def _opaque_path(o) -> bool:
    """the outcome lies on a path whose condition involves a value the interpreter could not model (or went through a call it did not follow)"""
    from .absint import opaque_path
    return opaque_path(o.state)


def children_family(interp: Interp, c: Lin, b: Any):
    """-> (ListV | None, raises, other) for cell_to_children(c, b)"""
    outs = interp.run_function(SER, "cell_to_children", [c, b])
    rets = [o for o in outs if o.kind == "return"]
    raises = [o for o in outs if o.kind == "raise"]
    return rets, raises


def decode_defects(interp: Interp, e: Lin, n_faces: int) -> List[str]:
    """Definite reasons why the id form `e` (an element of an enumeration, loop variables symbolic) is not the id of a cell:
    `deserialize(e)` raises on a decided path, or indexes the face table outside 0..n-1 for a value of the loop variables that is
    exhibited.  An empty list says nothing (the decode may be outside what the interpreter follows)."""
    from .compact_model import find_valuation
    out: List[str] = []
    try:
        douts = interp.run_function(SER, "deserialize", [e])
    except (Budget, _Unmodelled):
        return out
    for o in douts:
        if _opaque_path(o):
            continue
        if o.kind == "raise" and not o.state.path:
            out.append(f"deserialize raises {_exc(o.value)} for it")
        for kind, payload in o.state.effects:
            if kind != "table-index-range":
                continue
            _name, idx, _rng, _node = payload
            if not isinstance(idx, Lin) or idx.has_opaque():
                continue
            conds = [(cnd, t) for cnd, t, _ in o.state.path]
            forms = [idx] + [x for cnd, t in conds for x in (cnd.left, cnd.right)]

            def pred(vals, conds=conds):
                for i, (cnd, t) in enumerate(conds):
                    l, r = vals[1 + 2 * i], vals[2 + 2 * i]
                    if {"==": l == r, "!=": l != r, "<": l < r, "<=": l <= r, ">": l > r, ">=": l >= r}[cnd.op] != t:
                        return False
                return not (0 <= vals[0] < n_faces)
            try:
                w_ = find_valuation(forms, pred)
            except Exception:
                w_ = None
            if w_ is not None:
                vals, point = w_
                out.append(f"its face index {idx} is {vals[0]} at {point}: outside the face table 0..{n_faces - 1}")
    return out


class Setup:
    def __init__(self, ctx):
        self.ctx = ctx
        self.om = OriginModel(ctx.sources)
        self.interp = Interp(ctx.sources, self.om.length or 12, self.om.fq_range())
        self.interp.unroll_ranges = 1
        self.consts = Consts(self.interp)
        codec.TABLES.clear()
        if self.om.fq_table:
            codec.TABLES["first_quintant"] = self.om.fq_table
        self.n = self.om.length or 12
        self.ids: Dict[int, Optional[Lin]] = {}
        for r in range(0, self.consts.MAX + 1):
            try:
                self.ids[r] = valid_id_from_guard(self.interp, r, self.n, self.consts)
                if self.ids[r] is None:
                    # the fit check has left the modelled form: use the positions the hierarchy says exist
                    self.ids[r] = valid_id(self.interp, r, self.n, self.consts)
            except (Budget, _Unmodelled):
                self.ids[r] = None
        self.ids[-1] = Lin(self.consts.WORLD)
        self.raising: Dict[Tuple[int, str], list] = {}

    def s_coeff(self, r: int) -> Optional[int]:
        v = self.ids.get(r)
        if v is None:
            return None
        for a, c in v.terms:
            if isinstance(a, Sym) and a.name == "S":
                return c
        return None


def check_pair(ctx, su: Setup, a: int, b: int):
    """children of the generic resolution-a cell at resolution b"""
    interp, consts = su.interp, su.consts
    c = su.ids[a]
    fnode = ctx.sources.func(SER, "cell_to_children")
    where = core.loc(SER, fnode)
    tag = f"{Q}.cell_to_children(res {a} -> {b})"
    rets, raises = children_family(interp, c, Lin(b))
    for o in raises:
        if opaque_path(o.state):
            ctx.unk("C06.0", f"{tag}: may raise {_exc(o.value)}", core.loc(SER, o.node), f"on a path whose condition is not decided: [{describe_path(o.state)[:200]}]")
            continue
        su.raising.setdefault((b, _exc(o.value)), []).append((a, core.loc(SER, o.node), describe_path(o.state)))
    if len(rets) != 1 or not isinstance(rets[0].value, ListV) or rets[0].value.unknown:
        if rets:
            ctx.unk("C06.2", f"{tag}: list not determined", where,
                    f"{len(rets)} return paths; {rets[0].value!r}"[:300])
        return
    lst: ListV = rets[0].value
    if rets[0].state.path:
        ctx.unk("C06.2", f"{tag}: result depends on an undecided condition", where, describe_path(rets[0].state))
        return
    # the statement's own rule: 12 faces, then 5 segments, then 4 per level
    expect = 1
    for lvl in range(a, b):
        expect *= su.n if lvl == -1 else (5 if lvl == 0 else 4)
    total = lst.length()
    if total is None:
        ctx.unk("C06.3", f"{tag}: number of children", where, "the length of the returned list is not determined")
    elif total == expect:
        ctx.ok("C06.3", f"{tag}: {total} children (12, 5, then 4 per level)", where,
               f"loop trip counts {[[cnt for _, cnt in s.binders] for s in lst.segs]}")
    else:
        ctx.bad("C06.3", f"{tag}: lists {total} children, the hierarchy has {expect} (12, 5, then 4 per level)", where,
                f"loop trip counts {[[cnt for _, cnt in s.binders] for s in lst.segs]}")
    if a == b:
        ok = len(lst.segs) == 1 and not lst.segs[0].binders and lst.segs[0].elem == c
        ctx.ob("C06.2", f"{tag}: returns the cell itself", core.DISCHARGED if ok else core.VIOLATED, where,
               f"returned {[str(s.elem) for s in lst.segs][:3]}")
        return
    decoded: List[Tuple[Seg, Optional[CellV]]] = []
    for si, seg in enumerate(lst.segs):
        e = seg.elem
        if not isinstance(e, Lin):
            ctx.unk("C06.2", f"{tag}: child form", where, f"element not an integer form: {e!r}")
            continue
        # resolution of every child
        outs = interp.run_function(SER, "get_resolution", [e])
        if len(outs) == 1 and outs[0].kind == "return" and outs[0].value == Lin(b) and not outs[0].state.path:
            ctx.ok("C06.1", f"{tag}: children have resolution {b}", where, f"child form {e}")
        else:
            st = core.VIOLATED if all(o.kind == "return" and isinstance(o.value, Lin) and o.value.is_const() and not _opaque_path(o)
                                      for o in outs) else core.UNDECIDED
            ctx.ob("C06.1", f"{tag}: children have resolution {[str(o.value) for o in outs]}", st, where, f"child form {e}")
        # parent of every child is the cell we started from
        pouts = interp.run_function(SER, "cell_to_parent", [e, Lin(a)])
        if len(pouts) == 1 and pouts[0].kind == "return":
            st, text = same_or_refuted(pouts[0].value, c, ctx.seed)
            ctx.ob("C06.1", f"{tag}: cell_to_parent(child, {a}) is the parent", st, core.loc(SER, pouts[0].node), text)
        else:
            bad = [o for o in pouts if o.kind == "raise" and not _opaque_path(o)]
            wit = None
            if not bad:
                # several return paths: a child that satisfies the condition of one path and gets another cell than the parent
                from .compact_model import find_valuation
                for o in pouts:
                    if o.kind != "return" or not isinstance(o.value, Lin) or _opaque_path(o) or o.value.has_opaque():
                        continue
                    conds = [(cnd, t) for cnd, t, _ in o.state.path]
                    forms = [o.value, c] + [x for cnd, t in conds for x in (cnd.left, cnd.right)]

                    def pred(vals, conds=conds):
                        for i, (cnd, t) in enumerate(conds):
                            l, r = vals[2 + 2 * i], vals[3 + 2 * i]
                            if {"==": l == r, "!=": l != r, "<": l < r, "<=": l <= r, ">": l > r, ">=": l >= r}[cnd.op] != t:
                                return False
                        return vals[0] != vals[1]
                    w_ = find_valuation(forms, pred)
                    if w_ is not None:
                        wit = (o, w_)
                        break
            if wit is not None:
                o, (vals, point) = wit
                ctx.bad("C06.1", f"{tag}: cell_to_parent(child, {a}) is the parent", core.loc(SER, o.node),
                        f"on the path [{describe_path(o.state)}] it returns {o.value}, which is {vals[0]:#x} at {point}; the parent is {vals[1]:#x}")
            else:
                ctx.ob("C06.1", f"{tag}: cell_to_parent(child, {a}) has {len(pouts)} outcomes", core.VIOLATED if bad else core.UNDECIDED,
                       where, "; ".join(f"{o.kind} {_exc(o.value) if o.kind == 'raise' else o.value} on [{describe_path(o.state)}]" for o in pouts[:3]))
        for why in decode_defects(interp, e, su.n):
            ctx.bad("C06.1", f"{tag}: a listed child is not the id of a cell", where, f"child form {e}: {why}")
        # decode for the distinctness argument
        douts = interp.run_function(SER, "deserialize", [e])
        cell = douts[0].value if len(douts) == 1 and douts[0].kind == "return" and isinstance(douts[0].value, CellV) else None
        decoded.append((seg, cell))
    # C06.2 no repetition: the binders are recoverable from the decoded child
    for si, (seg, cell) in enumerate(decoded):
        if cell is None:
            ctx.unk("C06.2", f"{tag}: children pairwise distinct", where, "child does not decode to a single cell form")
            continue
        fields = []
        for k in ("origin", "segment", "S"):
            v = cell.fields.get(k)
            if isinstance(v, OriginV):
                v = v.idx
            if isinstance(v, Lin):
                fields.append((k, v))
        missing = []
        for bsym, cnt in seg.binders:
            if cnt <= 1:
                continue
            found = False
            for k, v in fields:
                coeffs = {repr(at): cf for at, cf in v.terms}
                others = [b2 for b2, c2 in seg.binders if b2 is not bsym and c2 > 1 and any(s.name == b2.name for s in v.syms())]
                if coeffs.get(bsym.name) in (1, -1) and not others and \
                        not any(s.name == bsym.name for at, cf in v.terms if repr(at) != bsym.name for s in Lin.of(at).syms()):
                    found = True
                    break
            if not found:
                missing.append(bsym.name)
        if missing:
            # try to refute: two binder values giving the same element
            e = seg.elem
            rep = None
            for bsym, cnt in seg.binders:
                if bsym.name in missing and isinstance(e, Lin) and not any(s.name == bsym.name for s in e.syms()):
                    rep = bsym
            if rep is not None:
                ctx.bad("C06.2", f"{tag}: the same child is listed {dict(seg.binders)[rep]} times", where,
                        f"loop variable {rep.name} (trip count {dict(seg.binders)[rep]}) does not enter the child id {e}")
            elif isinstance(e, Lin) and codec.collision_witness(e, seg.binders, hints=[v for _, v in fields]) is not None:
                p1, p2, val = codec.collision_witness(e, seg.binders, hints=[v for _, v in fields])
                ctx.bad("C06.2", f"{tag}: the same child is listed twice", where,
                        f"child id {e} evaluates to {val:#x} both at {p1} and at {p2}")
            else:
                ctx.unk("C06.2", f"{tag}: children pairwise distinct", where,
                        f"loop variables {missing} are not recoverable from the decoded child (fields {[(k, str(v)) for k, v in fields]})")
        else:
            ctx.ok("C06.2", f"{tag}: children pairwise distinct", where,
                   f"each loop variable is recovered from the decoded child: {[(k, str(v)) for k, v in fields]}")
    if len(decoded) > 1:
        # several families: must differ in a decoded field by construction
        for i in range(len(decoded)):
            for j in range(i + 1, len(decoded)):
                ci, cj = decoded[i][1], decoded[j][1]
                differ = False
                same = ci is not None and cj is not None
                if ci is not None and cj is not None:
                    for k in ("origin", "segment", "S"):
                        vi, vj = ci.fields.get(k), cj.fields.get(k)
                        vi = vi.idx if isinstance(vi, OriginV) else vi
                        vj = vj.idx if isinstance(vj, OriginV) else vj
                        if isinstance(vi, Lin) and isinstance(vj, Lin):
                            if compare(vi, "!=", vj) is True:
                                differ = True
                            if vi != vj:
                                same = False
                if same and decoded[i][0].elem == decoded[j][0].elem:
                    ctx.bad("C06.2", f"{tag}: two loop iterations list the same children", where, f"families {i} and {j}: {decoded[i][0].elem}")
                elif not differ:
                    ctx.unk("C06.2", f"{tag}: families {i},{j} disjoint", where, "not decided")
    # C06.6 contiguity for a >= 1
    if a >= 1 and len(lst.segs) == 1 and isinstance(lst.segs[0].elem, Lin):
        seg = lst.segs[0]
        live = [(bs, cnt) for bs, cnt in seg.binders if cnt > 1]
        e: Lin = seg.elem
        stride = su.s_coeff(b)
        if len(live) == 1 and stride is not None:
            bs, cnt = live[0]
            coef = dict((repr(at), cf) for at, cf in e.terms).get(bs.name)
            if coef == stride:
                ctx.ok("C06.6", f"{tag}: children are {cnt} consecutive level-{b} ids in ascending order", where,
                       f"child = first + {stride}*{bs.name}, {bs.name} ascending over [0, {cnt - 1}]; level-{b} ids of one segment differ by multiples of {stride}")
            else:
                ctx.bad("C06.6", f"{tag}: children are not a contiguous ascending run", where,
                        f"child form {e}: step per loop iteration is {coef}, level-{b} ids are spaced by {stride}")
        elif len(live) > 1 and stride is not None:
            # several nested loops (one per level, say): the list is one ascending contiguous run iff the loops are nested from the most
            # significant digit to the least: step(innermost) == stride and step(j) == step(j+1) * count(j+1)
            coefs = dict((repr(at), cf) for at, cf in e.terms)
            steps = [coefs.get(bs.name) for bs, _ in live]
            linear = all(st_ is not None for st_ in steps) and not any(
                s_.name == bs.name for at, cf in e.terms if repr(at) not in {b2.name for b2, _ in live} for s_ in Lin.of(at).syms() for bs, _ in live)
            if not linear:
                ctx.unk("C06.6", f"{tag}: descendants come from {len(live)} nested loops", where,
                        f"the child id is not linear in the loop variables {[(b2.name, c2) for b2, c2 in live]}: order not decided")
            else:
                want_steps = []
                acc = stride
                for (_, cnt) in reversed(live):
                    want_steps.append(acc)
                    acc *= cnt
                want_steps.reverse()
                if steps == want_steps:
                    ctx.ok("C06.6", f"{tag}: children are {acc // stride} consecutive level-{b} ids in ascending order", where,
                           f"{len(live)} nested loops, steps {steps} = stride {stride} times the sizes of the inner loops: lexicographic order is numeric order")
                else:
                    ctx.bad("C06.6", f"{tag}: children are not a contiguous ascending run", where,
                            f"child form {e}: the nested loops {[(b2.name, c2) for b2, c2 in live]} (outermost first) step by {steps}; "
                            f"an ascending run of level-{b} ids needs {want_steps}")


def check_parent(ctx, su: Setup, r: int):
    """cell_to_parent on the generic resolution-r cell: composition, guards, defaults"""
    interp, consts = su.interp, su.consts
    x = su.ids[r]
    fnode = ctx.sources.func(SER, "cell_to_parent")
    where = core.loc(SER, fnode)
    par: Dict[int, Lin] = {}
    for a in range(-1, r + 1):
        outs = interp.run_function(SER, "cell_to_parent", [x, Lin(a)])
        if len(outs) == 1 and outs[0].kind == "return" and isinstance(outs[0].value, Lin):
            par[a] = outs[0].value
        else:
            bad = [o for o in outs if o.kind == "raise" and not _opaque_path(o)]
            ctx.ob("C06.4", f"{Q}.cell_to_parent(res {r} -> {a}): {len(outs)} outcomes", core.VIOLATED if bad else core.UNDECIDED, where,
                   "; ".join(f"{o.kind} {_exc(o.value) if o.kind == 'raise' else o.value} on [{describe_path(o.state)}]" for o in outs[:3]))
    if -1 in par:
        ctx.ob("C06.4", f"{Q}.cell_to_parent(res {r} -> -1) is WORLD_CELL", core.DISCHARGED if par[-1] == Lin(consts.WORLD) else core.VIOLATED,
               where, f"returned {par[-1]}")
    if r in par:
        st, text = same_or_refuted(par[r], x, ctx.seed)
        ctx.ob("C06.4", f"{Q}.cell_to_parent(res {r} -> {r}) is the cell itself", st, where, text)
    # the parent at level a is a valid level-a id of the same face/segment whose S is a prefix of x's S
    for a in range(0, r):
        if a not in par or su.ids.get(a) is None:
            continue
        outs = interp.run_function(SER, "deserialize", [par[a]])
        if len(outs) == 1 and outs[0].kind == "return" and isinstance(outs[0].value, CellV):
            pc = outs[0].value
            res_ok = pc.fields.get("resolution") == Lin(a)
            o_ok = isinstance(pc.fields.get("origin"), OriginV) and sym_in(x, "o") is not None and pc.fields["origin"].idx == Lin.of(sym_in(x, "o"))
            seg_ok = a < 1 or (sym_in(x, "seg") is not None and pc.fields.get("segment") == Lin.of(sym_in(x, "seg")))
            st = core.DISCHARGED if (res_ok and o_ok and seg_ok) else core.VIOLATED
            ctx.ob("C06.4", f"{Q}.cell_to_parent(res {r} -> {a}) keeps face and segment, has resolution {a}", st, where,
                   f"decoded parent: origin {pc.fields.get('origin')}, segment {pc.fields.get('segment')}, S {pc.fields.get('S')}, resolution {pc.fields.get('resolution')}")
    # composition through every intermediate level
    for m in range(0, r + 1):
        if m not in par:
            continue
        for a in range(-1, m + 1):
            if a not in par:
                continue
            outs = interp.run_function(SER, "cell_to_parent", [par[m], Lin(a)])
            if len(outs) == 1 and outs[0].kind == "return":
                st, text = same_or_refuted(outs[0].value, par[a], ctx.seed)
                if st != core.DISCHARGED or (m in (r, a)) or True:
                    ctx.ob("C06.7", f"{Q}.cell_to_parent composes: res {r} -> {m} -> {a}", st, where, text)
            else:
                ctx.unk("C06.7", f"{Q}.cell_to_parent composes: res {r} -> {m} -> {a}", where, f"{len(outs)} outcomes")
    # default argument = one level up
    if r >= 0:
        outs = interp.run_function(SER, "cell_to_parent", [x])
        if len(outs) == 1 and outs[0].kind == "return" and (r - 1) in par:
            st, text = same_or_refuted(outs[0].value, par[r - 1], ctx.seed)
            ctx.ob("C06.4", f"{Q}.cell_to_parent(res {r}) default is the level-{r - 1} parent", st, where, text)
    # guards: finer than the cell, or below -1
    for name, sym in (("finer than the cell", Sym("a", r + 1, None)), ("below -1", Sym("a", None, -2))):
        outs = interp.run_function(SER, "cell_to_parent", [x, Lin.of(sym)])
        rets = [o for o in outs if o.kind == "return"]
        if rets and any(_opaque_path(o) for o in rets):
            # the guard is not followed for a generic target: try the nearest concrete ones (a return there is a witness)
            probes = [r + 1, r + 2, consts.MAX] if name.startswith("finer") else [-2, -3]
            hit = None
            for a_ in probes:
                if name.startswith("finer") and not (r < a_ <= consts.MAX):
                    continue
                try:
                    pouts = interp.run_function(SER, "cell_to_parent", [x, Lin(a_)])
                except (Budget, _Unmodelled):
                    continue
                prets = [o for o in pouts if o.kind == "return" and not o.state.path and not _opaque_path(o) and not isinstance(o.value, Unknown)]
                if prets and len(prets) == len(pouts):
                    hit = (a_, prets[0])
                    break
            if hit is not None:
                ctx.bad("C06.5", f"{Q}.cell_to_parent(res {r}, target {name}) returns a cell", core.loc(SER, hit[1].node),
                        f"cell_to_parent(cell of resolution {r}, {hit[0]}) returns {hit[1].value} instead of raising")
            else:
                ctx.unk("C06.5", f"{Q}.cell_to_parent(res {r}, target {name})", core.loc(SER, rets[0].node), "a return on a path whose condition is not decided")
        elif rets:
            ctx.bad("C06.5", f"{Q}.cell_to_parent(res {r}, target {name}) returns a cell", core.loc(SER, rets[0].node),
                    f"path [{describe_path(rets[0].state)}] returns {rets[0].value} instead of raising")
        elif outs:
            ctx.ok("C06.5", f"{Q}.cell_to_parent(res {r}, target {name}) raises", core.loc(SER, outs[0].node), "every path raises")


def check_children_guards(ctx, su: Setup, a: int):
    interp, consts = su.interp, su.consts
    c = su.ids[a]
    for name, sym in (("coarser than the cell", Sym("b", None, a - 1)), ("above MAX_RESOLUTION", Sym("b", consts.MAX + 1, None))):
        rets, raises = children_family(interp, c, Lin.of(sym))
        if rets and any(_opaque_path(o) for o in rets):
            probes = [a - 1, a - 2, -1] if name.startswith("coarser") else [consts.MAX + 1, consts.MAX + 2]
            hit = None
            for b_ in probes:
                if name.startswith("coarser") and not (-2 <= b_ < a):
                    continue
                try:
                    prets_, praises_ = children_family(interp, c, Lin(b_))
                except (Budget, _Unmodelled):
                    continue
                if prets_ and not praises_ and all(not o.state.path and not _opaque_path(o) and not isinstance(o.value, Unknown) for o in prets_):
                    hit = (b_, prets_[0])
                    break
            if hit is not None:
                ctx.bad("C06.5", f"{Q}.cell_to_children(res {a}, target {name}) returns cells", core.loc(SER, hit[1].node),
                        f"cell_to_children(cell of resolution {a}, {hit[0]}) returns a list instead of raising")
            else:
                ctx.unk("C06.5", f"{Q}.cell_to_children(res {a}, target {name})", core.loc(SER, rets[0].node), "a return on a path whose condition is not decided")
        elif rets:
            ctx.bad("C06.5", f"{Q}.cell_to_children(res {a}, target {name}) returns cells", core.loc(SER, rets[0].node),
                    f"path [{describe_path(rets[0].state)}] returns instead of raising")
        elif raises:
            ctx.ok("C06.5", f"{Q}.cell_to_children(res {a}, target {name}) raises", core.loc(SER, raises[0].node), "every path raises")
    if a < consts.MAX:
        r1, _ = children_family(interp, c, NONE)
        r2, _ = children_family(interp, c, Lin(a + 1))
        if len(r1) == 1 and len(r2) == 1 and isinstance(r1[0].value, ListV) and isinstance(r2[0].value, ListV):
            same = r1[0].value.length() == r2[0].value.length()
            known_ = r1[0].value.length() is not None and r2[0].value.length() is not None
            ctx.ob("C06.3", f"{Q}.cell_to_children(res {a}) default is one level down", core.UNDECIDED if not known_ else (core.DISCHARGED if same else core.VIOLATED),
                   core.loc(SER, r1[0].node), f"{r1[0].value.length()} vs {r2[0].value.length()} children")


def run(ctx):
    ctx.explanation = (
        "Abstract interpretation of cell_to_children / cell_to_parent / get_res0_cells on the generic valid cell of every "
        "resolution, one run per resolution pair (a, b) with -1 <= a <= b <= MAX_RESOLUTION; the three nested loops of "
        "cell_to_children are summarised into a family child(origin, segment, i). Per pair: count == get_num_children (C06.3), "
        "every child has resolution b and cell_to_parent(child, a) is exactly the parent form (C06.1), loop variables are "
        "recoverable from the decoded child, hence no repetition (C06.2), for a >= 1 the children are consecutive level-b ids "
        "(C06.6); per resolution: parent keeps face/segment, composes through every intermediate level (C06.4, C06.7), and "
        "out-of-order requests raise on every path (C06.5).")
    ctx.trusted_base = ["sa/lin.py transfer functions", "C05 (ids of valid cells are decoded faithfully) for the reading of decoded children"]
    ctx.assumptions = ["the argument is a valid cell id (an id serialize produces)"]
    su = Setup(ctx)
    su.om.report(ctx, rules=("C05.1",))
    consts = su.consts
    for fn in ("cell_to_children", "cell_to_parent", "get_res0_cells", "deserialize", "serialize"):
        ctx.sources.func(SER, fn)
    tasks = [("pairs", a) for a in range(-1, consts.MAX + 1)] + [("parent", r) for r in range(0, consts.MAX + 1)] + [("res0", 0)]
    # heavy resolutions first so that the pool stays busy
    tasks.sort(key=lambda t: (t[0] != "parent", -t[1] if t[0] == "parent" else t[1]))

    def work(task):
        kind, k = task
        rec = core.Recorder(ctx)
        su.raising = {}
        npairs = 0
        try:
            if kind == "pairs":
                a = k
                if su.ids.get(a) is None:
                    rec.unk("C06.0", f"{Q}: no id form for valid cells of resolution {a}", SER,
                            "serialize does not produce a single id form (see C05); pairs starting at this resolution are skipped")
                else:
                    for b in range(a, consts.MAX + 1):
                        check_pair(rec, su, a, b)
                        npairs += 1
                    check_children_guards(rec, su, a)
            elif kind == "parent":
                if su.ids.get(k) is not None:
                    check_parent(rec, su, k)
            else:
                outs = su.interp.run_function(SER, "get_res0_cells", [])
                if len(outs) == 1 and outs[0].kind == "return" and isinstance(outs[0].value, ListV):
                    n = outs[0].value.length()
                    rec.ob("C06.3", f"{Q}.get_res0_cells lists {n} cells" if n is not None else f"{Q}.get_res0_cells: number of cells",
                           core.UNDECIDED if n is None or outs[0].state.path else (core.DISCHARGED if n == su.n else core.VIOLATED),
                           core.loc(SER, outs[0].node), f"expected one per face ({su.n})" + ("" if n is not None else "; the length of the returned list is not determined"))
        except (Budget, _Unmodelled) as e:
            rec.unk("C06.0", f"{Q}: interpretation stopped in task {task}", SER, f"{type(e).__name__}: {e}")
        return rec.obligations, su.raising, npairs, su.interp.total_steps + su.interp.steps

    pairs = 0
    steps = 0
    raising: Dict[Tuple[int, str], list] = {}
    results = core.parallel_map(work, tasks)
    order = sorted(range(len(tasks)), key=lambda i: (tasks[i][0], tasks[i][1]))
    for i in order:
        obs, rz, npairs, st = results[i]
        ctx.obligations.extend(obs)
        pairs += npairs
        steps += st
        for key, lst in rz.items():
            raising.setdefault(key, []).extend(lst)
    for (b, exc), lst in sorted(raising.items()):
        lst.sort()
        ctx.bad("C06.0", f"{Q}.cell_to_children to resolution {b}: raises {exc} for a valid request", lst[0][1],
                f"target resolution {b} <= MAX_RESOLUTION, parent resolutions {[x[0] for x in lst]}; first path [{lst[0][2]}]")
    ctx.floor("resolution pairs analysed", pairs, 1, soft=True)
    ctx.analysed.update({"resolution_pairs": pairs, "interpreter_steps": steps,
                         "functions": [f"{Q}.cell_to_children", f"{Q}.cell_to_parent", f"{Q}.get_res0_cells", f"{Q}.deserialize",
                                       f"{Q}.serialize", f"{Q}.get_resolution", "a5.core.cell_info.get_num_children"]})
