"""Self-validation battery: runs a property's check on scratch-copy variants of the CURRENT tree (sa/variants.json) and
records whether breaking variants are reported (and name a construct) and behaviour-preserving ones stay silent.

Used by the thorough tier (results go to the evidence file and to stderr, never to the exit code, which reflects the tree
under test only) and by hand:   /venv/bin/python sa/selftest.py [C05 C06 ...]"""
from __future__ import annotations

import json
import os
import sys
from concurrent.futures import ThreadPoolExecutor
from typing import Dict, List, Tuple

HERE = os.path.dirname(os.path.abspath(__file__))
sys.path.insert(0, os.path.dirname(HERE))

from sa.mutate import EditError, run_patch, run_variant  # noqa: E402


def load() -> Dict[str, dict]:
    with open(os.path.join(HERE, "variants.json")) as fh:
        data = json.load(fh)
    # changes written by independent sub-agents (see /verif/seeded/*/meta.json): each one is a breaking variant for the claimed
    # properties it really breaks and a behaviour-preserving variant for all the others ("either" = the property is broken only
    # as a consequence of a function another property's check is responsible for, or only under threads: a report is accepted,
    # silence is too)
    seeded = os.path.join(os.path.dirname(HERE), "seeded")
    if os.path.isdir(seeded):
        for name in sorted(os.listdir(seeded)):
            mp = os.path.join(seeded, name, "meta.json")
            if not os.path.isfile(mp):
                continue
            with open(mp) as fh:
                meta = json.load(fh)
            for prop in data:
                data[prop][f"seeded:{name}"] = {"patch": os.path.join(seeded, name, "patch.diff"),
                                                "expect": "fire" if prop in meta.get("breaks_claimed_properties", []) else
                                                ("either" if prop in meta.get("may_break_claimed_properties", []) else "silent")}
    return data


def run_one(prop: str, name: str, spec: dict) -> Tuple[str, str, str, str]:
    try:
        if "patch" in spec:
            code, out = run_patch(prop, spec["patch"])
        else:
            code, out = run_variant(prop, [tuple(e) for e in spec["edits"]])
    except EditError as e:
        return name, spec["expect"], "skipped", str(e)[:120]
    except Exception as e:   # pragma: no cover
        return name, spec["expect"], "error", repr(e)[:120]
    rule = ""
    for l in out.splitlines():
        if l.startswith("  rule="):
            rule = l.strip()[:160]
            break
    if code == 1:
        return name, spec["expect"], "fired", rule
    if code == 0:
        und = sum(1 for l in out.splitlines() if l.startswith("UNDECIDED"))
        return name, spec["expect"], "undecided" if und else "silent", f"{und} undecided"
    return name, spec["expect"], "analysis-error", out.strip().splitlines()[0][:160] if out.strip() else ""


def battery(prop: str, jobs: int = 8, scope: str = "full") -> dict:
    """scope 'full': every variant and every seeded change; 'thorough': the hand-written variants of the property, every
    seeded change that was written for it or breaks it, and every sixth one of the remaining seeded changes (as silent
    variants) -- the thorough tier of a check stays within a few minutes, `python sa/selftest.py` runs everything"""
    specs = load().get(prop, {})
    if scope == "thorough":
        seeded_dir = os.path.join(os.path.dirname(HERE), "seeded")
        keep = {}
        others = []
        for name, spec in specs.items():
            if not name.startswith("seeded:"):
                keep[name] = spec
                continue
            sid = name.split(":", 1)[1]
            try:
                with open(os.path.join(seeded_dir, sid, "meta.json")) as fh:
                    meta = json.load(fh)
            except OSError:
                meta = {}
            if spec["expect"] != "silent" or meta.get("written_for_property") == prop:
                keep[name] = spec
            else:
                others.append(name)
        for name in sorted(others)[::6]:
            keep[name] = specs[name]
        specs = keep
    os.environ.setdefault("A5_JOBS", "2")
    with ThreadPoolExecutor(jobs) as ex:
        res = list(ex.map(lambda kv: run_one(prop, kv[0], kv[1]), specs.items()))
    fire = [r for r in res if r[1] == "fire" and r[2] != "skipped"]
    quiet = [r for r in res if r[1] == "silent" and r[2] != "skipped"]
    return {
        "scope": scope, "variants_run": len(res),
        "breaking_variants": len(fire),
        "breaking_reported": sum(1 for r in fire if r[2] == "fired"),
        "breaking_undecided": [r[0] for r in fire if r[2] == "undecided"],
        "breaking_missed": [r[0] for r in fire if r[2] in ("silent",)],
        "preserving_variants": len(quiet),
        "preserving_silent": sum(1 for r in quiet if r[2] in ("silent", "undecided")),
        "false_alarms": [r[0] for r in quiet if r[2] == "fired"],
        "skipped": [r[0] for r in res if r[2] == "skipped"],
        "errors": [(r[0], r[3]) for r in res if r[2] in ("error", "analysis-error")],
        "details": [{"variant": r[0], "expect": r[1], "outcome": r[2], "report": r[3]} for r in res],
    }


def main(argv: List[str]) -> int:
    props = argv or sorted(load())
    bad = 0
    for p in props:
        b = battery(p)
        print(f"{p}: breaking {b['breaking_reported']}/{b['breaking_variants']} reported "
              f"(undecided {b['breaking_undecided']}, missed {b['breaking_missed']}); "
              f"preserving {b['preserving_silent']}/{b['preserving_variants']} silent (false alarms {b['false_alarms']}); "
              f"skipped {b['skipped']} errors {b['errors']}")
        bad += len(b["false_alarms"]) + len(b["errors"])
    return 1 if bad else 0


if __name__ == "__main__":
    sys.exit(main(sys.argv[1:]))
