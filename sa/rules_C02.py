"""C02 -- only the clause "cell_to_lonlat(c) has longitude in [-180, 180]".

Not decided here (numeric, see DESIGN.md section 4): latitude range, 'strictly inside its own ring',
'lonlat_to_cell of the centre returns c'."""
from __future__ import annotations

import ast
import math

from . import core
from .intervals import FloatInterp, Iv, Top, TupleV
from .model import Model

TOL = 1e-9      # degrees; interval end points carry outward rounding


def run(ctx):
    ctx.explanation = (
        "Float interval analysis (sa/intervals.py) of the value returned by a5.core.cell.cell_to_lonlat, inlining "
        "DodecahedronProjection.inverse, to_spherical, to_lonlat and rad_to_deg through the resolved call graph: theta is the "
        "result of math.atan2 (range [-pi, pi] by the library contract), every later operation is interpreted on intervals, "
        "comparisons with constants refine the interval on both branches. The obligation is that the first component of every "
        "returned tuple lies in [-180, 180]. Only this clause of the property is decided; the others quantify over numeric "
        "values that no static domain in reach bounds.")
    ctx.trusted_base = ["library contract: math.atan2 returns a value in [-pi, pi]", "IEEE-754 double arithmetic (outward rounded end points)"]
    ctx.assumptions = ["atan2 attains its whole range over the cells of the globe (they tile the sphere), so an interval end point produced "
                       "from it through monotone operations is attained"]
    model = Model(ctx.sources)
    fq = "a5.core.cell.cell_to_lonlat"
    if fq not in model.funcs:
        raise core.AnalysisError("anchor a5.core.cell.cell_to_lonlat not found")
    fi = model.funcs[fq]
    where = f"{fi.rel}:{fi.node.lineno}"
    roots = model.api_roots()
    if fq not in roots:
        ctx.unk("C02.0", "a5.cell_to_lonlat is a5.core.cell.cell_to_lonlat", "a5/__init__.py", "public name resolves elsewhere; the analysis does not cover it")
    # ---- C02.2: the two conversions answer from their arguments alone (no memo that can hold another argument's answer) ----
    from . import purity
    purity.no_stale_memo(ctx, "C02.2", [fq, "a5.core.cell.lonlat_to_cell"], "the cell a centre maps back to")
    interp = FloatInterp(model)
    res = interp.run(fi, {"cell_id": Top("any cell id")})
    ctx.analysed.update({"function": fq, "result": repr(res.items if isinstance(res, TupleV) else res)})
    if not isinstance(res, TupleV) or len(res.items) != 2:
        ctx.unk("C02.1", f"{fq}: longitude of the returned coordinate", where, f"return value not a pair of intervals: {res!r}")
        return
    lon = res.items[0]
    if not isinstance(lon, Iv):
        ctx.unk("C02.1", f"{fq}: longitude of the returned coordinate", where, f"longitude not bounded by the analysis: {lon!r}")
        return
    if lon.lo >= -180.0 - TOL and lon.hi <= 180.0 + TOL:
        ctx.ok("C02.1", f"{fq}: longitude lies in [-180, 180]", where, f"interval of the first component over all return paths: {lon!r}")
    elif (lon.hi > 180.0 + TOL and lon.hi_t) or (lon.lo < -180.0 - TOL and lon.lo_t):
        ctx.bad("C02.1", f"{fq}: longitude ranges over [{lon.lo:.6g}, {lon.hi:.6g}], not within [-180, 180]", where,
                f"the bounds are values of one source ({lon.src or 'a constant'}) carried through monotone arithmetic to the return value: "
                f"interval over all return paths {lon!r}; some return path does not bring the longitude back into [-180, 180]")
    else:
        ctx.unk("C02.1", f"{fq}: longitude of the returned coordinate", where,
                f"the interval analysis bounds it by {lon!r} only, and the bounds combine several varying quantities (possibly correlated): "
                f"whether values outside [-180, 180] are returned is not decided")
    # auxiliary: the wrap, if any, must not touch the latitude
    lat = res.items[1]
    ctx.analysed["latitude_interval_not_claimed"] = repr(lat)
