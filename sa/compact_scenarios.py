"""Witness search for compact on small list SHAPES with symbolic cells.

The structural argument of compact_rules.py proves C08 / C09 for every input when compact has the modelled shape (sorted
working list, pass loop, index scan).  When the function is restructured the argument does not apply and the obligations are
undecided.  This module adds a refutation device that does not depend on the shape of the code: the abstract interpreter
(sa/absint.py) evaluates `compact` on a few lists whose LENGTH and tree positions are fixed but whose cells are the symbolic id
forms of a generic grandparent G, its children P_a and their children c_(a,j) (face, segment and curve position stay symbolic,
so one evaluation stands for every such family at that resolution).  The returned forms are matched against the family and
compared with what the statement demands:

    C08  the returned cells cover exactly the leaves the input covers;
    C09  the returned set is the canonical one (complete groups merged, cascading), without repetition.

A scenario on which the interpreter forks, meets an unmodelled construct or returns a form outside the family says nothing
(undecided).  A mismatch is a violation with the scenario as witness.  Nothing is proved by the scenarios that pass."""
from __future__ import annotations

from typing import Any, Dict, List, Optional, Tuple

from . import core
from .absint import Budget, ListV, Seg, _Unmodelled, subst_value
from .codec import COMPACT
from .lin import Lin

LEVELS = [1, 2, 3, 4, 9, 29]


def _concrete(lst: Any) -> Optional[List[Lin]]:
    if not isinstance(lst, ListV) or lst.unknown or lst.stores:
        return None
    out: List[Lin] = []
    for sg in lst.segs:
        if not sg.binders:
            if not isinstance(sg.elem, Lin):
                return None
            out.append(sg.elem)
        elif len(sg.binders) == 1 and sg.binders[0][0].lo == 0 and sg.binders[0][1] <= 64:
            b, n = sg.binders[0]
            for j in range(n):
                v = subst_value(sg.elem, b, j)
                if not isinstance(v, Lin):
                    return None
                out.append(v)
        elif len(sg.binders) == 2 and all(b.lo == 0 and n <= 16 for b, n in sg.binders):
            (b1, n1), (b2, n2) = sg.binders
            for i in range(n1):
                for j in range(n2):
                    v = subst_value(subst_value(sg.elem, b1, i), b2, j)
                    if not isinstance(v, Lin):
                        return None
                    out.append(v)
        else:
            return None
    return out


class Family:
    """G (level r-2, or the world), its children P_a (level r-1) and their children c_(a,j) (level r).  With `face` given the
    face index is that constant (needed at the two coarsest levels, where the order of the cells depends on the face's table entry)"""

    def __init__(self, su, r: int, face: Optional[int] = None):
        from .rules_C06 import children_family
        self.r = r
        self.face = face
        interp = su.interp
        self.ok = False
        g = su.ids.get(r - 2) if r - 2 >= 0 else Lin(su.consts.WORLD)
        if g is None:
            return
        if face is not None and r - 2 >= 0:
            for sy in [sy for sy in g.syms() if sy.name == "o"]:
                g = subst_value(g, sy, face)
        self.G = g
        rets, raises = children_family(interp, g, Lin(r - 1))
        if len(rets) != 1 or raises:
            return
        ps = _concrete(rets[0].value)
        if not ps:
            return
        self.P = ps
        self.C: List[List[Lin]] = []
        for p in ps:
            rets, raises = children_family(interp, p, Lin(r))
            if len(rets) != 1 or raises:
                return
            cs = _concrete(rets[0].value)
            if not cs:
                return
            self.C.append(cs)
        # one more level below c_(0,1) and c_(0,2), for the mixed-resolution scenario
        self.D: Dict[Tuple[int, int], List[Lin]] = {}
        if r + 1 <= 29 and len(self.C[0]) >= 4:
            last = len(self.P) - 1
            wanted = [(0, 1), (0, 2)] + ([(last, j) for j in range(len(self.C[last]))] if 1 <= last <= 4 else [])
            for a_, j in wanted:
                rets, raises = children_family(interp, self.C[a_][j], Lin(r + 1))
                if len(rets) == 1 and not raises:
                    ds = _concrete(rets[0].value)
                    if ds:
                        self.D[(a_, j)] = ds
        # and one level below d_(0,1,0): a cell two levels finer than the c's, for the scenario with an empty level in between
        self.E: List[Lin] = []
        if r + 2 <= 29 and (0, 1) in self.D:
            rets, raises = children_family(interp, self.D[(0, 1)][0], Lin(r + 2))
            if len(rets) == 1 and not raises:
                self.E = _concrete(rets[0].value) or []
        self.ok = True

    def generality(self) -> str:
        """what one run over this family stands for: the free symbols of the common ancestor's id form"""
        names = {"o": "face", "seg": "segment", "S": "curve position"}
        free = sorted({names.get(sy.name.rstrip("0123456789"), sy.name) for sy in self.G.syms()}) if isinstance(self.G, Lin) else []
        anc = "the world cell" if self.r - 2 < 0 else f"a cell of resolution {self.r - 2}"
        if self.r - 2 < 0:
            return "family under the world cell: face 0 and its cells"
        fixed = f"face {self.face}" if self.face is not None and "face" not in free else ""
        return (f"family under {anc}" + (f" on {fixed}" if fixed else "") +
                (f"; symbolic: {', '.join(free)}" if free else "; no free symbol (one concrete family)"))

    # names:  ('G',)  ('P', a)  ('c', a, j)  ('d', a, j, m)
    def form(self, name) -> Lin:
        if name[0] == "G":
            return self.G
        if name[0] == "P":
            return self.P[name[1]]
        if name[0] == "c":
            return self.C[name[1]][name[2]]
        if name[0] == "e":
            return self.E[name[1]]
        return self.D[(name[1], name[2])][name[3]]

    def all_names(self):
        out = [("G",)] + [("P", a) for a in range(len(self.P))]
        out += [("c", a, j) for a in range(len(self.P)) for j in range(len(self.C[a]))]
        out += [("d", a, j, m) for (a, j), ds in self.D.items() for m in range(len(ds))]
        out += [("e", q) for q in range(len(self.E))]
        return out

    def leaves(self, name) -> frozenset:
        """leaf = (a, j, m) with m = -1 when level r is the finest for that cell"""
        if name[0] == "G":
            return frozenset().union(*[self.leaves(("P", a)) for a in range(len(self.P))])
        if name[0] == "P":
            return frozenset().union(*[self.leaves(("c", name[1], j)) for j in range(len(self.C[name[1]]))])
        if name[0] == "c":
            ds = self.D.get((name[1], name[2]))
            if ds:
                return frozenset().union(*[self.leaves(("d", name[1], name[2], m)) for m in range(len(ds))])
            return frozenset([(name[1], name[2], -1)])
        if name[0] == "e":
            return frozenset([(0, 1, 0, name[1])])
        if self.E and name[1:] == (0, 1, 0):
            return frozenset((0, 1, 0, q) for q in range(len(self.E)))
        return frozenset([(name[1], name[2], name[3])])

    def canonical(self, names) -> List[tuple]:
        """the canonical antichain for an antichain input (duplicates allowed)"""
        have = set(names)
        changed = True
        while changed:
            changed = False
            if self.E and {("e", q) for q in range(len(self.E))} <= have:
                have = (have - {("e", q) for q in range(len(self.E))}) | {("d", 0, 1, 0)}
                changed = True
            for (a, j), ds in self.D.items():
                grp = {("d", a, j, m) for m in range(len(ds))}
                if grp <= have:
                    have = (have - grp) | {("c", a, j)}
                    changed = True
            for a in range(len(self.P)):
                grp = {("c", a, j) for j in range(len(self.C[a]))}
                if grp <= have:
                    have = (have - grp) | {("P", a)}
                    changed = True
            grp = {("P", a) for a in range(len(self.P))}
            if grp <= have and self.r - 2 >= -1 and self.mergeable_top():
                have = (have - grp) | {("G",)}
                changed = True
        return sorted(have)

    def mergeable_top(self) -> bool:
        # the statement counts "all 12" faces as a complete group as well (they merge into the world cell)
        return True

    def name_of(self, form: Lin) -> Optional[tuple]:
        for nm in self.all_names():
            if self.form(nm) == form:
                return nm
        return None


def scenarios(f: Family) -> List[Tuple[str, List[tuple]]]:
    nP = len(f.P)
    k = len(f.C[0])
    out: List[Tuple[str, List[tuple]]] = []
    grp0 = [("c", 0, j) for j in range(k)]
    out.append(("one complete sibling group", list(grp0)))
    out.append(("the same group in descending order", list(reversed(grp0))))
    out.append(("the group without its last member", grp0[:-1]))
    out.append(("the group without its first member", grp0[1:]))
    out.append(("first and last member only", [grp0[0], grp0[-1]]))
    if k >= 3:
        out.append(("the group with one member given twice", [grp0[0], grp0[1], grp0[1]] + grp0[2:]))
        out.append(("the group with its last member given twice", grp0 + [grp0[-1]]))
        out.append(("the group without its last member and with another member given twice", grp0[:-1] + [grp0[1]]))
        out.append(("one member given as many times as the group has members", [grp0[2]] * k))
    if nP <= 5:
        allc = [("c", a, j) for a in range(nP) for j in range(len(f.C[a]))]
        out.append(("every grandchild (merges cascade)", allc))
        out.append(("every grandchild, shuffled", allc[1::2] + allc[0::2]))
        out.append(("the children of the LAST child plus its siblings", [("P", a) for a in range(nP - 1)] + [("c", nP - 1, j) for j in range(len(f.C[nP - 1]))]))
        out.append(("the children of the FIRST child plus its siblings", grp0 + [("P", a) for a in range(1, nP)]))
        if nP >= 3:
            mid = nP // 2
            out.append(("the children of a MIDDLE child plus its siblings",
                        [("P", a) for a in range(nP) if a != mid] + [("c", mid, j) for j in range(len(f.C[mid]))]))
            out.append(("two complete groups and a single cell", grp0 + [("c", 1, j) for j in range(len(f.C[1]))] + [("c", 2, 0)]))
    out.append(("a cell together with its own first child (overlapping input)", [("P", 0), grp0[0]]))
    out.append(("a cell together with one of its other children (overlapping input)", [grp0[-1], ("P", 0)]))
    if f.r - 2 >= 0:
        out.append(("a cell, its first child and that child's first child (overlapping input)", [("G",), ("P", 0), grp0[0]]))
    else:
        # G is the world cell (round 11: a filter in front of compact that keeps "ids that decode to a cell" drops it)
        out.append(("the world cell alone", [("G",)]))
        out.append(("the world cell given twice", [("G",), ("G",)]))
        # cells of DIFFERENT faces whose ids look alike: a resolution-0 id carries the face number in the six top bits, a finer id
        # carries 5 * face + quintant there -- face 1 / 2 and the quintants of face 0 share those values
        for fb in (1, 2):
            if nP > fb:
                for j in range(len(f.C[0])):
                    out.append((f"face {fb} together with quintant {j} of face 0 (disjoint cells)", [("P", fb), ("c", 0, j)]))
    lastP = nP - 1
    if 1 <= lastP <= 4 and all((lastP, j) in f.D for j in range(len(f.C[lastP]))):
        deep = [("d", lastP, j, m) for j in range(len(f.C[lastP])) for m in range(len(f.D[(lastP, j)]))]
        out.append(("every child but the last given directly, the last one only as its grandchildren (two levels finer)",
                    [("P", a) for a in range(lastP)] + deep))
        out.append(("the same, grandchildren first", deep + [("P", a) for a in range(lastP)]))
    if (0, 1) in f.D and (0, 2) in f.D and k == 4:
        out.append(("first and last member with one finer descendant of each middle member between them",
                    [grp0[0], ("d", 0, 1, 0), ("d", 0, 2, 0), grp0[3]]))
        out.append(("a member replaced by its complete children", [grp0[0]] + [("d", 0, 1, m) for m in range(len(f.D[(0, 1)]))] + grp0[2:]))
        out.append(("a member together with its own complete children, and two of its siblings (overlapping input)",
                    [grp0[1]] + [("d", 0, 1, m) for m in range(len(f.D[(0, 1)]))] + [grp0[0], grp0[2]]))
    if f.E and nP >= 2:
        grp1 = [("c", 1, j) for j in range(len(f.C[1]))]
        out.append(("a complete sibling group and one cell two levels finer elsewhere (no cell on the level in between)", grp1 + [("e", 0)]))
        out.append(("the same, finer cell first", [("e", len(f.E) - 1)] + grp1))
    return out


def _run_fn(interp, name: str, make_args):
    """one abstract run; when the function iterates over a set of several cells (an order Python does not define in terms of the
    cells), the run is repeated with the opposite order and counts only if both give the same outcome"""
    interp.set_order, interp.set_iterations = "insertion", 0
    # what the user calls: the function of that name DEFINED in a5/__init__.py (a wrapper around the core function), when there
    # is one -- the interpreter follows it into the core function -- and the core function otherwise
    entry = COMPACT
    try:
        import ast as _ast
        if any(isinstance(n, _ast.FunctionDef) and n.name == name for n in interp.sources.tree("a5/__init__.py").body):
            entry = "a5/__init__.py"
    except core.AnalysisError:
        pass
    try:
        outs = interp.run_function(entry, name, make_args())
        if interp.set_iterations:
            interp.set_order = "reversed"
            outs2 = interp.run_function(entry, name, make_args())

            def digest(os_):
                return [(o.kind, repr(_concrete_result(o.value)) if o.kind == "return" else repr(o.value), len(o.state.path)) for o in os_]
            if digest(outs) != digest(outs2):
                raise _Unmodelled("the outcome depends on the iteration order of a set")
        return outs
    finally:
        interp.set_order = None


def run(ob, su, want_prefix: str) -> Dict[str, int]:
    """emits C08.7 / C09.8 obligations; returns counts"""
    interp = su.interp
    saved = interp.unroll_ranges
    interp.unroll_ranges = 16
    stats = {"scenarios": 0, "decided": 0, "not_modelled": 0}
    fn = su.ctx.sources.func(COMPACT, "compact")
    where = core.loc(COMPACT, fn)
    try:
        plan = []
        for r in LEVELS:
            if r > min(su.consts.MAX, 29):
                continue
            if r == 1:
                plan.append((r, None))
            elif r in (2, 3):
                plan.extend((r, f_) for f_ in (0, 3, 11))       # faces with first quintant 4, 2 and 0
            else:
                plan.append((r, None))
        saved_steps = interp.MAX_STEPS
        interp.MAX_STEPS = 60000
        streak = 0
        for r, face in plan:
            if streak >= 6:
                stats["stopped"] = "six scenarios in a row were not modelled: the function uses constructs the interpreter does not follow"
                break
            try:
                fam = Family(su, r, face)
            except (Budget, _Unmodelled):
                continue
            if not fam.ok:
                continue
            for title, names in scenarios(fam):
                if streak >= 6:
                    break
                before_nm = stats["not_modelled"]
                stats["scenarios"] += 1
                tag = f"a5.core.compact.compact on {title} (cells of resolution {r}, {fam.generality()})"
                try:
                    outs = _run_fn(interp, "compact", lambda: [ListV([Seg(fam.form(nm)) for nm in names])])
                except (Budget, _Unmodelled, RecursionError) as e:
                    stats["not_modelled"] += 1
                    stats.setdefault("reasons", []).append(f"{type(e).__name__}: {e}"[:200])
                    streak += 1
                    continue
                if len(outs) != 1 or outs[0].state.path:
                    stats["not_modelled"] += 1
                    stats.setdefault("reasons", []).append(f"{len(outs)} outcomes; first path: " + "; ".join(str(c) for c, _t, _w in outs[0].state.path[:2])[:160] if outs else "no outcome")
                    streak += 1
                    continue
                o = outs[0]
                if o.kind == "raise":
                    ob("C08.7", f"{tag}: raises", core.VIOLATED, where, f"input {_show(names)}: {o.value}")
                    stats["decided"] += 1
                    continue
                res = _concrete(o.value)
                if res is None:
                    stats["not_modelled"] += 1
                    stats.setdefault("reasons", []).append(f"result not known element by element: {o.value!r}"[:200])
                    continue
                got = [fam.name_of(x) for x in res]
                if any(g is None for g in got):
                    stats["not_modelled"] += 1
                    continue
                stats["decided"] += 1
                want = fam.canonical(names)
                cover_in = frozenset().union(*[fam.leaves(nm) for nm in names])
                cover_out = frozenset().union(*[fam.leaves(nm) for nm in got]) if got else frozenset()
                if cover_in != cover_out:
                    lost, added = cover_in - cover_out, cover_out - cover_in
                    ob("C08.7", f"{tag}: the result covers a different region", core.VIOLATED, where,
                       f"input {_show(names)} -> {_show(got)}; " + (f"{len(lost)} leaf cell(s) lost" if lost else "") +
                       (" and " if lost and added else "") + (f"{len(added)} leaf cell(s) added" if added else ""))
                else:
                    ob("C08.7", f"{tag}: covers the same region", core.DISCHARGED, where, f"{_show(names)} -> {_show(got)}")
                if "overlapping input" in title:
                    continue          # the canonical form is defined for inputs without a cell and its descendant
                if sorted(got) != want:
                    lv = [fam.leaves(g_) for g_ in got]
                    nested = any(i != j and lv[i] < lv[j] for i in range(len(got)) for j in range(len(got)))
                    why = "repeats a cell" if len(set(got)) != len(got) else \
                        ("holds a cell together with one of its ancestors" if nested else
                         ("keeps a complete sibling group" if len(got) > len(want) else "is not the canonical set"))
                    ob("C09.8", f"{tag}: the result {why}", core.VIOLATED, where,
                       f"input {_show(names)} -> {_show(got)}; canonical: {_show(want)}")
                else:
                    ob("C09.8", f"{tag}: canonical result", core.DISCHARGED, where, f"{_show(names)} -> {_show(got)}")
                streak = 0
    finally:
        interp.unroll_ranges = saved
        if "saved_steps" in locals():
            interp.MAX_STEPS = saved_steps
    return stats


def _show(names) -> str:
    def one(n):
        if n is None:
            return "?"
        return n[0] + "".join(str(x) for x in n[1:])
    s = "[" + ", ".join(one(n) for n in names[:14]) + (", ..." if len(names) > 14 else "") + "]"
    return s


# ---------------------------------------------------------------------------------
# uncompact on small list shapes
# ---------------------------------------------------------------------------------

def run_uncompact(ctx, su) -> Dict[str, int]:
    """C10.7: uncompact on lists of a few symbolic cells, compared element by element with the concatenation of
    cell_to_children(cell, target) (or the cell itself) in input order and with multiplicity.  Refutation only."""
    from .rules_C06 import children_family
    interp = su.interp
    saved, saved_steps = interp.unroll_ranges, interp.MAX_STEPS
    interp.unroll_ranges, interp.MAX_STEPS = 16, 60000
    stats = {"scenarios": 0, "decided": 0, "not_modelled": 0}
    fn = ctx.sources.func(COMPACT, "uncompact")
    where = core.loc(COMPACT, fn)
    try:
        streak = 0
        for r in (1, 3, 5, 12, 27):
            if streak >= 6 or r + 2 > min(su.consts.MAX, 29):
                break
            try:
                fam = Family(su, r)
            except (Budget, _Unmodelled):
                continue
            if not fam.ok:
                continue
            a, b, c = ("c", 0, 1), ("c", 0, 2), ("c", 1, 0)
            P0, P1 = ("P", 0), ("P", 1)
            cases = [
                ("a single cell, one level down", [a], r + 1),
                ("a single cell, two levels down", [a], r + 2),
                ("a cell already at the target", [a], r),
                ("two siblings in descending order", [b, a], r + 1),
                ("the same cell twice", [a, a], r + 1),
                ("the same cell three times, already at the target", [a, a, a], r),
                ("cells of three resolutions, interleaved", [a, P1, c], r + 1),
                ("fine, coarse, fine", [c, P0, a], r),
                ("coarse cell after its own nephew", [c, P0], r + 1),
                ("a cell, another cell, the first cell again", [a, b, a], r + 1),
                ("a cell, a coarser cell, the first cell again", [a, P1, a], r),
            ]
            if ("d", 0, 1, 0) in [nm for nm in fam.all_names()]:
                d = ("d", 0, 1, 0)
                cases += [
                    ("resolutions r, r+1, r-1 in that order", [c, d, P1], r + 1),
                    ("resolutions r+1, r-1, r in that order", [d, P1, c], r + 1),
                    ("resolutions r+1, r+1, r-1", [d, ("d", 0, 1, 1), P1], r + 1),
                ]
            # requests that must raise: a cell finer than the target (the statement: "raises and returns nothing")
            must_raise = [
                ("a cell one level finer than the target", [a], r - 1),
                ("a coarse cell followed by a cell finer than the target", [P0, a], r - 1),
                ("a cell of resolution r with target -1", [a], -1),
                ("a cell of resolution r with target -2", [a], -2),
            ]
            cases += [(t_ + " (must raise)", n_, tt_) for t_, n_, tt_ in must_raise]
            if r == 1:
                # the coarsest levels (round 11): the world cell, the twelve faces and their quintants -- where the aperture changes
                # (12, 5, 4) and where wrappers that "keep the ids that decode to a cell" lose the world cell
                G_ = ("G",)
                cases = [
                    ("the world cell, to resolution 0", [G_], 0),
                    ("the world cell, to resolution 1", [G_], 1),
                    ("the world cell twice, to resolution 0", [G_, G_], 0),
                    ("a resolution-0 cell already at the target", [P0], 0),
                    ("a resolution-0 cell, one level down", [P1], 1),
                    ("a resolution-0 cell, two levels down", [P0], 2),
                    ("a resolution-1 cell, one level down", [a], 2),
                    ("a resolution-1 cell, two levels down", [b], 3),
                    ("a face, the world cell, a quintant", [P1, G_, a], 1),
                    ("a resolution-1 cell with target 0 (must raise)", [a], 0),
                    ("a resolution-0 cell with target -1 (must raise)", [P0], -1),
                ]
            for title, names, t in cases:
                if streak >= 6:
                    break
                stats["scenarios"] += 1
                def res_of(n_):
                    return fam.r - 2 if n_[0] == "G" else (fam.r - 1 if n_[0] == "P" else (fam.r + 1 if n_[0] == "d" else fam.r))
                tag = f"a5.core.compact.uncompact on {title} (resolutions {[res_of(n) for n in names]} -> {t}, {fam.generality()})"
                if title.endswith("(must raise)"):
                    try:
                        outs = _run_fn(interp, "uncompact", lambda: [ListV([Seg(fam.form(nm)) for nm in names]), Lin(t)])
                    except (Budget, _Unmodelled, RecursionError) as e:
                        stats["not_modelled"] += 1
                        stats.setdefault("reasons", []).append(f"{type(e).__name__}: {e}"[:200])
                        streak += 1
                        continue
                    from .absint import opaque_path
                    if not outs or any(opaque_path(o.state) for o in outs):
                        stats["not_modelled"] += 1
                        streak += 1
                        continue
                    stats["decided"] += 1
                    streak = 0
                    rets = [o for o in outs if o.kind == "return"]
                    if rets and len(rets) == len(outs) and not any(o.state.path for o in outs):
                        ctx.bad("C10.7", f"{tag}: returns a list instead of raising", where,
                                f"input {_show(names)}, target {t}: a cell finer than the target must be refused")
                    elif not rets:
                        ctx.ok("C10.7", f"{tag}: raises", where, f"{outs[0].value}")
                    continue
                want: Optional[List[Lin]] = []
                for nm in names:
                    res_nm = res_of(nm)
                    if res_nm == t:
                        want.append(fam.form(nm))
                        continue
                    rets, raises = children_family(interp, fam.form(nm), Lin(t))
                    ks = _concrete(rets[0].value) if len(rets) == 1 and not raises else None
                    if ks is None:
                        want = None
                        break
                    want.extend(ks)
                if want is None:
                    stats["not_modelled"] += 1
                    continue
                try:
                    outs = _run_fn(interp, "uncompact", lambda: [ListV([Seg(fam.form(nm)) for nm in names]), Lin(t)])
                except (Budget, _Unmodelled, RecursionError) as e:
                    stats["not_modelled"] += 1
                    stats.setdefault("reasons", []).append(f"{type(e).__name__}: {e}"[:200])
                    streak += 1
                    continue
                if len(outs) != 1 or outs[0].state.path:
                    stats["not_modelled"] += 1
                    stats.setdefault("reasons", []).append(f"{len(outs)} outcomes; first path: " + "; ".join(str(c) for c, _t, _w in outs[0].state.path[:2])[:160] if outs else "no outcome")
                    streak += 1
                    continue
                o = outs[0]
                if o.kind == "raise":
                    ctx.bad("C10.7", f"{tag}: raises", where, f"input {_show(names)}: {o.value}")
                    stats["decided"] += 1
                    streak = 0
                    continue
                got = _concrete_result(o.value)
                if got is None:
                    stats["not_modelled"] += 1
                    stats.setdefault("reasons", []).append(f"result not known element by element: {o.value!r}"[:200])
                    streak += 1
                    continue
                stats["decided"] += 1
                streak = 0
                if len(got) != len(want):
                    ctx.bad("C10.7", f"{tag}: returns {len(got)} cells, the input cells have {len(want)} descendants (with multiplicity)", where,
                            f"input {_show(names)}")
                    continue
                bad_at = [i for i, (x, y) in enumerate(zip(got, want)) if not (isinstance(x, Lin) and x == y)]
                if bad_at:
                    i = bad_at[0]
                    ctx.bad("C10.7", f"{tag}: position {i} of the result is not the descendant that belongs there", where,
                            f"input {_show(names)}: got {got[i]}, expected {want[i]} ({len(bad_at)} of {len(want)} positions differ): "
                            f"the result is not the descendants of each input cell in input order")
                else:
                    ctx.ok("C10.7", f"{tag}: descendants of each cell, in order, with multiplicity", where, f"{len(want)} cells")
    finally:
        interp.unroll_ranges, interp.MAX_STEPS = saved, saved_steps
    return stats


def _concrete_result(v: Any) -> Optional[List[Any]]:
    """a returned list, including the `[0] * n` + index / slice store form"""
    lst = _concrete(v)
    if lst is not None and not (isinstance(v, ListV) and v.alloc_len is not None):
        return lst
    if isinstance(v, ListV) and v.alloc_len is not None and v.alloc_len.is_const() and not v.unknown:
        n = v.alloc_len.const
        out: List[Any] = [v.alloc_elem] * n
        for idx, val, binders in v.stores:
            if binders or not isinstance(idx, Lin) or not idx.is_const() or not (0 <= idx.const < n):
                return None
            out[idx.const] = val
        return out
    return None
