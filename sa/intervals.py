"""E8 -- float interval domain with a small interprocedural interpreter.

Values: Iv(lo, hi) closed float intervals (outward rounded), TupleV of values, Top.  Library functions are given by
their documented ranges (atan2 in [-pi, pi], acos in [0, pi], sin/cos in [-1, 1], x % m in [0, m) for m > 0, ...);
repository functions are inlined through the resolved call graph of sa/model.py.  Branch conditions that compare
an interval with a constant refine the interval on both branches; `while` loops are unrolled while the condition
can hold (bounded).  Anything unmodelled evaluates to Top, which makes the obligation undecided."""
from __future__ import annotations

import ast
import math
from dataclasses import dataclass
from typing import Any, Dict, List, Optional, Tuple

from . import core
from .model import FuncInfo, Model

INF = math.inf


@dataclass(frozen=True)
class Iv:
    lo: float
    hi: float
    src: str = ""        # provenance of the bounds (e.g. 'atan2')
    lo_t: bool = False   # per bound: the bound is a value the expression takes (or approaches): constants, full documented ranges of library
                         # functions applied to unconstrained arguments, values found in records, and images of ONE such source under
                         # monotone arithmetic with constants.  Anything that combines two varying sources is not tight (their values may be correlated).

    hi_t: bool = False

    @property
    def tight(self) -> bool:
        return self.lo_t and self.hi_t

    def is_point(self) -> bool:
        return self.lo == self.hi

    def __repr__(self):
        return f"[{self.lo:.12g}, {self.hi:.12g}]"


class Top:
    def __init__(self, why: str = ""):
        self.why = why

    def __repr__(self):
        return f"Top({self.why})"


@dataclass
class TupleV:
    items: List[Any]


def _dn(x: float) -> float:
    return x if math.isinf(x) or x == 0.0 and False else math.nextafter(x, -INF)


def _up(x: float) -> float:
    return x if math.isinf(x) else math.nextafter(x, INF)


def hull(a: Any, b: Any) -> Any:
    if isinstance(a, Iv) and isinstance(b, Iv):
        lo_t = (a.lo_t if a.lo <= b.lo else b.lo_t)
        hi_t = (a.hi_t if a.hi >= b.hi else b.hi_t)
        src = (a.src if a.hi >= b.hi else b.src) or a.src or b.src
        return Iv(min(a.lo, b.lo), max(a.hi, b.hi), src, lo_t, hi_t)
    if isinstance(a, TupleV) and isinstance(b, TupleV) and len(a.items) == len(b.items):
        return TupleV([hull(x, y) for x, y in zip(a.items, b.items)])
    if a is None:
        return b
    if b is None:
        return a
    return Top("join of different shapes")


def _flags(a: Iv, b: Iv, swap: bool = False) -> Tuple[bool, bool]:
    """bound flags of  a (op) b  when at most one of them varies (the other is an exactly known constant)"""
    if a.is_point() and b.is_point():
        t = a.tight and b.tight
        return t, t
    if b.is_point() and b.tight:
        return (a.hi_t, a.lo_t) if swap else (a.lo_t, a.hi_t)
    if a.is_point() and a.tight:
        return (b.hi_t, b.lo_t) if swap else (b.lo_t, b.hi_t)
    return False, False


def add(a: Iv, b: Iv) -> Iv:
    exact = a.is_point() and b.is_point()
    lo, hi = a.lo + b.lo, a.hi + b.hi
    lt, ht = _flags(a, b)
    return Iv(lo, hi, a.src or b.src, lt, ht) if exact else Iv(_dn(lo), _up(hi), a.src or b.src, lt, ht)


def neg(a: Iv) -> Iv:
    return Iv(-a.hi, -a.lo, a.src, a.hi_t, a.lo_t)


def mul(a: Iv, b: Iv) -> Iv:
    ps = [a.lo * b.lo, a.lo * b.hi, a.hi * b.lo, a.hi * b.hi]
    ps = [0.0 if math.isnan(p) else p for p in ps]
    if a.is_point() and b.is_point():
        return Iv(ps[0], ps[0], a.src or b.src, a.tight and b.tight, a.tight and b.tight)
    c = b.lo if b.is_point() else (a.lo if a.is_point() else 0.0)
    lt, ht = _flags(a, b, swap=c < 0) if c != 0 else (False, False)
    return Iv(_dn(min(ps)), _up(max(ps)), a.src or b.src, lt, ht)


def div(a: Iv, b: Iv) -> Any:
    if b.lo <= 0.0 <= b.hi:
        return Top("division by an interval containing zero")
    ps = [a.lo / b.lo, a.lo / b.hi, a.hi / b.lo, a.hi / b.hi]
    if a.is_point() and b.is_point():
        return Iv(ps[0], ps[0], a.src or b.src, a.tight and b.tight, a.tight and b.tight)
    lt, ht = (_flags(a, b, swap=b.lo < 0) if b.is_point() else (False, False))
    return Iv(_dn(min(ps)), _up(max(ps)), a.src or b.src, lt, ht)


LIB_RANGES = {
    "math.atan2": (-math.pi, math.pi), "math.atan": (-math.pi / 2, math.pi / 2), "math.acos": (0.0, math.pi),
    "math.asin": (-math.pi / 2, math.pi / 2), "math.sin": (-1.0, 1.0), "math.cos": (-1.0, 1.0),
}


class FloatInterp:
    def __init__(self, model: Model):
        self.model = model
        self.depth = 0
        self.notes: List[str] = []
        self.const_cache: Dict[str, Any] = {}

    # -- module constants ---------------------------------------------------------------------
    def module_const(self, qual: str) -> Any:
        if qual in self.const_cache:
            return self.const_cache[qual]
        self.const_cache[qual] = Top("recursive constant")
        bd = self.model.module_vars.get(qual)
        v: Any = Top(f"module variable {qual}")
        if bd is not None and bd.node is not None:
            fi = self.model.funcs[f"<module {qual.rsplit('.', 1)[0]}>"]
            v = self.ev(bd.node, {}, fi)
        self.const_cache[qual] = v
        return v

    # -- expressions ------------------------------------------------------------------------------
    def ev(self, e: ast.expr, env: Dict[str, Any], fi: FuncInfo) -> Any:
        if isinstance(e, ast.Constant):
            if isinstance(e.value, bool):
                return Top("bool")
            if isinstance(e.value, (int, float)):
                return Iv(float(e.value), float(e.value), "", True, True)
            return Top("constant")
        if isinstance(e, ast.Name):
            if e.id in env:
                return env[e.id]
            bd = self.model.scopes[fi.module].get(e.id)
            if bd is not None and bd.kind == "var":
                return self.module_const(bd.target)
            return Top(f"name {e.id}")
        if isinstance(e, ast.Attribute):
            bd = self.model.resolve_expr_binding(e, fi.module)
            if bd is not None and bd.kind == "var":
                return self.module_const(bd.target)
            if bd is not None and bd.kind == "external" and bd.target == "math.pi":
                return Iv(math.pi, math.pi, "", True, True)
            fs = self.field_summary(e.attr)
            if fs is not None:
                return fs
            return Top(f"attribute {core.src(e)}")
        if isinstance(e, ast.Tuple):
            return TupleV([self.ev(x, env, fi) for x in e.elts])
        if isinstance(e, ast.UnaryOp):
            v = self.ev(e.operand, env, fi)
            if isinstance(e.op, ast.USub) and isinstance(v, Iv):
                return neg(v)
            if isinstance(e.op, ast.UAdd):
                return v
            return Top("unary")
        if isinstance(e, ast.BinOp):
            l, r = self.ev(e.left, env, fi), self.ev(e.right, env, fi)
            if isinstance(l, Iv) and isinstance(r, Iv):
                if isinstance(e.op, ast.Add):
                    return add(l, r)
                if isinstance(e.op, ast.Sub):
                    return add(l, neg(r))
                if isinstance(e.op, ast.Mult):
                    return mul(l, r)
                if isinstance(e.op, ast.Div):
                    return div(l, r)
                if isinstance(e.op, ast.Mod) and r.is_point() and r.lo > 0:
                    if l.lo >= 0 and l.hi < r.lo:
                        return l
                    return Iv(0.0, r.lo, "mod")      # [0, m): closed hull
                if isinstance(e.op, ast.Pow) and l.is_point() and r.is_point():
                    try:
                        v = l.lo ** r.lo
                        return Iv(v, v, "", l.tight and r.tight, l.tight and r.tight)
                    except (OverflowError, ZeroDivisionError):
                        return Top("pow")
                if isinstance(e.op, ast.FloorDiv) and r.is_point() and r.lo > 0:
                    return Iv(math.floor(l.lo / r.lo), math.floor(l.hi / r.lo))
            if isinstance(r, Iv) and isinstance(e.op, ast.Mod) and r.is_point() and r.lo > 0:
                return Iv(0.0, r.lo, "mod")
            return Top(f"{type(e.op).__name__} of {l!r}, {r!r}")
        if isinstance(e, ast.Subscript):
            base = self.ev(e.value, env, fi)
            if isinstance(base, TupleV) and isinstance(e.slice, ast.Constant) and isinstance(e.slice.value, int) \
                    and -len(base.items) <= e.slice.value < len(base.items):
                return base.items[e.slice.value]
            return Top("subscript")
        if isinstance(e, ast.IfExp):
            te, fe = self.refine(e.test, env, fi)
            a = self.ev(e.body, te, fi) if te is not None else None
            b = self.ev(e.orelse, fe, fi) if fe is not None else None
            if a is None:
                return b if b is not None else Top("conditional expression with no feasible branch")
            if b is None:
                return a
            return hull(a, b)
        if isinstance(e, ast.Call):
            return self.call(e, env, fi)
        return Top(type(e).__name__)

    def call(self, e: ast.Call, env: Dict[str, Any], fi: FuncInfo) -> Any:
        cs = None
        for c in self.model.calls.get(fi.qual, []):
            if c.node is e:
                cs = c
                break
        args = [self.ev(a, env, fi) for a in e.args]
        if cs is None:
            return Top("call not indexed")
        if cs.kind == "external":
            if cs.name in ("typing.cast",) and len(args) == 2:
                return args[1]
            if cs.name in LIB_RANGES:
                lo, hi = LIB_RANGES[cs.name]
                # the whole documented range is taken when nothing is known about the arguments
                free = all(isinstance(a, Top) for a in args)
                return Iv(lo, hi, cs.name, free, free)
            if cs.name == "math.sqrt" and args and isinstance(args[0], Iv) and args[0].lo >= 0:
                return Iv(_dn(math.sqrt(args[0].lo)), _up(math.sqrt(args[0].hi)))
            if cs.name == "math.fmod" and len(args) == 2 and isinstance(args[0], Iv) and isinstance(args[1], Iv) and args[1].lo == args[1].hi \
                    and args[1].lo > 0 and not math.isinf(args[0].lo) and not math.isinf(args[0].hi):
                x, y = args[0], args[1].lo
                if -y < x.lo and x.hi < y:
                    return x             # fmod keeps the sign of the dividend: inside (-y, y) it is the identity (bounds stay attained)
                lo = 0.0 if x.lo >= 0 else -y
                hi = 0.0 if x.hi <= 0 else y
                return Iv(lo, hi)        # open at +-y: the hull is not attained
            if cs.name in ("math.floor", "math.ceil") and args and isinstance(args[0], Iv) and not math.isinf(args[0].lo) and not math.isinf(args[0].hi):
                f = math.floor if cs.name == "math.floor" else math.ceil
                return Iv(float(f(args[0].lo)), float(f(args[0].hi)))
            return Top(f"external {cs.name}")
        if cs.kind == "builtin":
            if cs.name in ("max", "min") and len(args) >= 2 and all(isinstance(a, Iv) for a in args):
                f = max if cs.name == "max" else min
                return Iv(f(a.lo for a in args), f(a.hi for a in args))
            if cs.name == "abs" and len(args) == 1 and isinstance(args[0], Iv):
                a = args[0]
                lo = 0.0 if a.lo <= 0 <= a.hi else min(abs(a.lo), abs(a.hi))
                return Iv(lo, max(abs(a.lo), abs(a.hi)))
            if cs.name in ("float", "int", "round") and len(args) == 1 and isinstance(args[0], Iv):
                if cs.name == "float":
                    return args[0]
                return Iv(math.floor(args[0].lo), math.ceil(args[0].hi))
            return Top(f"builtin {cs.name}")
        if cs.kind in ("func", "method") and len(cs.callees) == 1:
            callee = self.model.funcs[cs.callees[0]]
            off = 1 if cs.kind == "method" else 0
            bound: Dict[str, Any] = {}
            for i, a in enumerate(args):
                if i + off < len(callee.params):
                    bound[callee.params[i + off]] = a
            for k in e.keywords:
                if k.arg:
                    bound[k.arg] = self.ev(k.value, env, fi)
            return self.run(callee, bound)
        return Top(f"call {cs.name} ({cs.kind}, {len(cs.callees)} callees)")

    # -- record fields --------------------------------------------------------------------------------------
    def context_env(self, fi: FuncInfo, depth: int = 0) -> Dict[str, Any]:
        """flow-insensitive environment of a function body: parameters joined over the call sites of the function (one level of
        callers), `for v in range(k)` variables as [0, k-1], local names as the hull of everything assigned to them"""
        env: Dict[str, Any] = {}
        if not fi.is_module_body and depth < 2:
            sites = [(caller, cs) for caller, lst in self.model.calls.items() for cs in lst if fi.qual in cs.callees and cs.kind == "func"]
            for caller, cs in sites:
                cfi = self.model.funcs[caller]
                cenv = self.context_env(cfi, depth + 1)
                for i, a in enumerate(cs.node.args):
                    if i < len(fi.params):
                        env[fi.params[i]] = hull(env.get(fi.params[i]), self.ev(a, cenv, cfi))
                for k in cs.node.keywords:
                    if k.arg:
                        env[k.arg] = hull(env.get(k.arg), self.ev(k.value, cenv, cfi))
            for p in fi.params:
                env.setdefault(p, Top(f"parameter {p}"))
        body = fi.node.body

        def scan(stmts):
            for st in stmts:
                if isinstance(st, ast.For):
                    rng = st.iter
                    if isinstance(st.target, ast.Name) and isinstance(rng, ast.Call) and isinstance(rng.func, ast.Name) and rng.func.id == "range" \
                            and len(rng.args) == 1:
                        n = self.ev(rng.args[0], env, fi)
                        env[st.target.id] = Iv(0.0, n.hi - 1, "field (loop index)", n.tight, n.tight) if isinstance(n, Iv) and n.hi >= 1 else Top("range")
                    else:
                        for nn in ast.walk(st.target):
                            if isinstance(nn, ast.Name):
                                env[nn.id] = Top("loop variable")
                    scan(st.body)
                elif isinstance(st, (ast.If, ast.While, ast.With, ast.Try)):
                    for fld in ("body", "orelse", "finalbody"):
                        scan(getattr(st, fld, []) or [])
                elif isinstance(st, ast.Assign) and len(st.targets) == 1 and isinstance(st.targets[0], ast.Name):
                    nm = st.targets[0].id
                    v = self.ev(st.value, env, fi)
                    env[nm] = v if nm not in env else hull(env[nm], v)
        scan(body)
        return env

    def field_summary(self, attr: str) -> Any:
        """hull of every value a record field `attr` is given anywhere in the repository: the keyword `attr=` of each constructor
        call of a repository class (positional construction or ** makes it Top); copies `attr=x.attr` add nothing"""
        key = f"<field {attr}>"
        if key in self.const_cache:
            return self.const_cache[key]
        self.const_cache[key] = None
        out: Any = None
        found = False
        for caller, lst in self.model.calls.items():
            for cs in lst:
                if cs.kind != "ctor":
                    continue
                kws = {k.arg: k.value for k in cs.node.keywords}
                cls = self.model.classes.get(cs.ctor_class)
                fields = set()
                if cls is not None:
                    for n in cls.node.body:
                        if isinstance(n, ast.AnnAssign) and isinstance(n.target, ast.Name):
                            fields.add(n.target.id)
                if attr not in fields:
                    continue
                if cs.node.args or None in kws or attr not in kws:
                    self.const_cache[key] = None
                    return None
                ve = kws[attr]
                if isinstance(ve, ast.Attribute) and ve.attr == attr:
                    continue      # copied from another record of the same kind
                found = True
                cfi = self.model.funcs[caller]
                out = hull(out, self.ev(ve, self.context_env(cfi), cfi))
        res = out if found else None
        if isinstance(res, Top):
            res = None

        def mark(v):
            if isinstance(v, Iv):
                return Iv(v.lo, v.hi, f"field {attr}", True, True)     # every bound is the value of the field in some record
            if isinstance(v, TupleV):
                return TupleV([mark(x) for x in v.items])
            return v
        res = mark(res)
        self.const_cache[key] = res
        return res

    # -- functions --------------------------------------------------------------------------------------
    def run(self, fi: FuncInfo, bound: Dict[str, Any]) -> Any:
        if self.depth > 12:
            return Top("call depth")
        self.depth += 1
        try:
            env = {p: bound.get(p, Top(f"parameter {p}")) for p in fi.params}
            # defaults
            fn = fi.node
            defaults = fn.args.defaults
            for p, d in zip(fi.params[len(fi.params) - len(defaults):], defaults):
                if p not in bound:
                    env[p] = self.ev(d, {}, fi)
            rets: List[Any] = []
            self.block(fn.body, env, fi, rets)
            out = None
            for r in rets:
                out = hull(out, r)
            return out if out is not None else Top("no return value")
        finally:
            self.depth -= 1

    def block(self, stmts, env: Dict[str, Any], fi: FuncInfo, rets: List[Any]) -> Optional[Dict[str, Any]]:
        """returns the environment at fall-through, or None if every path returned/raised"""
        for st in stmts:
            if env is None:
                return None
            if isinstance(st, ast.Expr):
                continue
            if isinstance(st, ast.Return):
                rets.append(self.ev(st.value, env, fi) if st.value is not None else Top("None"))
                return None
            if isinstance(st, ast.Raise):
                return None
            if isinstance(st, (ast.Assign, ast.AnnAssign)):
                if isinstance(st, ast.AnnAssign) and st.value is None:
                    continue
                v = self.ev(st.value, env, fi)
                tgs = st.targets if isinstance(st, ast.Assign) else [st.target]
                for t in tgs:
                    self.assign(t, v, env)
                continue
            if isinstance(st, ast.AugAssign) and isinstance(st.target, ast.Name):
                cur = env.get(st.target.id, Top("undefined"))
                r = self.ev(st.value, env, fi)
                fake = ast.BinOp(left=ast.Name(id="__l", ctx=ast.Load()), op=st.op, right=ast.Name(id="__r", ctx=ast.Load()))
                env[st.target.id] = self.ev(fake, {"__l": cur, "__r": r}, fi)
                continue
            if isinstance(st, ast.If):
                te, fe = self.refine(st.test, env, fi)
                a = self.block(st.body, te, fi, rets) if te is not None else None
                b = self.block(st.orelse, fe, fi, rets) if fe is not None else None
                env = self.join_env(a, b)
                continue
            if isinstance(st, ast.While):
                acc = None
                cur = env
                for _ in range(16):
                    te, fe = self.refine(st.test, cur, fi)
                    acc = self.join_env(acc, fe)
                    if te is None:
                        cur = None
                        break
                    cur = self.block(st.body, te, fi, rets)
                    if cur is None:
                        break
                if cur is not None:
                    # not stabilised: give up on the variables assigned in the loop
                    widened = dict(cur)
                    for n in ast.walk(st):
                        if isinstance(n, ast.Name) and isinstance(n.ctx, ast.Store):
                            widened[n.id] = Top("loop not bounded by the analysis")
                    acc = self.join_env(acc, widened)
                env = acc
                continue
            if isinstance(st, ast.For):
                body_env = dict(env)
                for n in ast.walk(st.target):
                    if isinstance(n, ast.Name):
                        body_env[n.id] = Top("loop variable")
                out = self.block(st.body, body_env, fi, rets)
                w = dict(env)
                for n in ast.walk(st):
                    if isinstance(n, ast.Name) and isinstance(n.ctx, ast.Store):
                        w[n.id] = Top("assigned in a for loop")
                env = w
                continue
            if isinstance(st, (ast.Pass, ast.Global, ast.Import, ast.ImportFrom)):
                continue
            # unmodelled statement: forget everything it assigns
            for n in ast.walk(st):
                if isinstance(n, ast.Name) and isinstance(n.ctx, ast.Store):
                    env[n.id] = Top(f"assigned in {type(st).__name__}")
        return env

    def assign(self, t: ast.expr, v: Any, env: Dict[str, Any]) -> None:
        if isinstance(t, ast.Name):
            env[t.id] = v
        elif isinstance(t, (ast.Tuple, ast.List)):
            if isinstance(v, TupleV) and len(v.items) == len(t.elts):
                for x, y in zip(t.elts, v.items):
                    self.assign(x, y, env)
            else:
                for x in t.elts:
                    self.assign(x, Top("unpacking"), env)

    @staticmethod
    def join_env(a: Optional[Dict[str, Any]], b: Optional[Dict[str, Any]]) -> Optional[Dict[str, Any]]:
        if a is None:
            return b
        if b is None:
            return a
        out = {}
        for k in set(a) | set(b):
            if k in a and k in b:
                out[k] = hull(a[k], b[k])
            else:
                out[k] = Top("defined on one branch only")
        return out

    def refine(self, test: ast.expr, env: Dict[str, Any], fi: FuncInfo):
        """-> (env if the test holds | None if impossible, env if it fails | None)"""
        if isinstance(test, ast.BoolOp) and isinstance(test.op, ast.Or):
            # (a or b): true branch = join of refinements, false branch = all false
            t_acc, f_env = None, dict(env)
            for v in test.values:
                te, fe = self.refine(v, f_env, fi)
                t_acc = self.join_env(t_acc, te)
                if fe is None:
                    f_env = None
                    break
                f_env = fe
            return t_acc, f_env
        if isinstance(test, ast.BoolOp) and isinstance(test.op, ast.And):
            f_acc, t_env = None, dict(env)
            for v in test.values:
                te, fe = self.refine(v, t_env, fi)
                f_acc = self.join_env(f_acc, fe)
                if te is None:
                    t_env = None
                    break
                t_env = te
            return t_env, f_acc
        if isinstance(test, ast.UnaryOp) and isinstance(test.op, ast.Not):
            te, fe = self.refine(test.operand, env, fi)
            return fe, te
        if isinstance(test, ast.Compare) and len(test.ops) == 1:
            l, r = test.left, test.comparators[0]
            op = test.ops[0]
            lv, rv = self.ev(l, env, fi), self.ev(r, env, fi)
            if isinstance(lv, Iv) and isinstance(rv, Iv):
                name, var, other, flip = None, None, None, False
                if isinstance(l, ast.Name) and rv.is_point():
                    name, var, other = l.id, lv, rv.lo
                elif isinstance(r, ast.Name) and lv.is_point():
                    name, var, other, flip = r.id, rv, lv.lo, True
                ops = {ast.Lt: "<", ast.LtE: "<=", ast.Gt: ">", ast.GtE: ">="}
                if type(op) in ops:
                    o = ops[type(op)]
                    if flip:
                        o = {"<": ">", "<=": ">=", ">": "<", ">=": "<="}[o]
                    if name is not None:
                        if o in ("<", "<="):
                            t_iv = (var.lo, min(var.hi, other))
                            f_iv = (max(var.lo, other), var.hi)
                        else:
                            t_iv = (max(var.lo, other), var.hi)
                            f_iv = (var.lo, min(var.hi, other))
                        strict = o in ("<", ">")
                        cont = not var.src.startswith("field")      # a cut through a continuous range is approached; through a finite set it may not be

                        def cut(iv):
                            return Iv(iv[0], iv[1], var.src, var.lo_t and (iv[0] == var.lo or cont), var.hi_t and (iv[1] == var.hi or cont))
                        te = dict(env, **{name: cut(t_iv)}) if (t_iv[0] < t_iv[1] or (t_iv[0] == t_iv[1] and not strict)) else None
                        fe = dict(env, **{name: cut(f_iv)}) if (f_iv[0] < f_iv[1] or (f_iv[0] == f_iv[1] and strict)) else None
                        return te, fe
                    # no variable to refine: decide if possible
                    if o in ("<", "<="):
                        if lv.hi < rv.lo:
                            return dict(env), None
                        if lv.lo > rv.hi:
                            return None, dict(env)
                    else:
                        if lv.lo > rv.hi:
                            return dict(env), None
                        if lv.hi < rv.lo:
                            return None, dict(env)
        return dict(env), dict(env)
