"""C17 -- every API call is a pure function of its arguments (history independence, no argument mutation,
fresh results)."""
from __future__ import annotations

import ast
from typing import Any, Dict, List, Optional, Set, Tuple

from . import core
from .absint import Budget, Interp, State, Unknown, _Unmodelled
from .codec import OriginModel
from .effects import Effects
from .lin import Lin, Sym
from .rules_C16 import CACHE_KINDS, check_counter, classify
from .shared_state import (int_constants, keyed_memo_key_mismatch, CacheInfo, SharedWrite, World, history_definite, recognise_cache, recognise_global_memo, recognise_slot_memo,
                           value_dependencies, write_is_definite, stale_slot_read, generic_setter, resets_whole, changed_and_restored_without_finally)


# ---------------------------------------------------------------------------------
# E3: written-before-read discipline of a module-level scratch buffer
# ---------------------------------------------------------------------------------

def must_define_indices(fn: ast.FunctionDef, param: str) -> Set[int]:
    """constant indices i such that `param[i] = ...` is executed on every path through fn"""
    def block(stmts) -> Set[int]:
        out: Set[int] = set()
        for st in stmts:
            if isinstance(st, ast.Assign):
                for t in st.targets:
                    if isinstance(t, ast.Subscript) and isinstance(t.value, ast.Name) and t.value.id == param \
                            and isinstance(t.slice, ast.Constant) and isinstance(t.slice.value, int):
                        out.add(t.slice.value)
            elif isinstance(st, ast.If):
                a, b = block(st.body), block(st.orelse)
                out |= (a & b)
            elif isinstance(st, (ast.Return, ast.Raise)):
                break
        return out
    return block(fn.body)


def reads_param_before_define(fn: ast.FunctionDef, param: str) -> bool:
    """does fn read param[...] before it has stored all of its slots (e.g. normalize(out, a) with out is a is fine,
    but `out[0] = out[1] + ..` is not)?"""
    for n in ast.walk(fn):
        if isinstance(n, ast.Subscript) and isinstance(n.ctx, ast.Load) and isinstance(n.value, ast.Name) and n.value.id == param:
            return True
    return False


class ScratchDiscipline:
    """obj: a module-level variable (qualified name), or with attr: the attribute `self.<attr>` of the instances of class cls"""

    def __init__(self, w: World, obj: str, cls: Optional[str] = None, attr: Optional[str] = None, class_level: bool = False):
        self.w, self.obj = w, obj
        self.cls, self.attr = cls, attr
        self.class_level = class_level        # the list is created once in the class body (`class T: buf = [0.0, 0.0, 0.0]`)
        self.mq, self.name = obj.rsplit(".", 1)
        self.length = self._length()
        self.problems: List[Tuple[str, int, str]] = []     # (function, line, text)
        self.functions: List[str] = []

    def components(self) -> Optional[Set[object]]:
        """the slots that make up the buffer: indices of a fixed-length list, or the constant keys of a dict literal"""
        if self.length is not None:
            return set(range(self.length))
        v = self._init_value()
        if isinstance(v, ast.Dict) and v.keys and all(isinstance(k, ast.Constant) for k in v.keys):
            return {k.value for k in v.keys}
        if isinstance(v, ast.Call) and core.src(v.func) in ("A5Cell", "dict") and v.keywords and not v.args:
            return {k.arg for k in v.keywords if k.arg}
        return None

    def _init_value(self):
        if self.attr is not None:
            return None
        bd = self.w.model.module_vars.get(self.obj)
        return bd.node if bd else None

    def _length(self) -> Optional[int]:
        v = None
        if self.class_level:
            ci_ = self.w.model.classes.get(self.cls)
            for n in (ci_.node.body if ci_ else []):
                if isinstance(n, ast.Assign) and any(isinstance(t, ast.Name) and t.id == self.attr for t in n.targets):
                    v = n.value
                elif isinstance(n, ast.AnnAssign) and isinstance(n.target, ast.Name) and n.target.id == self.attr and n.value is not None:
                    v = n.value
        elif self.attr is not None:
            for k in self.w.model.mro(self.cls) if self.cls else []:
                init = self.w.model.classes[k].methods.get("__init__")
                if init:
                    for n in ast.walk(self.w.model.funcs[init].node):
                        if isinstance(n, ast.Assign) and any(isinstance(t, ast.Attribute) and t.attr == self.attr and isinstance(t.value, ast.Name)
                                                            and t.value.id == "self" for t in n.targets):
                            v = n.value
        else:
            bd = self.w.model.module_vars.get(self.obj)
            v = bd.node if bd else None
        if isinstance(v, ast.List):
            return len(v.elts)
        if isinstance(v, ast.Call) and core.src(v.func) in ("vec3.create", "create"):
            return 3
        if isinstance(v, ast.Call) and core.src(v.func) in ("vec2.create",):
            return 2
        return None

    def _mentions(self, e: ast.AST, fi) -> bool:
        for n in ast.walk(e):
            if self._is_obj(n, fi):
                return True
        return False

    def _is_obj(self, n: ast.AST, fi) -> bool:
        if self.class_level:
            # reached as  <instance or class>.<attr>  from anywhere; every attribute of that name counts (stricter, never laxer)
            return isinstance(n, ast.Attribute) and n.attr == self.attr
        if self.attr is not None:
            return isinstance(n, ast.Attribute) and n.attr == self.attr and isinstance(n.value, ast.Name) and n.value.id == "self" \
                and fi.cls is not None and self.cls in self.w.model.mro(fi.cls)
        if isinstance(n, ast.Name) and n.id == self.name and fi.module == self.mq and n.id not in self.w.model.local_names(fi):
            return True
        if isinstance(n, (ast.Name, ast.Attribute)):
            bd = self.w.model.resolve_expr_binding(n, fi.module) if not (isinstance(n, ast.Name) and n.id in self.w.model.local_names(fi)) else None
            return bd is not None and bd.kind == "var" and bd.target == self.obj
        return False

    def check(self) -> bool:
        """True if, in every function that names the buffer, every read is preceded (in the same activation,
        on every path) by a call that stores all of its slots."""
        self.all = self.components()
        if self.all is None:
            self.problems.append(("<module>", 0, "not a fixed-length list / fixed-key dict initialised at import"))
            return False
        ok = True
        for fq, fi in self.w.model.funcs.items():
            if fi.is_module_body or not self._mentions(fi.node, fi):
                continue
            self.functions.append(fq)
            self._scan(fi.node.body, fi, frozenset())
            ok = ok and not [p for p in self.problems if p[0] == fq]
        return ok and not self.problems

    def _full(self, defined) -> bool:
        return self.all <= set(defined)

    def _scan(self, stmts, fi, defined):
        for st in stmts:
            if isinstance(st, ast.If):
                defined = self._expr(st.test, fi, defined)
                a = self._scan(st.body, fi, defined)
                b = self._scan(st.orelse, fi, defined)
                defined = frozenset(set(a) & set(b))
            elif isinstance(st, (ast.For, ast.While)):
                if isinstance(st, ast.For):
                    defined = self._expr(st.iter, fi, defined)
                else:
                    defined = self._expr(st.test, fi, defined)
                self._scan(st.body, fi, defined)
                # the loop may run zero times: keep the state before it
            elif isinstance(st, ast.Assign):
                defined = self._expr(st.value, fi, defined)
                for t in st.targets:
                    if isinstance(t, ast.Subscript) and self._is_obj(t.value, fi) and isinstance(t.slice, ast.Constant):
                        defined = frozenset(set(defined) | {t.slice.value})
                    else:
                        for child in ast.walk(t):
                            if self._is_obj(child, fi) and not self._full(defined):
                                self.problems.append((fi.qual, st.lineno, core.src(st)[:80]))
            elif isinstance(st, (ast.Return, ast.Expr, ast.AugAssign, ast.AnnAssign, ast.Raise)):
                for child in ast.iter_child_nodes(st):
                    if isinstance(child, ast.expr):
                        defined = self._expr(child, fi, defined)
            else:
                for child in ast.walk(st):
                    if self._is_obj(child, fi) and not self._full(defined):
                        self.problems.append((fi.qual, getattr(st, "lineno", 0), core.src(st)[:80]))
        return defined

    def _expr(self, e: ast.expr, fi, defined):
        """evaluation order: arguments left to right, then the call"""
        if isinstance(e, ast.Call):
            cs = None
            for c in self.w.model.calls.get(fi.qual, []):
                if c.node is e:
                    cs = c
            if isinstance(e.func, ast.expr) and not isinstance(e.func, (ast.Name, ast.Attribute)):
                defined = self._expr(e.func, fi, defined)
            positions = [i for i, a in enumerate(e.args) if self._is_obj(a, fi)]
            for i, a in enumerate(e.args):
                if i not in positions:
                    defined = self._expr(a, fi, defined)
            for k in e.keywords:
                defined = self._expr(k.value, fi, defined)
            if positions:
                full = False
                reads = False
                if cs is not None and cs.callees and self.length is not None:
                    full = True
                    for callee in cs.callees:
                        cfi = self.w.model.funcs[callee]
                        off = 1 if cs.kind in ("method", "ctor") else 0
                        for p in positions:
                            pi = p + off
                            if pi >= len(cfi.params):
                                full = False
                                continue
                            pname = cfi.params[pi]
                            md = must_define_indices(cfi.node, pname)
                            wrote = set(range(self.length)) <= md
                            rd = reads_param_before_define(cfi.node, pname)
                            if p == positions[0] and wrote and not rd and len(positions) == 1:
                                continue
                            if p == positions[0] and wrote and len(positions) > 1:
                                reads = True      # e.g. normalize(buf, buf): reads the buffer as a source
                                continue
                            if p != positions[0]:
                                reads = True
                                continue
                            full = False
                            reads = reads or rd or not wrote
                else:
                    reads = True
                if reads and not self._full(defined):
                    self.problems.append((fi.qual, e.lineno, core.src(e)[:80]))
                if full:
                    defined = frozenset(self.all)
            return defined
        if isinstance(e, ast.Subscript) and self._is_obj(e.value, fi) and isinstance(e.slice, ast.Constant) and isinstance(e.ctx, ast.Load):
            if e.slice.value not in set(defined):
                self.problems.append((fi.qual, getattr(e, "lineno", 0), core.src(e)[:80]))
            return defined
        if self._is_obj(e, fi):
            if not self._full(defined):
                self.problems.append((fi.qual, getattr(e, "lineno", 0), core.src(e)[:80]))
            return defined
        for child in ast.iter_child_nodes(e):
            if isinstance(child, ast.expr):
                defined = self._expr(child, fi, defined)
        return defined


# ---------------------------------------------------------------------------------
# cache keys: complete and injective
# ---------------------------------------------------------------------------------

def param_range(w: World, om: OriginModel, name: str) -> Optional[Tuple[int, int]]:
    if name == "origin_id":
        return (0, (om.length or 12) - 1)
    if name == "face_triangle_index":
        # produced by get_face_triangle_index: (... ) % m
        for fq, fi in w.model.funcs.items():
            if fq.endswith(".get_face_triangle_index"):
                for n in ast.walk(fi.node):
                    if isinstance(n, ast.Return) and n.value is not None:
                        v = n.value
                        if isinstance(v, ast.Call) and core.src(v.func) == "cast" and len(v.args) == 2:
                            v = v.args[1]
                        if isinstance(v, ast.BinOp) and isinstance(v.op, ast.Mod) and isinstance(v.right, ast.Constant) and isinstance(v.right.value, int):
                            return (0, v.right.value - 1)
        return None
    return None


def key_forms(ctx, w: World, om: OriginModel, ci: CacheInfo):
    """Evaluates the list-cache index for every combination of the boolean parameters, with the integer parameters
    symbolic: -> list of (combo dict, index Lin, signature) or a problem string"""
    fi = w.model.funcs[ci.func]
    fn = fi.node
    args = fn.args.args[1:]        # without self
    ints, bools = [], []
    for a in args:
        ann = core.src(a.annotation) if a.annotation is not None else ""
        if ann == "bool":
            bools.append(a.arg)
        else:
            ints.append(a.arg)
    syms: Dict[str, Sym] = {}
    for nm in ints:
        rng = param_range(w, om, nm)
        if rng is None:
            return f"range of parameter {nm} is not known"
        syms[nm] = Sym(nm, rng[0], rng[1])
    # statements before the first access of the cache
    prefix = []
    for st in fn.body:
        if isinstance(st, ast.Expr) and isinstance(st.value, ast.Constant):
            continue
        if any(isinstance(n, ast.Attribute) and n.attr == ci.field for n in ast.walk(st)):
            break
        prefix.append(st)
    interp = Interp(ctx.sources)
    out = []
    import itertools
    for combo in itertools.product([False, True], repeat=len(bools)):
        st = State()
        env = dict(interp.module_env(fi.rel))
        for nm, s in syms.items():
            env[nm] = Lin.of(s)
        for nm, v in zip(bools, combo):
            env[nm] = v
        env["self"] = Unknown("self")
        st.frames = [env]
        try:
            res = interp.exec_block(prefix, st, fi.rel)
        except (Budget, _Unmodelled) as e:
            return f"index computation not interpreted: {e}"
        if len(res) != 1 or res[0][1] is not None:
            return "index computation has several paths for fixed boolean arguments"
        s2 = res[0][0]
        try:
            idx = interp.eval(ci.key_expr, s2, fi.rel)
        except Exception as e:   # pragma: no cover
            return f"index expression not evaluated: {e}"
        if not isinstance(idx, Lin):
            return f"index is not an integer form: {idx!r}"
        # which fill statement runs, and which boolean parameters its value mentions
        sig = fill_signature(fn, ci, dict(zip(bools, combo)))
        out.append((dict(zip(bools, combo)), idx, sig))
    return out


def fill_signature(fn: ast.FunctionDef, ci: CacheInfo, bools: Dict[str, bool]):
    """(index of the fill statement selected by the boolean arguments, values of the booleans its value expression uses)"""
    def select(stmts):
        for st in stmts:
            if isinstance(st, ast.If) and isinstance(st.test, ast.Name) and st.test.id in bools:
                r = select(st.body if bools[st.test.id] else st.orelse)
                if r is not None:
                    return r
            elif isinstance(st, ast.If):
                r = select(st.body) or select(st.orelse)
                if r is not None and not (isinstance(st.test, ast.Compare)):
                    return r
            elif isinstance(st, ast.Assign) and st in ci.fill_nodes:
                return st
        return None
    st = select(fn.body)
    if st is None:
        return None
    # a conditional expression on a boolean argument selects one of its arms:  f(x, s) if reflected else g(x)
    value = st.value
    arms = []
    while isinstance(value, ast.IfExp) and isinstance(value.test, ast.Name) and value.test.id in bools:
        arms.append((value.test.id, bools[value.test.id]))
        value = value.body if bools[value.test.id] else value.orelse
    used = sorted({n.id for n in ast.walk(value) if isinstance(n, ast.Name) and n.id in bools} | {a for a, _ in arms})
    return (ci.fill_nodes.index(st), tuple((u, bools[u]) for u in used))


def injective_mixed_radix(idx: Lin) -> Optional[str]:
    """None if idx is injective in its symbols (mixed-radix form), else a description of a collision"""
    terms = []
    for a, c in idx.terms:
        if not isinstance(a, Sym) or a.lo is None or a.hi is None or c <= 0:
            return f"index {idx} is not a positive linear form of bounded parameters"
        terms.append((c, a))
    terms.sort(key=lambda t: t[0])
    span = 0   # largest value reachable by the lower terms (relative)
    for c, a in terms:
        if span >= c and a.hi > a.lo:
            lower = [t for t in terms if t[0] < c]
            return (f"two different arguments give the same index: coefficient {c} of {a.name} does not exceed the range "
                    f"[0, {span}] covered by {[t[1].name for t in lower]}")
        span += c * (a.hi - a.lo)
    return None


def check_cache_key(ctx, w: World, om: OriginModel, ci: CacheInfo, name: str, where: str):
    if ci.variant == "dict":
        # the key must be built from the complete content of the argument the value is computed from
        fn = w.model.funcs[ci.func].node
        dep, local_dep = value_dependencies(w.model, ci)
        extra = dep - ci.key_vars
        if extra and generic_setter(w.model, ci.func, set(ci.key_vars), set(extra)):
            ctx.unk("C17.2", f"cache {name}: key and value are both handed in by the caller of {ci.func}", where,
                    "whether the key determines the value is a property of the call sites: not decided")
            return
        if extra:
            ctx.bad("C17.2", f"cache {name}: the cached value depends on {sorted(extra)}, which is not part of the key", where,
                    f"key `{core.src(ci.key_expr)}` computed from {sorted(ci.key_vars)}: a later call with a different {sorted(extra)[0]} gets the value of an earlier one")
            return
        # key expression: tuple of tuple(X) for every component X unpacked from the argument
        key_def = None
        key_defs = []
        for n in ast.walk(fn):
            if isinstance(n, ast.Assign) and isinstance(ci.key_expr, ast.Name) and any(isinstance(t, ast.Name) and t.id == ci.key_expr.id for t in n.targets):
                key_def = n.value
                key_defs.append(n.value)
        if len(key_defs) > 1:
            # the key is built in more than one way: every way must cover the argument; one that takes the key from elsewhere
            # (a parameter, a counter) makes completeness a property of the callers
            odd = [d for d in key_defs if not isinstance(d, ast.Tuple)]
            if odd:
                ctx.unk("C17.2", f"cache {name}: the key is also taken from `{core.src(odd[0])[:60]}`", where,
                        f"{len(key_defs)} definitions of `{ci.key_expr.id}`; whether `{core.src(odd[0])[:60]}` identifies what the cached value is computed from "
                        f"is decided by the callers, not here")
                return
        comps: Set[str] = set()
        unpacked: Set[str] = set()
        for n in ast.walk(fn):
            if isinstance(n, ast.Assign) and isinstance(n.targets[0], ast.Tuple) and isinstance(n.value, ast.Name) and n.value.id in w.model.funcs[ci.func].params:
                unpacked = {e.id for e in n.targets[0].elts if isinstance(e, ast.Name)}
        if key_def is not None:
            comps = {x.id for x in ast.walk(key_def) if isinstance(x, ast.Name)} & unpacked
        used_in_value: Set[str] = set()
        for v in ci.value_exprs:
            pass
        needed = {d for d in local_dep if d in unpacked}
        missing = needed - comps
        if key_def is None or missing:
            ctx.bad("C17.2", f"cache {name}: key `{core.src(key_def) if key_def is not None else core.src(ci.key_expr)}` omits {sorted(missing) or 'its definition'}", where,
                    f"the cached constants are computed from {sorted(needed)}; two triangles differing only in {sorted(missing)} would share an entry")
        else:
            ctx.ok("C17.2", f"cache {name}: key covers the complete content of the argument", where,
                   f"key `{core.src(key_def)}`; cached value computed from {sorted(needed)}")
        return
    forms = key_forms(ctx, w, om, ci)
    if isinstance(forms, str):
        ctx.unk("C17.2", f"cache {name}: index `{core.src(ci.key_expr)}` injective", where, forms)
        return
    bad = False
    for combo, idx, sig in forms:
        p = injective_mixed_radix(idx)
        if p:
            ctx.bad("C17.2", f"cache {name}: index is not injective for {combo or 'all arguments'}", where, f"index {idx}: {p}")
            bad = True
    for i in range(len(forms)):
        for j in range(i + 1, len(forms)):
            (c1, x1, s1), (c2, x2, s2) = forms[i], forms[j]
            (l1, h1), (l2, h2) = x1.rng(), x2.rng()
            overlap = not (h1 < l2 or h2 < l1)
            if s1 == s2:
                if x1 != x2:
                    # same value, two slots: wasteful but harmless
                    pass
                continue
            if overlap:
                ctx.bad("C17.2", f"cache {name}: arguments {c1} and {c2} select different values but share slots", where,
                        f"index ranges [{l1}, {h1}] and [{l2}, {h2}] overlap: whichever call comes first decides what the other one gets")
                bad = True
    if not bad:
        ctx.ok("C17.2", f"cache {name}: index is an injective function of the arguments the value depends on", where,
               "; ".join(f"{c} -> {x} in {list(x.rng())}" for c, x, _ in forms))


# ---------------------------------------------------------------------------------

def check_shared_writes(ctx, w: World, om: OriginModel) -> None:
    """C17.1 / C17.2: every write to module-level state reachable from the API (ctx may be a core.Recorder); obligations about
    an object carry extra['owners'] = the API functions from which the write is reached"""
    caches, counters, bad = classify(ctx, w, threads=False)

    # ---- C17.1: module-level state changed and put back without try/finally -----------------------------------------------
    for fq in sorted(w.reach):
        leak = changed_and_restored_without_finally(w.model, fq)
        if leak:
            fi_ = w.model.funcs[fq]
            ctx.bad("C17.1", f"{fq} can leave module-level state changed when an exception passes through it", f"{fi_.rel}:{fi_.node.lineno}", leak)
    # ---- C17.2: a memo whose key rounds an argument while the stored value is computed from the argument as given (round 11) ------
    from .shared_state import lossy_key_memo
    for fq in sorted(w.reach):
        lk = lossy_key_memo(w.model, fq)
        if lk:
            fi_ = w.model.funcs[fq]
            ctx.bad("C17.2", f"memo in {fq}: the key rounds an argument, the remembered value does not", f"{fi_.rel}:{lk[0]}", lk[1], owners=[fq], object=f"{fq}.<memo>")
    from .shared_state import memo_ignores_parameter
    for fq in sorted(w.reach):
        mp = memo_ignores_parameter(w.model, fq)
        if mp:
            fi_ = w.model.funcs[fq]
            ctx.bad("C17.2", f"memo in {fq}: the remembered value depends on a parameter that is not part of the key", f"{fi_.rel}:{mp[0]}", mp[1],
                    owners=[fq], object=f"{fq}.<memo>")
    # ---- C17.1 ---------------------------------------------------------------------------------------------
    by_obj: Dict[str, List[SharedWrite]] = {}
    for sw in bad:
        by_obj.setdefault(sw.name, []).append(sw)
    cache_fields = {fld for (_, fld) in caches}
    for obj, sws in sorted(by_obj.items()):
        sw = sws[0]
        where = f"{w.rel_of(sw.origin_func)}:{sw.origin_line}"
        owners = sorted({s.owner for s in sws})
        kinds = {k.split(" (")[0] for x in sws for k in x.kinds}
        tag = {"owners": owners, "object": obj}
        _bad = lambda *a_, **k_: ctx.bad(*a_, **{**tag, **k_})
        _unk = lambda *a_, **k_: ctx.unk(*a_, **{**tag, **k_})
        _ok = lambda *a_, **k_: ctx.ok(*a_, **{**tag, **k_})
        vague = [w.reached_by_name_only(x) for x in sws]
        if all(vague):
            _unk("C17.1", f"shared object {obj} may be modified by {owners[0]}", where,
                 f"`{sw.origin_text}` in {sw.origin_func} is reached through a call whose receiver class is not known: {vague[0]}")
            continue
        if w.thread_private(sw.obj):
            _unk("C17.1", f"state kept below the thread-local object {sw.obj} is written by {owners[0]}", where,
                 f"`{sw.origin_text}` in {sw.origin_func} ({', '.join(sorted(kinds))[:120]}): a per-thread copy of objects whose own idioms are judged where "
                 f"they are module-level; whether this copy carries history from one call to the next is not decided")
            continue
        # (1) entries of a cache container initialised after they were stored
        if sw.field in cache_fields and all(x.depth >= 2 for x in sws):
            _unk("C17.1", f"entries of cache {obj} are modified after they were stored ({owners[0]})", where,
                    f"`{sw.origin_text}` in {sw.origin_func} writes into an object held by the cache; single-threaded this is the initialisation of a "
                    f"new entry only if it completes before the entry is used, which is not decided")
            continue
        # (1b) a keyed store into a field that is also cleared / evicted: the fill idiom is not verified, but an incomplete key is certain
        if sw.field and "subscript-store:key" in kinds and sw.origin_func in w.model.funcs and w.model.funcs[sw.origin_func].cls:
            stores = [x for x in sws if any(k.startswith("subscript-store:key") for k in x.kinds)]
            ci = recognise_cache(w.model, stores[0].origin_func, sw.field)
            if ci.variant != "?":
                dep, _ = value_dependencies(w.model, ci)
                extra = dep - ci.key_vars
                if extra and generic_setter(w.model, stores[0].origin_func, set(ci.key_vars), set(extra)):
                    _unk("C17.2", f"table {obj}: key and value are both handed in by the caller of {stores[0].origin_func}", where,
                         "whether the key determines the value is a property of the call sites: not decided")
                    continue
                if extra:
                    _bad("C17.2", f"table {obj}: the stored value depends on {sorted(extra)}, which is not part of the key `{core.src(ci.key_expr)}`", where,
                            f"filled by {stores[0].origin_func}; a later call with a different {sorted(extra)[0]} and the same key gets the value of an earlier one")
                    continue
        # (1c) a keyed memo in a module-level dict that is read under one key and written under another
        if sw.field is None and sw.depth == 0 and obj in w.model.module_vars and "subscript-store:key" in kinds:
            mm = None
            for x in sws:
                fi_x = w.model.funcs.get(x.origin_func)
                if fi_x is not None:
                    mm = mm or keyed_memo_key_mismatch(w.model, int_constants(w.model, fi_x.module), x.origin_func, obj.rsplit(".", 1)[-1])
            if mm:
                _bad("C17.1", f"keyed memo {obj} in {sw.origin_func} answers with an entry remembered for a different argument", where, mm)
                continue
        # (2) one-slot memos: attribute of a singleton, or module-level variables
        memo = None
        for x in sws:
            for k in x.kinds:
                if k.startswith("attr-store:"):
                    pr = recognise_slot_memo(w.model, x.origin_func, k.split(":", 1)[1].split(" ")[0])
                    if pr is not None:
                        memo = (x, f"{obj}.{k.split(':', 1)[1].split(' ')[0]}", pr)
                if k.startswith("global-rebind:"):
                    pr = recognise_global_memo(w.model, x.origin_func)
                    if pr is not None:
                        memo = (x, obj, pr)
        if memo is not None:
            x, what, pr = memo
            hard = [p for p in pr if not p.startswith("UNDECIDED")]
            if hard:
                _bad("C17.1", f"one-slot memo {what} in {x.origin_func} can return a result remembered for a different argument", where,
                        "; ".join(hard) + ": what a call returns depends on which call came before")
            elif pr:
                _unk("C17.1", f"one-slot memo {what} in {x.origin_func}", where, "; ".join(p.replace("UNDECIDED: ", "") for p in pr))
            else:
                _ok("C17.1", f"one-slot memo {what} in {x.origin_func} is keyed by exact equality on everything its value is computed from", where,
                       "a hit returns what a miss would compute")
            continue
        # (3) scratch buffers: module-level or instance-attribute lists of fixed length used as `out` arguments
        sd = None
        if sw.field is None and sw.depth == 0 and obj in w.model.module_vars:
            sd = ScratchDiscipline(w, obj)
        elif sw.field is not None and sw.depth == 1 and w.eff.object_class(sw.obj):
            sd = ScratchDiscipline(w, obj, w.eff.object_class(sw.obj), sw.field)
        elif sw.field is None and sw.depth == 0 and obj.startswith("<class attribute ") and obj.endswith(">"):
            cq_, at_ = obj[len("<class attribute "):-1].rsplit(".", 1)
            sd = ScratchDiscipline(w, obj, cq_, at_, class_level=True)
        if sd is not None and sd.components() is not None and kinds <= {"subscript-store:const"}:
            if sd.check() and sd.functions:
                _ok("C17.1", f"scratch buffer {obj} is completely written before it is read in every activation", where,
                       f"functions naming it: {[f.split('.', 2)[-1] for f in sd.functions]}; no value survives from one call into the next")
            else:
                f, line, text = sd.problems[0] if sd.problems else ("?", 0, "buffer not found by name")
                stale = None
                for o_ in owners:
                    stale = stale or stale_slot_read(w.model, o_, obj.rsplit(".", 1)[-1])
                if stale:
                    _bad("C17.1", f"module-level container {obj} carries a value from one call into the next", where, stale)
                    continue
                _unk("C17.1", f"shared buffer {obj}: `{text}` in {f} may read what an earlier call left behind", f"{w.rel_of(f) if f in w.model.funcs else ''}:{line}",
                        f"written by {[o.split('.', 2)[-1] for o in owners]}; the written-before-read discipline is not established, so history "
                        f"independence of the callers is not decided")
            continue
        # (4) certain history dependence: read-modify-write / overwriting components of persistent data
        if any(resets_whole(x) for x in sws):
            for x in sws:
                x.object_reset = True       # some function resets the whole object: the others refill a work object
        if any(history_definite(w.model, x) for x in sws):
            _bad("C17.1", f"persistent shared object {obj} is modified by {owners[0]}", where,
                    f"`{sw.origin_text}` in {sw.origin_func} ({', '.join(sorted(kinds))}) changes module-level data that later calls read "
                    f"(reachable via {w.path_to(sw.owner)}): results depend on which calls were made before")
        else:
            _unk("C17.1", f"shared object {obj} is written by {owners[0]}", where,
                    f"`{sw.origin_text}` in {sw.origin_func} ({', '.join(sorted(kinds))}) stores a computed value in module-level state (memo, lazy "
                    f"initialisation or eviction idiom that is not one of the verified ones); whether later results depend on it is not decided")
    for (func, fld), (ci, sws) in sorted(caches.items()):
        where = f"{w.rel_of(func)}:{w.model.funcs[func].node.lineno}"
        name = f"{sws[0].obj}.{fld}"
        n0 = len(ctx.obligations)
        if ci.problems:
            for p in ci.problems:
                ctx.unk("C17.1", f"cache {name} filled by {func}: {p}", where,
                        "the fill does not follow the verified idiom (slot store keyed by the arguments, placeholder handled, slot returned); "
                        "whether a warm cache answers like a cold one is not decided")
        else:
            ctx.ok("C17.1", f"cache {name}: slot store keyed by `{core.src(ci.key_expr)}`, placeholder handled, slot returned", where,
                   "a warm cache returns what a cold one would compute, provided the key is complete (C17.2)")
        check_cache_key(ctx, w, om, ci, name, where)
        for o in ctx.obligations[n0:]:
            o.extra.setdefault("owners", sorted({x.owner for x in sws} | {func}))
            o.extra.setdefault("object", name)
    seen = set()
    for sw, attr in counters:
        if (sw.obj, attr) in seen:
            continue
        seen.add((sw.obj, attr))
        problems = check_counter(w, attr)
        where = f"{w.rel_of(sw.origin_func)}:{sw.origin_line}"
        if problems:
            ctx.bad("C17.1", f"counter {sw.obj}.{attr} carries history into results", where, "; ".join(problems))
        else:
            ctx.ok("C17.1", f"counter {sw.obj}.{attr} never flows into a result", where, "uses: increment, initialisation, comparison guarding a print()")
    ctx.floor("shared containers written from API-reachable code (caches, admitted or not)", len(caches) + len({b.name for b in bad}), 3, soft=True)



def check_roots(ctx, w: World, roots=None) -> None:
    """C17.3 / C17.4 for the given API functions (default: all exported ones)"""
    # ---- C17.3 / C17.4 ---------------------------------------------------------------------------------------
    for root in (roots if roots is not None else w.roots):
        s = w.eff.summaries[root]
        fi = w.model.funcs[root]
        where = f"{fi.rel}:{fi.node.lineno}"
        pm = sorted({(t, k, of, ol, ot) for t, k, of, ol, ot, _ in s.mut}, key=str)
        if pm:
            t, k, of, ol, ot = pm[0]
            pname = fi.params[t[1]] if t[1] < len(fi.params) else f"#{t[1]}"
            ctx.bad("C17.3", f"{root} modifies its argument `{pname}`", f"{w.rel_of(of)}:{ol}",
                    f"`{ot}` in {of} ({k}) stores into the object passed as `{pname}`" + (" (inside it)" if t[2] else ""))
        else:
            ctx.ok("C17.3", f"{root} does not modify its arguments", where, "no mutation of a parameter region in its transitive summary")
        ann = core.src(fi.node.returns).strip("'\"") if fi.node.returns is not None else ""
        from .effects import IMM_ANNOT, IMM_TUPLE_ANNOT
        imm_result = ann in IMM_ANNOT or ann in IMM_TUPLE_ANNOT
        ann_n = ann.replace("typing.", "").replace("t.", "", 1) if ann.startswith(("typing.", "t.")) else ann
        inner = ann_n[ann_n.index("[") + 1:-1] if ann_n.startswith(("List[", "Sequence[", "Tuple[", "list[", "tuple[", "Iterable[", "Collection[")) \
            and ann_n.endswith("]") else None
        imm_elems = inner is not None and all(x.strip() in IMM_ANNOT or x.strip() in IMM_TUPLE_ANNOT or x.strip() == "..." for x in inner.split(","))
        shared = set()
        stack = list(s.ret)
        seen_f = set()
        while stack:
            n = stack.pop()
            if n[0] == "G":
                # the declared result type tells which levels can hold mutable objects at all
                if imm_result:
                    continue
                if n[2] == 0 or (n[2] == 1 and not imm_elems):
                    shared.add(n)
            elif n[0] == "F" and n[1] not in seen_f:
                seen_f.add(n[1])
                stack.extend(s.fcont.get(n[1], ()))
        # a module-level object (or a component of one, at whatever depth: `return TABLE[key]`) that is itself the returned value:
        # unless the declared result type is immutable, the caller holds a reference into module-level state
        direct = [n for n in s.ret if n[0] == "G" and not imm_result]
        if direct or shared:
            n = (direct or sorted(shared))[0]
            ctx.bad("C17.4", f"{root} returns (part of) the shared object {n[1]}", where,
                    "a caller that mutates the returned value changes module-level data and thereby later results")
        else:
            ctx.ok("C17.4", f"{root} returns objects allocated in the call (or immutable values)", where,
                   f"returned nodes {sorted(map(str, s.ret))[:4]}")


def run(ctx):
    ctx.explanation = (
        "Same heap model as C16 (resolved call graph + effect summaries), single thread, arbitrary history. C17.1: every write to "
        "module-level state reachable from the API is an admitted cache fill whose value is a function of its key, a write-only "
        "counter, or a scratch buffer that is completely written before it is read in every activation (syntax-directed "
        "must-define walk with derived fully-defines-parameter summaries); anything else is persistent state that later calls read. "
        "C17.2: cache keys are complete (every variable the value is computed from feeds the key) and injective (the list indices are "
        "evaluated with the abstract interpreter for every combination of boolean arguments and checked to be mixed-radix forms with "
        "disjoint ranges). C17.3: no public function mutates a parameter (transitively). C17.4: public functions return objects "
        "allocated in the call, never module-level objects. C17.5: no nondeterminism source is reachable.")
    ctx.trusted_base = ["sa/model.py, sa/effects.py (flow-insensitive points-to, sound for may-write)", "sa/absint.py for the index forms"]
    ctx.assumptions = ["callers do not mutate package internals from outside the package"]
    w = World(ctx)
    om = OriginModel(ctx.sources)
    from .shared_state import wrapper_memo_collisions
    collide = wrapper_memo_collisions(w.model)
    colliding = {f for _, fs in collide for f in fs}
    for wm, fs in collide:
        if any(f in w.reach for f in fs):
            ctx.bad("C17.2", f"memo of the decorator {wm.decorator} is shared by {', '.join(f.split('.', 2)[-1] for f in fs)} and keyed by `{wm.key_text}` only", f"{wm.rel}:{wm.line}",
                    f"the results of these functions are stored in the same {'per-instance attribute' if wm.storage[0] == 'instance' else 'module-level container'} "
                    f"{wm.storage[1]!r} under a key that does not say which function was called: whichever is called first with given arguments "
                    f"answers for the others afterwards", owners=sorted(fs), object=f"<memo of {wm.decorator}>")
    for f, d in w.unknown_decorators:
        if f in colliding:
            continue
        ctx.unk("C17.0", f"{f} is wrapped by the decorator @{d}", f"{w.rel_of(f)}:{w.model.funcs[f].node.lineno}",
                "the effects of the wrapper are not modelled; obligations that involve this function are not decided")
    check_shared_writes(ctx, w, om)
    check_roots(ctx, w)
    # ---- C17.5 ------------------------------------------------------------------------------------------------
    nd = []
    for fq, fa in w.eff.analyses.items():
        if fq in w.reach or w.model.funcs[fq].is_module_body:
            for line, what in fa.nondet:
                nd.append((fq, line, what))
    for fq, line, what in nd:
        ctx.bad("C17.5", f"{fq} uses the nondeterminism source {what}", f"{w.rel_of(fq)}:{line}", "results can differ between two interpreters given the same arguments")
    if not nd:
        ctx.ok("C17.5", "no nondeterminism source (random, time, environment, id/hash) is reachable from the API or import-time code", "a5/",
               f"{len(w.reach)} reachable functions and {sum(1 for f in w.model.funcs.values() if f.is_module_body)} module bodies scanned")
