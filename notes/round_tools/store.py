import json, os, shutil, sys
props = {json.loads(l)["id"]: json.loads(l) for l in open("/verif/properties.jsonl")}
TRUTH = {
 "C02-1": (["C02", "C17"], ["C16"], "history at resolution >= 26: an earlier lookup whose coordinates round to the same 6-decimal key but lie in another cell (memo keyed by rounded coordinates)"),
 "C02-2": ([], ["C02"], "a cell (resolution >= 9) whose centre lies in the thin lens near a face-edge midpoint where the rounded-up early-exit constant of find_nearest_origin claims the point for the face listed first (numeric clause of C02 that is not claimed)"),
 "C16-1": (["C16"], ["C17", "C02"], "two threads in inverse() and a switch between the two stores (or between test and return) of the one-entry 'last triangle' memo on the shared projection object"),
 "C16-2": (["C16"], ["C17", "C02", "C12"], "a cold process: two threads need the same quintant (not 0) and one is preempted between publishing the new shape in the module-level table and rotating it in place"),  # (breaks, may, needs)
 "C05-1": (["C05"], [], "a position S at least 64 times too large whose six bits just above the S field are zero: serialize returns an id >= 2**64 instead of raising"),
 "C05-2": (["C16"], ["C05", "C17", "C06", "C08", "C09", "C10", "C20"], "two threads decoding different ids and a switch between the hit test and the return (or between the two stores) of the one-entry memo in get_resolution"),
 "C06-1": (["C06"], ["C10", "C20", "C05"], "an explicit target resolution of exactly 0 (`x or default` for `x if x is not None else default`)"),
 "C06-2": (["C16"], ["C06", "C05", "C17", "C08", "C09", "C10", "C20"], "two threads inside serialize with different (face, segment, resolution) and a switch between the memo stores and the return"),
 "C08-1": (["C08"], ["C09"], "a resolution-0 cell of face 1..11 together with a finer cell whose top six bits equal that face number"),
 "C08-2": (["C08"], ["C09"], "four consecutive cells of resolution >= 25 that straddle a parent boundary (int(a / b) goes through a 53-bit float)"),
 "C09-1": (["C09"], [], "a mixed-resolution antichain in which the first child of a group is given coarse and the other members only appear through merges of the last productive pass"),
 "C09-2": (["C09", "C08"], [], "an input that contains a complete resolution-1 cell as four resolution-2 (or finer) cells: the merge 2 -> 1 sets the resolution-0 marker bit"),
 "C10-1": (["C10"], [], "an input cell of resolution exactly 1 with target >= 2"),
 "C10-2": (["C10", "C17"], ["C06", "C20", "C05", "C16", "C08", "C09"], "history: a caller edits, in place, a list that cell_to_children returned earlier for the same (cell, resolution); the lru_cache hands the same list object to every caller"),
 "C12-1": ([], ["C12"], "a cell whose ring crosses the 87 deg E meridian and whose centre longitude lies in (-90, 90): a 360 degree jump between consecutive vertices (clause of C12 that is not claimed)"),
 "C12-2": (["C12", "C17"], ["C16"], "history: a closed ring with segments=1 asked for a resolution-0/1 cell grows the shape cached at import by one vertex per call"),
 "C15-1": (["C15"], [], "latitudes within 2e-7 rad of a pole: cos computed as sqrt(1 - sin^2) loses the round trip to 2.7e-11 rad"),
 "C15-2": (["C15", "C17"], ["C02", "C16"], "history: one direction is asked about a radian value bit-identical to one the other direction has seen (memo keyed by the angle only)"),
 "C17-1": (["C17", "C02"], ["C12", "C16"], "history: an earlier call unprojected a different point of the same face in the same 1e-9 bucket (resolution 29)"),
 "C17-2": (["C17"], ["C08", "C09"], "the argument is a list that is already strictly increasing and duplicate-free (e.g. the output of cell_to_children): compact then works in the caller's list"),
 "C19-1": (["C19"], [], "n >= 2**53 whose low 32-bit word is within 2**(bit_length-54) of 2**32 (float true division for the high word)"),
 "C19-2": (["C16"], ["C19", "C17"], "two threads converting different ids with a switch inside the one-entry memo decorator"),
 "C20-1": (["C16"], ["C20", "C10", "C17"], "two threads: one has stored the new pair but not yet the count of the one-entry memo in get_num_children"),
 "C20-2": (["C20", "C17"], ["C05", "C06", "C10", "C16", "C08", "C09"], "history: a caller mutates the list it got for the children of the world cell; the table keeps and hands out the same list object"),
}
for key in sys.argv[1:]:
    c, k = key.split("-")
    src = f"/tmp/r11/{c}/out/change-{k}"
    conf = json.load(open(f"/tmp/r11/{c}/out/confirm.json"))[k]
    assert conf["demo_clean"] == 0 and conf["apply"] == 0 and "925 passed" in conf["pytest_last"] and conf["demo_changed"] == 1, (key, conf)
    dst = f"/verif/seeded/r11-{c}-{k}"
    os.makedirs(dst, exist_ok=True)
    for f in ("patch.diff", "demo.py", "notes.md"):
        shutil.copy(f"{src}/{f}", f"{dst}/{f}")
    first = next((l.strip("# *").strip() for l in open(f"{src}/notes.md") if l.strip()), "")
    br, may, needs = TRUTH[key]
    meta = {"id": f"r11-{c}-{k}", "round": 11, "kind": "breaking", "written_for_property": c, "property_title": props[c]["title"],
            "author": "independent sub-agent given only the property text (statement, quantifier, why the tests cannot settle it, anchors) and its own scratch worktree (no access to /verif); free choice of where the defect sits; asked for two changes that differ in where they sit and in what they need to manifest",
            "summary": first[:200], "files": conf["files"], "breaks_claimed_properties": br, "may_break_claimed_properties": may,
            "may_break_reason": "other listed properties are broken only as a consequence of a function another check is responsible for, only under concurrent use, or in a clause that is not claimed",
            "needs_to_manifest": needs,
            "confirmed_by_me": {"how": "in the change's scratch worktree of /repo HEAD under /tmp/r11: demo on the clean tree, git apply patch.diff, full pytest run (-n 4), demo again, git checkout; worktree removed afterwards",
                                "tests_with_change": conf["pytest_last"], "demo_exit_clean_tree": conf["demo_clean"], "demo_exit_with_change": conf["demo_changed"],
                                "demo_last_line_with_change": conf["demo_changed_last"]}}
    json.dump(meta, open(f"{dst}/meta.json", "w"), indent=1)
    print("stored", dst)
